#!/usr/bin/env python3
"""Merge a module-author workspace into /verif: tools_merge_agent.py <workspace> <PROP>... """
import json, sys, shutil, os, re
w = sys.argv[1]; props = sys.argv[2:]
src = f'{w}/harness/src'
# copy property modules
for p in props:
    f = f'props/{p.lower()}.rs'
    shutil.copy(f'{src}/{f}', f'/verif/harness/src/{f}'); print('copied', f)
# copy new gens/model/oracle files
for sub in ('gens', 'model'):
    for f in os.listdir(f'{src}/{sub}'):
        if not os.path.exists(f'/verif/harness/src/{sub}/{f}'):
            shutil.copy(f'{src}/{sub}/{f}', f'/verif/harness/src/{sub}/{f}'); print('copied new', sub, f)
if os.path.isdir(f'{w}/harness/oracles'):
    shutil.copytree(f'{w}/harness/oracles', '/verif/harness/oracles', dirs_exist_ok=True); print('copied oracles')
# known findings
mine = json.load(open('/verif/known_findings.json'))
ids = {e['id'] for e in mine}
theirs = json.load(open(f'{w}/known_findings.json')) if os.path.exists(f'{w}/known_findings.json') else []
for e in theirs:
    if e['property'] not in props: continue
    nid = e['id'] if e['id'].startswith(e['property']) else f"{e['property']}-{e['id']}"
    if nid in ids: print('skip existing', nid); continue
    if e.get('replay'):
        newrp = f'replays/{nid}.json'
        shutil.copy(f"{w}/{e['replay']}", f'/verif/{newrp}')
        e['replay'] = newrp
    e['id'] = nid
    mine.append(e); ids.add(nid); print('added finding', nid)
json.dump(mine, open('/verif/known_findings.json', 'w'), indent=2)
