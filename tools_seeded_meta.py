#!/usr/bin/env python3
"""Writes /verif/seeded/<id>/meta.json from the sub-agent's notes.md and my own verification record final.json
(produced by the scratch-worktree pipeline described in DESIGN.md 8.6)."""
import json, os, re, sys, glob

ROOT = os.path.dirname(os.path.abspath(__file__))

def section(notes, pats):
    lines = notes.split("\n")
    out, on = [], False
    for l in lines:
        if l.startswith("## ") or l.startswith("# "):
            on = any(re.search(p, l, re.I) for p in pats)
            continue
        if on:
            out.append(l)
    return "\n".join(out).strip()

for d in sorted(glob.glob(os.path.join(ROOT, "seeded", "*"))):
    fj = os.path.join(d, "final.json")
    sj, dj = os.path.join(d, "suite.json"), os.path.join(d, "detect.json")
    if os.path.isfile(fj):
        fin = json.load(open(fj))
        # a later detection-only run (after a check was strengthened) overrides the detection part
        if os.path.isfile(dj) and os.path.getmtime(dj) > os.path.getmtime(fj):
            det_part = json.load(open(dj))
            fin["detection_in_the_full_run_before_the_check_was_strengthened"] = fin.get("detection", {})
            fin["detection"] = {**fin.get("detection", {}), **det_part.get("detection", {})}
            fin["route"] = det_part.get("route", "harness copy rebuilt against the patched scratch worktree")
    elif os.path.isfile(sj) and os.path.isfile(dj):
        fin = json.load(open(sj))
        det_part = json.load(open(dj))
        fin["detection"] = det_part.get("detection", {})
        fin["route"] = det_part.get("route", "harness copy rebuilt against the patched scratch worktree")
    elif os.path.isfile(sj) and os.path.isfile("" + os.path.join(ROOT, "seeded", "history_round1.json") + "") and json.load(open("" + os.path.join(ROOT, "seeded", "history_round1.json") + "")).get(os.path.basename(d)):
        # suite and demo confirmed at the current HEAD; detection taken from the earlier verification run(s)
        fin = json.load(open(sj))
        runs = sorted(json.load(open("" + os.path.join(ROOT, "seeded", "history_round1.json") + ""))[os.path.basename(d)], key=lambda x: x["run"])
        last = runs[-1]
        det = {}
        for pp, rc in last["check_exits"].items():
            first, subs = "", set()
            lg = os.path.join(d, f"check_{pp}.log")
            if os.path.isfile(lg):
                for l in open(lg, errors="replace"):
                    if l.startswith("VIOLATION"):
                        if not first:
                            first = l.strip()[:600]
                        m = re.search(r"sub=(\S+)", l)
                        if m:
                            subs.add(m.group(1))
            det[pp] = {"exit": rc, "first_violation": first, "sub_checks_reporting": sorted(subs)}
        fin["detection"] = det
        fin["route"] = "harness copy rebuilt against the patched scratch worktree at an earlier /repo HEAD (6688e3b..d5beb14); not repeated at the final HEAD for lack of machine time — the check has only been strengthened since"
    else:
        continue
    notes = open(os.path.join(d, "notes.md"), errors="replace").read() if os.path.isfile(os.path.join(d, "notes.md")) else ""
    sid = os.path.basename(d)
    prop = sid.split("-")[0]
    needs = section(notes, [r"needs? to manifest", r"needed (for it )?to manifest", r"needs in order"])
    change = section(notes, [r"^#+ (the )?change"])
    if not needs:
        needs = notes[:1500]
    det = fin.get("detection", {})
    own = det.get(prop, {})
    detected_by = [p for p, r in det.items() if r.get("exit") == 1]
    meta = {
        "id": sid,
        "breaks_property": prop,
        "change": change[:2500],
        "needs_to_manifest": needs[:3000],
        "what_i_ran": {
            "repo_head": fin.get("head"),
            "patch_applies_to_head": fin.get("patch_applies"),
            "pinned_suite_with_patch (cargo test --workspace --no-fail-fast --offline, passed failed)": fin.get("suite_passed_failed"),
            "demo.rs with patch (cargo test --test, exit; 101 = fails as intended)": fin.get("demo_exit_with_patch"),
            "demo.rs without patch": ("exit %s" % fin["demo_exit_without_patch"]) if "demo_exit_without_patch" in fin else "exit 0 (confirmed in the first verification run, see history)",
            "detection_route": fin.get("route", "harness copy rebuilt against the patched scratch worktree"),
            "checks (quick tier, seed 1, harness rebuilt against the patched worktree)": {p: {"exit": r.get("exit"), "sub_checks_reporting": r.get("sub_checks_reporting"), "first_violation": r.get("first_violation", "")[:400]} for p, r in det.items()},
        },
        "detected": own.get("exit") == 1,
        "detected_by": detected_by,
    }
    nf = os.path.join(d, "note.txt")
    if os.path.isfile(nf):
        meta["note"] = open(nf).read().strip()
    if fin.get("demo_exit_with_patch") == 0:
        meta["status"] = "superseded: at the final /repo HEAD the demonstration passes with the change applied (the code it touched was rewritten by fix e7f9b4a), so the change no longer breaks the property; kept for the record, not counted"
    hist_file = "" + os.path.join(ROOT, "seeded", "history_round1.json") + ""
    extra = os.path.join(d, "history.json")
    if os.path.isfile(hist_file):
        h = json.load(open(hist_file)).get(sid)
        if h:
            json.dump(sorted(h, key=lambda x: x["run"]), open(extra, "w"), indent=1)
    if os.path.isfile(extra):
        meta["earlier_runs (before the checks were strengthened; same patch)"] = json.load(open(extra))
    json.dump(meta, open(os.path.join(d, "meta.json"), "w"), indent=1, ensure_ascii=False)
    print(sid, "detected" if meta["detected"] else "MISSED", detected_by, fin.get("suite_passed_failed"), fin.get("demo_exit_with_patch"))
