#!/usr/bin/env python3
"""Regenerates the two generated tables of DESIGN.md (between the BEGIN/END markers):
8.3 per-property sub-checks from evidence/*.json, 8.6 seeded changes from seeded/*/meta.json."""
import json, glob, os, re
ROOT = os.path.dirname(os.path.abspath(__file__))

def status_table():
    rows = ["| property | sub-checks (evaluations / non-trivial, quick tier) | known-finding lines |", "|---|---|---|"]
    for f in sorted(glob.glob(os.path.join(ROOT, "evidence", "C*.json"))):
        d = json.load(open(f))
        c = d["coverage"]
        subs = "; ".join(f"`{s['name']}` {s['evaluations']}/{s['nontrivial']}" for s in c.get("sub_checks", []))
        rows.append(f"| {d['property_id']} | {subs} | {len(c.get('known_finding_lines', []))} |")
    return "\n".join(rows)

def one_line(t, n):
    t = re.sub(r"\s+", " ", t.replace("|", "/")).strip()
    return t if len(t) <= n else t[: n - 1] + "…"

def seeded_table():
    rows = ["| seeded change | site | needs | suite with patch | detected by (quick tier) |", "|---|---|---|---|---|"]
    for f in sorted(glob.glob(os.path.join(ROOT, "seeded", "*", "meta.json"))):
        m = json.load(open(f))
        d = os.path.dirname(f)
        site = ""
        pf = os.path.join(d, "patch.diff")
        if os.path.isfile(pf):
            site = ", ".join(sorted({l[6:].strip() for l in open(pf, errors="replace") if l.startswith("+++ b/")}))
        ran = m["what_i_ran"]
        suite = [v for k, v in ran.items() if k.startswith("pinned_suite")][0]
        checks = [v for k, v in ran.items() if k.startswith("checks")][0]
        det = []
        for p, r in checks.items():
            if r["exit"] == 1:
                det.append(f"{p}: " + ", ".join(f"`{s}`" for s in (r.get("sub_checks_reporting") or ["?"])))
        if m.get("status", "").startswith("superseded"):
            det = ["superseded by fix e7f9b4a (demo passes with the change): not counted"]
        rows.append(f"| {m['id']} | {site} | {one_line(m['needs_to_manifest'], 260)} | {suite} | {'; '.join(det) if det else '**not detected**'} |")
    return "\n".join(rows)

p = os.path.join(ROOT, "DESIGN.md")
s = open(p).read()
for name, fn in (("STATUS", status_table), ("SEEDED", seeded_table)):
    b, e = f"<!-- BEGIN {name} TABLE -->", f"<!-- END {name} TABLE -->"
    if b in s and e in s:
        i, j = s.index(b) + len(b), s.index(e)
        s = s[:i] + "\n" + fn() + "\n" + s[j:]
open(p, "w").write(s)
print("tables regenerated")
