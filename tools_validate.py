#!/usr/bin/env python3
"""Validate MANIFEST.json and evidence files against the schemas (uses the tooling venv's jsonschema)."""
import json, sys, glob
try:
    import jsonschema
except ImportError:
    print("jsonschema not importable; run with python3-vt"); sys.exit(2)
ms = json.load(open('/root/.vp/MANIFEST.schema.json'))
es = json.load(open('/root/.vp/EVIDENCE.schema.json'))
m = json.load(open('/verif/MANIFEST.json'))
jsonschema.validate(m, ms)
print("MANIFEST ok:", len(m['checks']), "checks,", len(m.get('not_applicable', [])), "not_applicable")
bad = 0
for c in m['checks']:
    p = c['evidence_file']
    p = p if p.startswith('/') else '/verif/' + p
    try:
        e = json.load(open(p))
        jsonschema.validate(e, es)
        print("  evidence ok:", p, e['tier'], "evals", e['coverage'].get('evaluations'), "distinct", e['coverage'].get('distinct_nontrivial'), "viol", e.get('violations'))
    except Exception as ex:
        bad += 1
        print("  EVIDENCE BAD:", p, str(ex)[:200])
sys.exit(1 if bad else 0)
