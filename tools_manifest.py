#!/usr/bin/env python3
"""Regenerates /verif/MANIFEST.json from the table below (keeps it schema-valid at all times)."""
import json, subprocess

HOOK_COMMITS = ["db46fe7"]

# id -> technique (the deciding method, in a few words)
TECH = {
 "C03": "proptest over stdlib calls (189 functions x generated argument tuples seeded from the functions' own examples, literal / exact-typed / union-typed / any-typed positions) in killable workers: result membership in the declared type, return_kind mask, infallible-typed calls never fail; failures classified by signature",
 "C05": "proptest over stdlib calls with per-call deadlines enforced on killable workers (5 s, then 20 s CPU alone) and an output-growth bound; extreme integers, non-finite floats, deeply nested containers and texts; failures classified by signature",
 "C14": "proptest: compile-twice / other-thread equality, fresh vs cleared-and-reused Runtime after event histories, N threads sharing one Arc<Program> against a sequential baseline",
 "C34": "metamorphic proptest over deliberately sloppy programs: every unused-result warning's span is replaced by `null` and the two programs are compared on the same event",
 "C04": "mutation-based and generative proptest with a no-panic oracle over compile -> render diagnostics -> final_type_info -> run: corpus mutation (26 kinds), token soup, generated programs, stdlib calls in killable workers",
 "C12": "two-pass metamorphic proptest: definition x perturbations x constant-dependent probe; the program with the variable vs the program with the literal of its observed runtime value",
 "C15": "proptest over mutation-heavy programs x read-only path sets x events: values at read-only paths compared before/after every accepted run",
 "C16": "proptest with a logging Target wrapper: every runtime read/insert/remove path must be covered by ProgramInfo.target_queries / target_assignments",
 "C17": "fault-injection proptest (and exhaustive single-fault enumeration on source cases): Err-returning vs skipping Target wrappers must agree; with every write rejected and no deletion in the program the target must stay unchanged; root-read failure ends with an error",
 "C01": "proptest over generated programs x events x external kinds (default / exact / widened): membership of result, returned value, final event/metadata and probed variables in the compiler's reported types, decided by an independent membership predicate",
 "C02": "proptest over generated `!`-free, abort-free programs x events x external kinds: no runtime error (NaN exempt), ProgramInfo consistency, and a hook recorder for infallible-typed sites that fail even when the error is swallowed",
 "C06": "differential proptest: generated programs with `return` injected at every grammar position vs reference interpreter; pinned source-level regressions",
 "C07": "differential proptest: generated programs with `abort` injected at every grammar position vs reference interpreter; pinned source-level regressions",
 "C08": "differential proptest: `??` / `ok, err =` dense programs vs reference interpreter, plus membership of the stored default in the compiler's reported type",
 "C09": "differential proptest: short-circuit/conditional programs with effectful operands and an evaluation trace vs reference interpreter",
 "C13": "differential proptest: closure calls (for_each, filter, map_values, map_keys, replace_with) with shadowing parameters and failing/returning bodies vs reference interpreter with save/restore semantics; final runtime state inspected",
 "C20": "proptest + exhaustive enumeration of short path texts: render/parse round-trips and agreement between the VRL compiler's path and parse_target_path",
 "C30": "grammar-based proptest + token mutation: parse(to_lucene(parse(q))) == parse(q) and serde round-trip",
 "C31": "metamorphic proptest (boolean composition identities, range = conjunction of bounds, irrelevance of unaddressed fields) plus a reference evaluator for attribute and tag leaves",
 "C33": "mutation-based proptest over the repository's VRL corpus and function examples: every diagnostic label within the source on char boundaries, rendering plain and coloured succeeds",
 "C10": "proptest + exhaustive edge grid against an independent ordering model; differential across literal / typed-field / value-API evaluation",
 "C11": "proptest against an independent arithmetic model (i128 mod 2^64, IEEE on converted operands), three delivery forms + value API",
 "C18": "proptest differential vs reference model + algebraic laws (get/insert/remove), stateful op histories, shrinking",
 "C19": "proptest: members constructed from generated kinds (top-down and by widening exact kinds), soundness of Kind get/insert/remove/union/merge/superset against an independent membership predicate",
 "C21": "proptest + exhaustive code-point and number grids: encode_json/parse_json and serde round-trips with ulp-exact float comparison",
 "C22": "proptest round-trips decode(encode(x, opts), opts) == x through compiled VRL for every codec and option value",
 "C23": "proptest + enumerated algorithm grid: decrypt(encrypt(p)) == p for all 32 algorithms with documented key/IV sizes; ciphertext != plaintext law; ip round-trips",
 "C24": "proptest + exhaustive structural-character grid: parse(encode(x)) == x for key-value (5 delimiter choices), logfmt, CSV",
 "C25": "proptest + enumerated base/edge grid: inverse-pair laws in both directions with own printers for intermediate forms",
 "C26": "descriptor-driven proptest: message-shaped values for every bundled message type, parse_proto(encode_proto(v)) == normalise(v)",
 "C27": "proptest differential against independent implementations (python hashlib/hmac, own bit-serial CRC validated on catalogue check values, twox-hash, own SeaHash)",
 "C28": "proptest algebraic laws with small independent models (idempotence, split/join, substring search, truncate/strlen, slice, unique, compact, keys/values, merge)",
 "C29": "proptest + enumerated grid with an exact rational-arithmetic oracle (BigRational) for round/ceil/floor/abs/mod and conversion consistency laws",
 "C32": "proptest: generated grok rules vs reference regex built from an own pattern table (regex crate), captures + filters model, alias DAG/cycle enumeration",
 "C35": "proptest + enumerated spellings: Conversion::parse/convert round-trips of canonical text under seven configured timezones, independent chrono_tz oracle for zone-less formats",
 "C36": "metamorphic proptest: one compiled program of tagged time-operation templates run under two timezones; zone-explicit parts identical, zone-implicit parts must differ when offsets differ",
}

def describe():
    out = subprocess.run(['/verif/harness/target/release/vcheck', 'describe'], capture_output=True, text=True, check=True).stdout
    return {d['id']: d for d in json.loads(out)}

PENDING_REASON = "check not built yet in this revision (planned: see DESIGN.md section 3)"

def main():
    global CHECKS
    CHECKS = describe()
    props = [json.loads(l) for l in open('/verif/properties.jsonl')]
    checks = []
    na = []
    for p in props:
        pid = p['id']
        if pid in CHECKS:
            d = CHECKS[pid]
            tech = TECH.get(pid, 'property-based testing (proptest) against an explicit oracle')
            text = ("Exploration by generated-input search with shrinking and replay; holds on everything explored, absence of violations elsewhere is not established. " + d['rule'])[:1800]
            note = d['note']; ref = '3/' + pid
            checks.append({
                "property_id": pid,
                "quick_cmd": f"./check {pid} quick",
                "thorough_cmd": f"./check {pid} thorough",
                "evidence_file": f"/verif/evidence/{pid}.json",
                "replay_cmd_template": f"./check {pid} --replay {{path}}",
                "engine": "vcheck",
                "level_claimed": {"category": "exploration", "text": text, "design_ref": f"DESIGN.md section {ref}"},
                "level_note": note,
                "technique": tech,
            })
        else:
            na.append({"property_id": pid, "reason": NA.get(pid, PENDING_REASON)})
    m = {
        "version": 1,
        "setup_cmd": "cd /verif/harness && CARGO_NET_OFFLINE=true cargo build --release --offline",
        "hooks": {
            "guard": "cargo feature verif-hooks (off by default)",
            "enable": "the harness depends on vrl = { path = \"/repo\", features = [\"test\", \"verif-hooks\"] }; ./check rebuilds it from /repo's working tree on every invocation",
            "baseline_off_cmd": "cd /repo && CARGO_NET_OFFLINE=true cargo nextest run --workspace --no-fail-fast --test-threads 8 --offline || (cd /repo && CARGO_NET_OFFLINE=true cargo test --workspace --no-fail-fast --offline)",
            "source_commits": HOOK_COMMITS,
            "add_only": True,
        },
        "engines": [
            {"name": "vcheck", "path": "/verif/harness", "serves_properties": sorted(CHECKS.keys()),
             "kind_free_text": "Rust binary: seeded, 16-way sharded proptest TestRunners (fixed work per tier, shrinking, replay files, known-findings protocol), generators for values/kinds/paths/programs/stdlib calls, reference models"},
        ],
        "checks": checks,
        "notes": "All checks are generated-input search against explicit oracles (proptest runners: seeded, 16-way sharded, shrinking to a replay file; exhaustive enumeration for finite grids; no libFuzzer target is registered, see DESIGN.md 8.2). Exit 0 = held on everything explored (KNOWN-FINDING lines possible), 1 = VIOLATION line(s), 2 = harness could not conclude. VERIF_SEED selects the PRNG stream.",
        "not_applicable": na,
    }
    json.dump(m, open('/verif/MANIFEST.json', 'w'), indent=1)
    print("wrote MANIFEST.json:", len(checks), "checks;", len(na), "not_applicable")

NA = {}

if __name__ == '__main__':
    main()
