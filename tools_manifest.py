#!/usr/bin/env python3
"""Regenerates /verif/MANIFEST.json from the table below (keeps it schema-valid at all times)."""
import json, subprocess

HOOK_COMMITS = ["db46fe7"]

# id -> (technique, level text, level note, design ref)
CHECKS = {
 "C10": ("proptest + exhaustive edge grid against an independent ordering model; differential across literal / typed-field / value-API evaluation",
         "Pairs of integers (27x27 edge grid exhaustively, random, neighbours around 2^53..2^63), floats, byte strings, timestamps, mixed int/float and structured values are compared through compiled VRL programs and the value API; all six operators must agree with an independent total-order model and with each other.",
         "trusts Rust's native orderings as the model; mixed int/float asserts only what the statement gives",
         "3/C10"),
 "C11": ("proptest against an independent arithmetic model (i128 mod 2^64, IEEE on converted operands), three delivery forms + value API",
         "Operator x operand-pair x delivery-form cases are evaluated through compiled VRL (literals, exact-typed fields, any-typed fields under ??) and the arithmetic API and compared bit-for-bit with the model; NaN must surface as an error.",
         "float results use the host's IEEE operations in both model and implementation (dispatch/conversion is what is independent); pairs the statement leaves undefined are only required not to panic",
         "3/C11"),
 "C18": ("proptest differential vs reference model + algebraic laws (get/insert/remove), stateful op histories, shrinking",
         "Generated (value, path, inserted value, prune) tuples and 1-8 step operation histories are pushed through Value::{get,insert,remove} and through an independent functional model; the four laws of the statement are asserted separately. Exploration only: absence of violations outside the generated cases is not established.",
         "trusts model/vpath.rs (reference semantics written from the doc comments) and the TV<->Value conversion",
         "3/C18"),
}

PENDING_REASON = "check not built yet in this revision (planned: see DESIGN.md section 3)"

def main():
    props = [json.loads(l) for l in open('/verif/properties.jsonl')]
    checks = []
    na = []
    for p in props:
        pid = p['id']
        if pid in CHECKS:
            tech, text, note, ref = CHECKS[pid]
            checks.append({
                "property_id": pid,
                "quick_cmd": f"./check {pid} quick",
                "thorough_cmd": f"./check {pid} thorough",
                "evidence_file": f"/verif/evidence/{pid}.json",
                "replay_cmd_template": f"./check {pid} --replay {{path}}",
                "engine": "vcheck",
                "level_claimed": {"category": "exploration", "text": text, "design_ref": f"DESIGN.md section {ref}"},
                "level_note": note,
                "technique": tech,
            })
        else:
            na.append({"property_id": pid, "reason": NA.get(pid, PENDING_REASON)})
    m = {
        "version": 1,
        "setup_cmd": "cd /verif/harness && CARGO_NET_OFFLINE=true cargo build --release --offline",
        "hooks": {
            "guard": "cargo feature verif-hooks (off by default)",
            "enable": "the harness depends on vrl = { path = \"/repo\", features = [\"test\", \"verif-hooks\"] }; ./check rebuilds it from /repo's working tree on every invocation",
            "baseline_off_cmd": "cd /repo && CARGO_NET_OFFLINE=true cargo nextest run --workspace --no-fail-fast --test-threads 8 --offline || (cd /repo && CARGO_NET_OFFLINE=true cargo test --workspace --no-fail-fast --offline)",
            "source_commits": HOOK_COMMITS,
            "add_only": True,
        },
        "engines": [
            {"name": "vcheck", "path": "/verif/harness", "serves_properties": sorted(CHECKS.keys()),
             "kind_free_text": "Rust binary: seeded, 16-way sharded proptest TestRunners (fixed work per tier, shrinking, replay files, known-findings protocol), generators for values/kinds/paths/programs/stdlib calls, reference models"},
        ],
        "checks": checks,
        "notes": "All checks are generated-input search against explicit oracles (proptest; libFuzzer for byte-level thorough tiers). Exit 0 = held on everything explored (KNOWN-FINDING lines possible), 1 = VIOLATION line(s), 2 = harness could not conclude. VERIF_SEED selects the PRNG stream.",
        "not_applicable": na,
    }
    json.dump(m, open('/verif/MANIFEST.json', 'w'), indent=1)
    print("wrote MANIFEST.json:", len(checks), "checks;", len(na), "not_applicable")

NA = {}

if __name__ == '__main__':
    main()
