//! C09 — short-circuit and conditional evaluation are exact.

use crate::engine::Run;
use crate::gens::proggen::{Preset, ProgCase};
use crate::model::diff::Agreed;
use crate::props::progdiff;

pub const RULE: &str = "cases = generated programs dense in `||`, `&&`, `!`, `if / else if / else` (with and without else) whose operands and branches carry observable side effects (assignments, del, pushes to a trace array `.t`), plus a generated event; real compiler+runtime vs reference interpreter: result values (`||` yields the operand, `&&` a boolean, missing else null) and the evaluation trace / final event, metadata and variables must agree. Non-trivial = in the reference run at least one operand or branch with a side effect was skipped and at least one was evaluated. Distinct = distinct serialised (program, event) cases.";
pub const NOTE: &str = "trusts the reference interpreter for evaluation order; the generator keeps at most one member of an object literal / argument list impure because their evaluation order is not part of any statement";

fn classify(_case: &ProgCase, a: &Agreed) -> (bool, Vec<&'static str>) {
    let mut c = Vec::new();
    if a.stats.skipped_effect > 0 {
        c.push("skipped_effectful_operand_or_branch");
    }
    if a.stats.evaluated_effect > 0 {
        c.push("evaluated_effectful_operand");
    }
    (a.stats.skipped_effect > 0 && a.stats.evaluated_effect > 0, c)
}

pub fn run(r: &mut Run) {
    let base = progdiff::base_preset(r);
    progdiff::sub(r, "short_circuit_and_branches", Preset { short_circuit: 10, coalesce: 2, closures: 1, infallible_assign: 1, ..base }, 200_000, 10_000_000, classify);
}
