//! C21 — JSON encoding round-trips.
//!
//! `parse_json(encode_json(v))` (compact and pretty) and the serde `Serialize`/`Deserialize`
//! implementations of `Value` must give back `v` for every JSON-representable value; a float leaf
//! may come back at most one unit in the last place away unless precise float parsing
//! (`float_roundtrip`) is enabled, in which case it must come back exactly.

use std::cell::RefCell;
use std::collections::BTreeMap;

use proptest::prelude::*;
use serde::{Deserialize, Serialize};
use vrl::compiler::Program;
use vrl::value::Value;

use crate::engine::{Run, V};
use crate::gens::value::{field, finite_float, int, ustring, FLOAT_EDGES, INT_EDGES, TV};
use crate::vrlx::{self, End};

pub const RULE: &str = "cases = JSON-representable values: trees to depth 6 of objects (keys from a shared vocabulary, the empty key, and strings over the stress alphabet), arrays, null, booleans, full-range integers (edges, 2^53 and 2^63 neighbourhoods), finite floats (edge grid incl. -0.0 and subnormals, decimal fractions, uniformly random bit patterns, powers of ten and two with +-2 ulp neighbours, integral floats) and UTF-8 strings (quotes, backslashes, every C0 control, DEL, U+2028/9, BOM, surrogate-adjacent and non-BMP code points). Every case goes (a) through one compiled VRL program computing parse_json!(encode_json(.v)), the same with `pretty: true`, `pretty: false`, and `lossy: false` on the parse side, and (b) through serde_json::{to_string,to_string_pretty,to_vec,to_value} of the vrl Value followed by from_str/from_slice/from_value::<Value>. The result is compared with the input by the harness's own structural equality (integer stays integer, float stays float, strings byte-equal, same keys); float leaves may differ by <=1 ulp (0 when the float_roundtrip probe says precise parsing is on). A leaf exactly 2 ulps off is classified by signature (known finding), >=3 ulps or any other difference is a violation. Two exhaustive sub-checks: every Unicode scalar value (blocks of 64 as value, key and array of 1-char strings) and a number grid. Non-trivial = has a float with fractional or exponent part, or a string needing an escape, or nesting >= 2. Distinct = distinct serialised cases.";
pub const NOTE: &str = "trusts the harness's structural comparison and ulp metric (distance of the sign-magnitude bit patterns; -0.0 and 0.0 at distance 0, as in Value's own equality); the precise-float-parsing state is probed behaviourally (20 000 fixed bit patterns plus six literals: serde_json's default parser reads about 29 % of them back inexactly, the float_roundtrip parser none) and recorded in evidence; parse_json's max_depth option and the From/TryInto<serde_json::Value> conversions are outside the statement and not checked";

pub const SIG_2ULP: &str = "C21:float-leaf-off-by-exactly-2-ulps";

#[derive(Clone, Debug, Serialize, Deserialize)]
pub struct Case {
    pub v: TV,
}

// ------------------------------------------------------------------------------------------
// comparison

fn ord(x: f64) -> i128 {
    let b = x.to_bits();
    let m = i128::from(b & 0x7fff_ffff_ffff_ffff);
    if b >> 63 == 1 {
        -m
    } else {
        m
    }
}

pub fn ulps(a: f64, b: f64) -> u128 {
    (ord(a) - ord(b)).unsigned_abs()
}

#[derive(Default)]
struct Cmp {
    /// first non-float (or non-finite) difference
    bad: Option<String>,
    max_ulps: u128,
    worst: Option<String>,
}

fn kind_name(v: &Value) -> &'static str {
    match v {
        Value::Null => "null",
        Value::Boolean(_) => "boolean",
        Value::Integer(_) => "integer",
        Value::Float(_) => "float",
        Value::Bytes(_) => "string",
        Value::Timestamp(_) => "timestamp",
        Value::Regex(_) => "regex",
        Value::Array(_) => "array",
        Value::Object(_) => "object",
    }
}

fn compare(want: &TV, got: &Value, path: &mut Vec<String>, out: &mut Cmp) {
    if out.bad.is_some() {
        return;
    }
    let at = |path: &Vec<String>| if path.is_empty() { "<root>".to_string() } else { path.join("") };
    match (want, got) {
        (TV::Null, Value::Null) => {}
        (TV::Bool(a), Value::Boolean(b)) if a == b => {}
        (TV::Int(a), Value::Integer(b)) if a == b => {}
        (TV::Float(a), Value::Float(b)) => {
            let b = b.into_inner();
            if !b.is_finite() {
                out.bad = Some(format!("at {}: finite float {:?} came back as {b:?}", at(path), a.0));
                return;
            }
            let d = ulps(a.0, b);
            if d > out.max_ulps {
                out.max_ulps = d;
                out.worst = Some(format!("at {}: float {:?} came back as {b:?} ({d} ulps off)", at(path), a.0));
            }
        }
        (TV::Str(a), Value::Bytes(b)) if a.as_bytes() == b.as_ref() => {}
        (TV::Array(a), Value::Array(b)) => {
            if a.len() != b.len() {
                out.bad = Some(format!("at {}: array of {} elements came back with {}", at(path), a.len(), b.len()));
                return;
            }
            for (i, (x, y)) in a.iter().zip(b.iter()).enumerate() {
                path.push(format!("[{i}]"));
                compare(x, y, path, out);
                path.pop();
            }
        }
        (TV::Object(a), Value::Object(b)) => {
            let ka: Vec<&str> = a.keys().map(String::as_str).collect();
            let kb: Vec<&str> = b.keys().map(|k| k.as_str()).collect();
            if ka != kb {
                out.bad = Some(format!("at {}: object keys {ka:?} came back as {kb:?}", at(path)));
                return;
            }
            for ((k, x), y) in a.iter().zip(b.values()) {
                path.push(format!(".{k:?}"));
                compare(x, y, path, out);
                path.pop();
            }
        }
        (w, g) => {
            out.bad = Some(format!("at {}: {w:?} came back as {} {g}", at(path), kind_name(g)));
        }
    }
}

/// Ok(max ulps seen) or the message of a difference that no tolerance covers
fn judge(want: &TV, got: &Value) -> Cmp {
    let mut c = Cmp::default();
    compare(want, got, &mut Vec::new(), &mut c);
    c
}

// ------------------------------------------------------------------------------------------
// precise-float-parsing probe

/// Floats whose shortest decimal text serde_json's default (non-`float_roundtrip`) parser reads
/// back inexactly (measured on the pinned build: the first by 2 ulps, the others by 1 ulp).
const PROBE_TEXTS: &[&str] = &[
    "2.2000917086977154e-75",
    "4.476269413196671e-242",
    "8.988465674311579e307",
    "1.2345678901234567e-300",
    "9.007199254740993e300",
    "6.631236871469758e-316",
];

#[derive(Clone, Debug, Serialize)]
pub struct Probe {
    pub sample_size: u32,
    /// how many of the sampled bit patterns did not come back bit-exact / came back >= 2 ulps off
    pub sample_inexact: u32,
    pub sample_2ulps_or_more: u32,
    pub sample_max_ulps: u64,
    /// (text, ulps off) for the fixed probe literals
    pub literals: Vec<(String, u64)>,
    pub precise: bool,
}

/// Behavioural probe: is serde_json's precise float parser (`float_roundtrip`) compiled in?
/// A dense deterministic sample of bit patterns (uniform over all finite exponents): the default
/// parser reads a noticeable share of them back inexactly, the precise one none.
pub fn probe() -> &'static Probe {
    use std::sync::OnceLock;
    static P: OnceLock<Probe> = OnceLock::new();
    P.get_or_init(|| {
        let mut p = Probe { sample_size: 0, sample_inexact: 0, sample_2ulps_or_more: 0, sample_max_ulps: 0, literals: Vec::new(), precise: false };
        let mut z: u64 = 0x1234_5678_9abc_def1;
        while p.sample_size < 20_000 {
            z = z.wrapping_mul(6364136223846793005).wrapping_add(1442695040888963407);
            let x = f64::from_bits(z ^ (z >> 29));
            if !x.is_finite() {
                continue;
            }
            p.sample_size += 1;
            let text = serde_json::to_string(&x).unwrap_or_default();
            let d = match serde_json::from_str::<f64>(&text) {
                Ok(y) if y.is_finite() => ulps(x, y).min(1 << 60) as u64,
                _ => 1 << 60,
            };
            if d > 0 {
                p.sample_inexact += 1;
            }
            if d >= 2 {
                p.sample_2ulps_or_more += 1;
            }
            p.sample_max_ulps = p.sample_max_ulps.max(d);
        }
        let mut lit_inexact = 0;
        for t in PROBE_TEXTS {
            let x: f64 = t.parse().expect("probe literal");
            let d = match serde_json::from_str::<f64>(t) {
                Ok(y) if y.is_finite() => ulps(x, y).min(1 << 60) as u64,
                _ => 1 << 60,
            };
            if d > 0 {
                lit_inexact += 1;
            }
            p.literals.push(((*t).to_string(), d));
        }
        p.precise = p.sample_inexact == 0 && lit_inexact == 0;
        p
    })
}

pub fn precise_float_parsing() -> bool {
    probe().precise
}

fn tolerance() -> u128 {
    if precise_float_parsing() {
        0
    } else {
        1
    }
}

// ------------------------------------------------------------------------------------------
// classes

#[derive(Default)]
struct Shape {
    float_frac_or_exp: bool,
    escape_string: bool,
    non_bmp: bool,
    control: bool,
    empty_key: bool,
    big_int: bool,
    neg_zero: bool,
    subnormal: bool,
    integral_float: bool,
    uni_line_sep: bool,
    floats: u32,
}

fn needs_escape(s: &str) -> bool {
    s.chars().any(|c| c == '"' || c == '\\' || (c as u32) < 0x20)
}

fn scan_str(s: &str, sh: &mut Shape) {
    sh.escape_string |= needs_escape(s);
    sh.non_bmp |= s.chars().any(|c| (c as u32) > 0xffff);
    sh.control |= s.chars().any(|c| (c as u32) < 0x20 || c == '\u{7f}');
    sh.uni_line_sep |= s.chars().any(|c| c == '\u{2028}' || c == '\u{2029}');
}

fn scan(v: &TV, sh: &mut Shape) {
    match v {
        TV::Float(f) => {
            sh.floats += 1;
            let x = f.0;
            let text = format!("{x:?}");
            if x.fract() != 0.0 || text.contains('e') {
                sh.float_frac_or_exp = true;
            } else {
                sh.integral_float = true;
            }
            sh.neg_zero |= x == 0.0 && x.is_sign_negative();
            sh.subnormal |= x != 0.0 && x.abs() < f64::MIN_POSITIVE;
        }
        TV::Int(i) => sh.big_int |= i.unsigned_abs() > (1u64 << 53),
        TV::Str(s) => scan_str(s, sh),
        TV::Array(a) => a.iter().for_each(|x| scan(x, sh)),
        TV::Object(o) => {
            for (k, x) in o {
                sh.empty_key |= k.is_empty();
                scan_str(k, sh);
                scan(x, sh);
            }
        }
        _ => {}
    }
}

fn in_domain(v: &TV) -> bool {
    match v {
        TV::Null | TV::Bool(_) | TV::Int(_) | TV::Str(_) => true,
        TV::Float(f) => f.0.is_finite(),
        TV::Bin(_) | TV::Ts { .. } | TV::Regex(_) => false,
        TV::Array(a) => a.iter().all(in_domain),
        TV::Object(o) => o.values().all(in_domain),
    }
}

fn verdict(c: &Case, results: Vec<(&'static str, Cmp, Option<String>)>) -> V {
    let tol = tolerance();
    let mut max = 0u128;
    let mut two: Option<String> = None;
    for (how, cmp, text) in results {
        let shown = |t: &Option<String>| t.as_ref().map(|t| format!(" [text: {}]", clip(t, 300))).unwrap_or_default();
        if let Some(b) = cmp.bad {
            return V::fail(format!("{how}: {b}{}", shown(&text)));
        }
        if cmp.max_ulps > tol {
            let msg = format!("{how}: {}{}", cmp.worst.clone().unwrap_or_default(), shown(&text));
            if cmp.max_ulps == 2 && tol == 1 {
                if two.is_none() {
                    two = Some(msg);
                }
            } else {
                return V::fail(msg);
            }
        }
        max = max.max(cmp.max_ulps);
    }
    if let Some(msg) = two {
        return V::fail_sig(SIG_2ULP, msg);
    }
    let mut sh = Shape::default();
    scan(&c.v, &mut sh);
    let depth = c.v.depth();
    V::pass()
        .nontrivial(sh.float_frac_or_exp || sh.escape_string || depth >= 2)
        .class_if(sh.float_frac_or_exp, "float_with_fraction_or_exponent")
        .class_if(sh.integral_float, "integral_float")
        .class_if(sh.escape_string, "string_needing_escape")
        .class_if(depth >= 2, "nesting>=2")
        .class_if(depth >= 4, "nesting>=4")
        .class_if(depth == 0, "root_scalar")
        .class_if(sh.non_bmp, "non_bmp_char")
        .class_if(sh.control, "control_char")
        .class_if(sh.uni_line_sep, "u2028_u2029")
        .class_if(sh.empty_key, "empty_key")
        .class_if(sh.big_int, "int_beyond_2^53")
        .class_if(sh.neg_zero, "negative_zero")
        .class_if(sh.subnormal, "subnormal_float")
        .class_if(max == 1, "float_came_back_1_ulp_off")
        .class_if(sh.floats > 0 && max == 0, "floats_all_exact")
}

fn clip(s: &str, n: usize) -> String {
    if s.chars().count() > n {
        s.chars().take(n).collect::<String>() + "…"
    } else {
        s.to_string()
    }
}

// ------------------------------------------------------------------------------------------
// (a) through compiled VRL

const SRC: &str = r#"
j0 = encode_json(.v)
j1 = encode_json(.v, pretty: true)
j2 = encode_json(.v, pretty: false)
[parse_json!(j0), parse_json!(j1), parse_json!(j2), parse_json!(j1, lossy: false), j0, j1, j2]
"#;

thread_local! {
    static PROGRAM: RefCell<Option<Program>> = const { RefCell::new(None) };
}

fn with_program<T>(f: impl FnOnce(&Program) -> T) -> Result<T, String> {
    PROGRAM.with(|slot| {
        let mut slot = slot.borrow_mut();
        if slot.is_none() {
            match vrlx::compile(SRC) {
                Ok(res) => *slot = Some(res.program),
                Err(d) => return Err(format!("round-trip program rejected: {}", vrlx::diag_summary(&d))),
            }
        }
        Ok(f(slot.as_ref().expect("compiled")))
    })
}

fn check_vrl(c: &Case) -> V {
    if !in_domain(&c.v) {
        return V::discard("not JSON-representable");
    }
    let ev = vrlx::event_of(&[("v", &c.v)]);
    let out = match with_program(|p| vrlx::run(p, ev, vrlx::empty_object())) {
        Ok(o) => o,
        Err(e) => return V::fail(e),
    };
    let arr = match &out.end {
        End::Ok(Value::Array(a)) if a.len() == 7 => a.clone(),
        End::Error(m) => {
            // show the text that did not parse
            let text = serde_json::to_string(&c.v.to_value()).unwrap_or_default();
            return V::fail(format!("parse_json!(encode_json(v)) failed: {m} [compact text: {}]", clip(&text, 300)));
        }
        other => return V::fail(format!("round-trip program ended with {other:?}")),
    };
    let text = |i: usize| arr[i].as_bytes().map(|b| String::from_utf8_lossy(b).into_owned());
    let (j0, j1, j2) = (text(4), text(5), text(6));
    if j0.is_none() || j1.is_none() || j2.is_none() {
        return V::fail("encode_json did not return a string");
    }
    let results = vec![
        ("parse_json!(encode_json(v))", judge(&c.v, &arr[0]), j0.clone()),
        ("parse_json!(encode_json(v, pretty: true))", judge(&c.v, &arr[1]), j1.clone()),
        ("parse_json!(encode_json(v, pretty: false))", judge(&c.v, &arr[2]), j2),
        ("parse_json!(encode_json(v, pretty: true), lossy: false)", judge(&c.v, &arr[3]), j1),
    ];
    verdict(c, results)
}

// ------------------------------------------------------------------------------------------
// (b) through serde

fn check_serde(c: &Case) -> V {
    if !in_domain(&c.v) {
        return V::discard("not JSON-representable");
    }
    let v = c.v.to_value();
    let mut results = Vec::new();
    match serde_json::to_string(&v) {
        Ok(t) => match serde_json::from_str::<Value>(&t) {
            Ok(back) => results.push(("serde_json::to_string -> from_str::<Value>", judge(&c.v, &back), Some(t))),
            Err(e) => return V::fail(format!("from_str::<Value> rejected to_string output: {e} [text: {}]", clip(&t, 300))),
        },
        Err(e) => return V::fail(format!("serde_json::to_string(&Value) failed: {e}")),
    }
    match serde_json::to_string_pretty(&v) {
        Ok(t) => match serde_json::from_str::<Value>(&t) {
            Ok(back) => results.push(("serde_json::to_string_pretty -> from_str::<Value>", judge(&c.v, &back), Some(t))),
            Err(e) => return V::fail(format!("from_str::<Value> rejected to_string_pretty output: {e} [text: {}]", clip(&t, 300))),
        },
        Err(e) => return V::fail(format!("serde_json::to_string_pretty(&Value) failed: {e}")),
    }
    match serde_json::to_vec(&v) {
        Ok(t) => match serde_json::from_slice::<Value>(&t) {
            Ok(back) => results.push(("serde_json::to_vec -> from_slice::<Value>", judge(&c.v, &back), Some(String::from_utf8_lossy(&t).into_owned()))),
            Err(e) => return V::fail(format!("from_slice::<Value> rejected to_vec output: {e}")),
        },
        Err(e) => return V::fail(format!("serde_json::to_vec(&Value) failed: {e}")),
    }
    match serde_json::to_value(&v) {
        Ok(j) => {
            let shown = j.to_string();
            match serde_json::from_value::<Value>(j) {
                Ok(back) => results.push(("serde_json::to_value -> from_value::<Value>", judge(&c.v, &back), Some(shown))),
                Err(e) => return V::fail(format!("from_value::<Value> rejected to_value output: {e} [{}]", clip(&shown, 300))),
            }
        }
        Err(e) => return V::fail(format!("serde_json::to_value(&Value) failed: {e}")),
    }
    verdict(c, results)
}

// ------------------------------------------------------------------------------------------
// generators

const JSON_CHARS: &[char] = &[
    '"', '\\', '/', '\u{0}', '\u{1}', '\u{7}', '\u{8}', '\t', '\n', '\u{b}', '\u{c}', '\r', '\u{e}', '\u{1b}', '\u{1f}', ' ', '\u{7f}',
    '\u{80}', '\u{85}', '\u{9f}', '\u{a0}', '\u{2028}', '\u{2029}', '\u{feff}', '\u{fffd}', '\u{fffe}', '\u{ffff}', '\u{d7ff}',
    '\u{e000}', '\u{10000}', '\u{1f600}', '\u{10ffff}', 'u', '0', 'a', 'é', '日', '{', '}', '[', ']', ':', ',', '\'',
];

fn jchar() -> impl Strategy<Value = char> {
    prop_oneof![
        6 => (0..JSON_CHARS.len()).prop_map(|i| JSON_CHARS[i]),
        2 => (0u32..0x20).prop_map(|c| char::from_u32(c).expect("C0")),
        3 => proptest::char::range('a', 'z'),
        1 => any::<char>(),
    ]
}

pub fn jstring() -> impl Strategy<Value = String> {
    prop_oneof![
        5 => proptest::collection::vec(jchar(), 0..=10).prop_map(|v| v.into_iter().collect::<String>()),
        3 => ustring(10),
        1 => Just(String::new()),
        // text that looks like JSON / escapes itself
        1 => prop_oneof![
            Just("\\u0041".to_string()), Just("\\n".to_string()), Just("\\\"".to_string()), Just("{\"a\":1}".to_string()),
            Just("null".to_string()), Just("1.0".to_string()), Just("\\ud83d\\ude00".to_string()), Just("\u{feff}{}".to_string()),
        ],
        1 => "[a-zA-Z0-9 ]{0,24}",
    ]
}

fn jkey() -> impl Strategy<Value = String> {
    prop_oneof![5 => field(), 4 => jstring(), 1 => Just(String::new())]
}

fn nudge(x: f64, d: i64) -> f64 {
    if !x.is_finite() {
        return x;
    }
    let y = f64::from_bits((x.to_bits() as i64).wrapping_add(d) as u64);
    if y.is_finite() {
        y
    } else {
        x
    }
}

/// finite floats, with the classes the statement singles out
pub fn jfloat() -> impl Strategy<Value = f64> {
    prop_oneof![
        3 => finite_float(),
        4 => any::<u64>().prop_map(|b| {
            let x = f64::from_bits(b);
            // non-finite patterns (exponent all ones) fold onto the largest finite exponent
            if x.is_finite() { x } else { f64::from_bits(b & !(1u64 << 52)) }
        }),
        2 => (-1_000_000i64..=1_000_000, 0u32..=9).prop_map(|(m, e)| m as f64 / 10f64.powi(e as i32)),
        1 => (any::<i64>(), 0u32..=18).prop_map(|(m, e)| m as f64 / 10f64.powi(e as i32)),
        1 => int().prop_map(|i| i as f64),
        2 => (-324i32..=308, -2i64..=2, any::<bool>()).prop_map(|(k, d, neg)| {
            let x = nudge(format!("1e{k}").parse::<f64>().expect("power of ten"), d);
            if neg { -x } else { x }
        }),
        1 => (-1074i32..=1023, -2i64..=2).prop_map(|(k, d)| nudge(2f64.powi(k), d)),
        1 => (0u64..(1u64 << 52)).prop_map(f64::from_bits), // subnormals
        1 => (1u32..=17, 0u32..=9, -30i32..=30).prop_map(|(digits, d, e)| {
            // d repeated `digits` times, scaled: 0.1, 0.3333333, 99999999e20 ...
            let s: String = std::iter::repeat(char::from(b'0' + d as u8)).take(digits as usize).collect();
            format!("0.{s}e{e}").parse::<f64>().unwrap_or(0.0)
        }),
    ]
    .prop_map(|x| if x.is_finite() { x } else { f64::MAX })
}

fn jscalar() -> BoxedStrategy<TV> {
    prop_oneof![
        1 => Just(TV::Null),
        1 => any::<bool>().prop_map(TV::Bool),
        4 => int().prop_map(TV::Int),
        5 => jfloat().prop_map(TV::float),
        5 => jstring().prop_map(TV::Str),
    ]
    .boxed()
}

pub fn jvalue(depth: u32) -> BoxedStrategy<TV> {
    jscalar()
        .prop_recursive(depth, 64, 5, |inner| {
            prop_oneof![
                1 => proptest::collection::vec(inner.clone(), 0..=5).prop_map(TV::Array),
                1 => proptest::collection::btree_map(jkey(), inner, 0..=5).prop_map(TV::Object),
            ]
        })
        .boxed()
}

/// deep, narrow trees (nesting up to `d`), so that the pretty printer's indentation is exercised
fn chain() -> impl Strategy<Value = TV> {
    (proptest::collection::vec((any::<bool>(), jkey()), 1..=24), jscalar()).prop_map(|(links, leaf)| {
        let mut v = leaf;
        for (arr, k) in links {
            v = if arr { TV::Array(vec![v]) } else { TV::obj([(k, v)]) };
        }
        v
    })
}

fn any_case() -> impl Strategy<Value = Case> {
    prop_oneof![
        10 => jvalue(6),
        2 => jscalar(),
        1 => chain(),
        1 => proptest::collection::vec(jfloat().prop_map(TV::float), 1..=8).prop_map(TV::Array),
        1 => proptest::collection::btree_map(jstring(), jstring().prop_map(TV::Str), 1..=6).prop_map(TV::Object),
    ]
    .prop_map(|v| Case { v })
}

fn float_case() -> impl Strategy<Value = Case> {
    prop_oneof![
        3 => jfloat().prop_map(TV::float),
        1 => proptest::collection::vec(jfloat().prop_map(TV::float), 1..=6).prop_map(TV::Array),
        1 => (jkey(), jfloat()).prop_map(|(k, x)| TV::obj([(k, TV::float(x))])),
    ]
    .prop_map(|v| Case { v })
}

fn code_point_blocks() -> Vec<Case> {
    let mut out = Vec::new();
    let mut start = 0u32;
    while start <= 0x10_ffff {
        let chars: Vec<char> = (start..start + 64).filter_map(char::from_u32).collect();
        if !chars.is_empty() {
            let s: String = chars.iter().collect();
            let each: Vec<TV> = chars.iter().map(|c| TV::Str(c.to_string())).collect();
            let keyed: BTreeMap<String, TV> = chars.iter().take(8).map(|c| (c.to_string(), TV::Int(i64::from(*c as u32)))).collect();
            out.push(Case {
                v: TV::obj([
                    ("s".to_string(), TV::Str(s.clone())),
                    (s, TV::Null),
                    ("each".to_string(), TV::Array(each)),
                    ("keys".to_string(), TV::Object(keyed)),
                ]),
            });
        }
        start += 64;
    }
    out
}

fn number_grid() -> Vec<Case> {
    let mut out = Vec::new();
    for i in INT_EDGES {
        for d in -2i64..=2 {
            out.push(Case { v: TV::Int(i.wrapping_add(d)) });
        }
    }
    for sh in 0..63u32 {
        for d in -1i64..=1 {
            out.push(Case { v: TV::Int((1i64 << sh).wrapping_add(d)) });
            out.push(Case { v: TV::Int((1i64 << sh).wrapping_add(d).wrapping_neg()) });
        }
    }
    let mut fl = |x: f64| {
        if x.is_finite() {
            for d in -2i64..=2 {
                let y = nudge(x, d);
                out.push(Case { v: TV::float(y) });
                out.push(Case { v: TV::float(-y) });
            }
        }
    };
    for x in FLOAT_EDGES {
        fl(*x);
    }
    for k in -324i32..=308 {
        fl(format!("1e{k}").parse::<f64>().expect("power of ten"));
    }
    for k in -1074i32..=1023 {
        fl(2f64.powi(k));
    }
    for i in INT_EDGES {
        fl(*i as f64);
    }
    for t in PROBE_TEXTS {
        fl(t.parse::<f64>().expect("probe literal"));
    }
    out
}

pub fn run(r: &mut Run) {
    r.extra.insert("precise_float_parsing_probe".to_string(), serde_json::to_value(probe()).unwrap_or_default());
    r.extra.insert("float_tolerance_ulps".to_string(), serde_json::json!(tolerance() as u64));
    // the finite lists are only needed by the search tier (a replay brings its own case)
    let (blocks, grid) = if r.is_replay() { (Vec::new(), Vec::new()) } else { (code_point_blocks(), number_grid()) };
    r.enumerate("every_code_point_vrl", blocks.clone(), check_vrl);
    r.enumerate("every_code_point_serde", blocks, check_serde);
    r.enumerate("number_grid_vrl", grid.clone(), check_vrl);
    r.enumerate("number_grid_serde", grid, check_serde);
    r.sub("vrl_encode_parse", 150_000, 10_000_000, any_case, check_vrl);
    r.sub("serde_value", 120_000, 10_000_000, any_case, check_serde);
    r.sub("float_leaves_vrl", 100_000, 10_000_000, float_case, check_vrl);
    r.sub("float_leaves_serde", 60_000, 5_000_000, float_case, check_serde);
}
