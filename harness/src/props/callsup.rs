//! Shared parent-side support for the function-indexed properties C03 / C04(calls) / C05:
//! per-function evidence counters, adaptive deadlines, and a triage ("survey") mode.

use std::collections::BTreeMap;
use std::sync::Mutex;
use std::time::Duration;

use crate::engine::workers::{self, EndClass, ExecOut, Stage, WorkerResult};
use crate::engine::{Run, V};
use crate::gens::call::{self, CallCase, FnSpec, Pos};

#[derive(Default, Clone)]
pub struct FnStat {
    pub calls: u64,
    pub compiled: u64,
    pub rejected: u64,
    pub ok: u64,
    pub error: u64,
    pub nontrivial: u64,
    pub panics: u64,
    pub timeouts: u64,
    pub deaths: u64,
    pub max_run_us: u64,
    /// histogram of run time: bucket i counts runs with 2^(i-1) <= µs < 2^i
    pub hist: [u64; 32],
}

impl FnStat {
    pub fn p99_us(&self) -> u64 {
        let total: u64 = self.hist.iter().sum();
        if total == 0 {
            return 0;
        }
        let want = total - total / 100;
        let mut acc = 0;
        for (i, c) in self.hist.iter().enumerate() {
            acc += c;
            if acc >= want {
                return 1u64 << i;
            }
        }
        self.max_run_us
    }
}

pub struct Stats {
    pub per_fn: Mutex<BTreeMap<String, FnStat>>,
    /// timeouts per function (evidence only)
    pub slow: Mutex<BTreeMap<String, u32>>,
    pub survey: Mutex<BTreeMap<String, (u64, String, String)>>,
}

impl Stats {
    pub const fn new() -> Stats {
        Stats { per_fn: Mutex::new(BTreeMap::new()), slow: Mutex::new(BTreeMap::new()), survey: Mutex::new(BTreeMap::new()) }
    }

    pub fn record(&self, func: &str, res: &WorkerResult, nontrivial: bool) {
        let mut g = self.per_fn.lock().unwrap();
        let s = g.entry(func.to_string()).or_default();
        s.calls += 1;
        if nontrivial {
            s.nontrivial += 1;
        }
        match res {
            WorkerResult::Done(o) => {
                match o.stage {
                    Stage::Rejected => s.rejected += 1,
                    Stage::Ran => s.compiled += 1,
                    Stage::Panicked => s.panics += 1,
                }
                match o.end {
                    EndClass::Ok | EndClass::Return => s.ok += 1,
                    EndClass::Error | EndClass::Abort | EndClass::Other => s.error += 1,
                    EndClass::None => {}
                }
                if o.stage == Stage::Ran {
                    s.max_run_us = s.max_run_us.max(o.run_us);
                    let b = (64 - o.run_us.leading_zeros()) as usize;
                    s.hist[b.min(31)] += 1;
                }
            }
            WorkerResult::Timeout | WorkerResult::Starved => s.timeouts += 1,
            WorkerResult::Died { .. } => s.deaths += 1,
            WorkerResult::Harness(_) => {}
        }
    }

    pub fn note_timeout(&self, func: &str) {
        *self.slow.lock().unwrap().entry(func.to_string()).or_default() += 1;
    }

    pub fn timeouts_of(&self, func: &str) -> u32 {
        self.slow.lock().unwrap().get(func).copied().unwrap_or(0)
    }

    /// writes the per-function table, the under-exercised list and latency figures
    pub fn publish(&self, r: &mut Run, min_nontrivial: u64, with_latency: bool) {
        if r.is_replay() {
            return;
        }
        let g = self.per_fn.lock().unwrap();
        if g.is_empty() {
            return;
        }
        let mut table = serde_json::Map::new();
        let mut under: Vec<String> = Vec::new();
        for spec in call::specs() {
            let s = g.get(spec.name).cloned().unwrap_or_default();
            if s.nontrivial < min_nontrivial {
                under.push(format!("{} ({})", spec.name, s.nontrivial));
            }
            let mut row = serde_json::json!({
                "calls": s.calls, "compiled": s.compiled, "rejected": s.rejected, "ok": s.ok, "error": s.error,
                "nontrivial": s.nontrivial, "panics": s.panics, "timeouts": s.timeouts, "worker_deaths": s.deaths,
            });
            if with_latency {
                row["max_run_us"] = serde_json::json!(s.max_run_us);
                row["p99_run_us_upper"] = serde_json::json!(s.p99_us());
            }
            table.insert(spec.name.to_string(), row);
        }
        r.extra.insert("per_function".to_string(), serde_json::Value::Object(table));
        r.extra.insert("functions_checked".to_string(), serde_json::json!(call::specs().len()));
        r.extra.insert(format!("under_exercised_lt_{min_nontrivial}_nontrivial"), serde_json::json!(under));
        if !under.is_empty() {
            r.notes.push(format!(
                "{} of {} functions received fewer than {min_nontrivial} non-trivial calls in this run (generator work items, not passes): {}",
                under.len(),
                call::specs().len(),
                under.join(", ")
            ));
        }
        let survey = self.survey.lock().unwrap();
        if !survey.is_empty() {
            let mut m = serde_json::Map::new();
            for (sig, (n, case, msg)) in survey.iter() {
                eprintln!("SURVEY {n:>6} {sig}\n         {msg}\n         {case}");
                m.insert(sig.clone(), serde_json::json!({"count": n, "case": case, "msg": msg}));
            }
            r.extra.insert("survey".to_string(), serde_json::Value::Object(m));
        }
    }
}

pub fn survey_mode() -> bool {
    std::env::var_os("VCHECK_SURVEY").is_some()
}

/// In survey mode (triage aid, never used by registered commands) a signature-classified
/// failure is tallied and the search goes on.
pub fn fail(stats: &Stats, c: &CallCase, sig: String, msg: String) -> V {
    if survey_mode() {
        let mut g = stats.survey.lock().unwrap();
        let e = g.entry(sig).or_insert_with(|| (0, serde_json::to_string(c).unwrap_or_default(), msg));
        e.0 += 1;
        return V::pass().class("survey_failure");
    }
    V::fail_sig(sig, msg)
}

pub const DEADLINE: Duration = Duration::from_secs(4);
pub const SHORT_DEADLINE: Duration = Duration::from_millis(1000);

/// `VCHECK_DEADLINE_FACTOR` stretches the wall-clock deadlines whose expiry is merely inconclusive
/// (for heavily loaded machines and for triage tools); verdicts never depend on it.
pub fn deadline_factor() -> f64 {
    std::env::var("VCHECK_DEADLINE_FACTOR").ok().and_then(|s| s.parse::<f64>().ok()).filter(|f| *f >= 1.0 && *f <= 100.0).unwrap_or(1.0)
}

/// functions for which C05 has an open "hang" known finding
pub fn known_hang_functions() -> &'static std::collections::BTreeSet<String> {
    static SET: std::sync::OnceLock<std::collections::BTreeSet<String>> = std::sync::OnceLock::new();
    SET.get_or_init(|| {
        crate::engine::load_known_findings()
            .into_iter()
            .filter(|k| k.property == "C05" && k.status == "open")
            .filter_map(|k| k.signature)
            .filter_map(|s| {
                let parts: Vec<&str> = s.split(':').collect();
                if parts.len() == 4 && parts[2] == "hang" {
                    Some(parts[1].to_string())
                } else {
                    None
                }
            })
            .collect()
    })
}

/// Execute with a 4 s deadline (timeouts are inconclusive for the callers of this function); a
/// function with an open hang finding under C05 is given 1 s, which only saves time: a call
/// that would have finished between 1 s and 4 s is counted inconclusive instead of evaluated.
pub fn exec_adaptive(stats: &Stats, c: &CallCase) -> WorkerResult {
    let d = if known_hang_functions().contains(&c.func) { SHORT_DEADLINE } else { DEADLINE };
    let d = d.mul_f64(deadline_factor());
    let r = workers::exec(c, d);
    if matches!(r, WorkerResult::Timeout) {
        stats.note_timeout(&c.func);
    }
    r
}

/// generator-health classes shared by the three properties
pub fn common_classes(mut v: V, spec: &FnSpec, c: &CallCase, out: Option<&ExecOut>) -> V {
    if let Some(o) = out {
        v = match o.stage {
            Stage::Rejected => v.class("rejected"),
            Stage::Ran => v.class("compiled"),
            Stage::Panicked => v.class("panicked"),
        };
        v = match o.end {
            EndClass::Ok | EndClass::Return => v.class("end_ok"),
            EndClass::Error => v.class("end_error"),
            EndClass::Abort | EndClass::Other => v.class("end_other"),
            EndClass::None => v,
        };
        v = v.class_if(o.bang, "form_bang").class_if(o.stage == Stage::Ran && !o.bang, "form_plain");
        v = v.class_if(o.declared_never && o.stage == Stage::Ran, "declared_never");
    }
    let lit = c.args.iter().any(|a| a.pos == Pos::Lit && call::lit(&a.v).is_some());
    let exact = c.args.iter().any(|a| a.pos == Pos::Exact || (a.pos == Pos::Lit && call::lit(&a.v).is_none()));
    let any = c.args.iter().any(|a| a.pos == Pos::Any);
    let union = c.args.iter().any(|a| matches!(a.pos, Pos::Union(_)));
    let optional = c.args.iter().any(|a| spec.param(&a.kw).is_some_and(|p| !p.required));
    v.class_if(lit, "pos_literal")
        .class_if(exact, "pos_exact_typed")
        .class_if(any, "pos_any_typed")
        .class_if(union, "pos_union_typed")
        .class_if(optional, "optional_present")
        .class_if(!spec.wrong_kind_args(c).is_empty(), "wrong_kind_injected")
        .class_if(c.closure.is_some(), "closure")
        .class_if(c.args.iter().any(|a| a.named), "named_args")
}

pub fn death_is_resource(how: &workers::Death) -> bool {
    matches!(how, workers::Death::Alloc)
}

pub fn unknown_function() -> V {
    V::discard("unknown_or_io_function")
}
