//! C31 — Datadog search matching follows the query semantics.

use std::collections::{BTreeMap, BTreeSet};

use proptest::prelude::*;
use proptest::sample::select;
use serde::{Deserialize, Serialize};
use vrl::datadog_search_syntax::QueryNode;
use vrl::value::Value;

use crate::engine::{Run, V};
use crate::gens::value::TV;
use crate::vrlx;

pub const RULE: &str = "cases = (query q1, query q2, event, second event that differs from the first only in fields and tags that neither query addresses). Queries are trees of NOT/-, AND/&&/implicit AND, OR/|| (depth <= 3, mixed operators always parenthesised) over leaves field x {term, phrase, prefix, glob, _exists_, _missing_, comparison, range} with fields {@a, @b.c, @b, @n, tag1, tag2, env, host, service, default field} and values {foo, foobar, bar, 1, 2, 10, 1.5, 2x, \"foo bar\", ...}; events draw message/custom.*/a/b/n/host/service/tags/zz from the same vocabulary (strings, integers, floats, booleans, null, arrays, objects). One VRL program evaluates match_datadog_query for q1, q2, every leaf, and the composed texts NOT (q), -(q), +(q), (q1) AND/<blank>/|| (q2), both De Morgan pairs and the _exists_/_missing_ duals, on both events. Asserted: (A) the result of a query equals the boolean structure of the harness's own tree applied to vrl's results for its leaves; (B) the composition identities; (C) both events give the same results (irrelevance); (D) agreement with a reference evaluator for @attribute leaves on string/integer/non-integral-float values and for tag leaves. Ranges are generated with independently chosen brackets (`[l TO u}` and `{l TO u]` included). A second sub-check asserts range == conjunction of its bounds ([* TO y] == <=y, [x TO *] == >=x, [* TO *] == _exists_) for every field class. Non-trivial = the query has an operator or a range and both truth values occur among its leaf results. Distinct = distinct serialised cases.";
pub const NOTE: &str = "the reference evaluator (attribute: stringified scalar equality / starts_with / whole-string glob with * and ? / numeric comparison when both sides are numbers, otherwise string order; tag: `key:value` element of `tags`, `key` or `key:...` for existence) is written from the Datadog search-syntax documentation and answers 'unspecified' for the default field, reserved fields, null/boolean/array/object/integral-float attribute values and numeric bounds on tags; each leaf text is confirmed with vrl's parser to be a single clause before composition laws are asserted on it";

pub const SW_TAG_CMP: &str = "c31-tag-compare-ignores-key";
pub const SW_QMARK: &str = "c31-qmark-literal";

#[derive(Clone, Debug, Serialize, Deserialize, PartialEq)]
pub enum Fld {
    /// `@a`, `@b.c`
    Attr(String),
    Tag(String),
    /// host, service
    Reserved(String),
    Default,
}

#[derive(Clone, Debug, Serialize, Deserialize, PartialEq)]
pub enum Bound {
    Int(i64),
    /// decimal text with a fraction part, e.g. `1.5`, `10.0`
    Flt(String),
    Word(String),
}

#[derive(Clone, Debug, Serialize, Deserialize, PartialEq)]
pub enum Leaf {
    Term(String),
    Phrase(String),
    Prefix(String),
    Glob(String),
    Exists,
    Missing,
    /// 0 `>`, 1 `>=`, 2 `<`, 3 `<=`
    Cmp(u8, Bound),
    /// `incl`: the lower bracket is `[`; `hi_incl`: the upper bracket is `]` (None = same as the lower one)
    Range {
        lo: Option<Bound>,
        hi: Option<Bound>,
        incl: bool,
        #[serde(default)]
        hi_incl: Option<bool>,
    },
}

#[derive(Clone, Debug, Serialize, Deserialize, PartialEq)]
pub enum Q {
    All,
    Leaf(Fld, Leaf),
    /// style 0 `NOT x`, 1 `-x`
    Not(Box<Q>, u8),
    /// style 0 `AND`, 1 `&&`, 2 blank
    And(Vec<Q>, u8),
    /// style 0 `OR`, 1 `||`
    Or(Vec<Q>, u8),
}

#[derive(Clone, Debug, Serialize, Deserialize)]
pub struct Case {
    pub q1: Q,
    pub q2: Q,
    pub ev: TV,
    pub alt: TV,
}

#[derive(Clone, Debug, Serialize, Deserialize)]
pub struct RangeCase {
    pub fld: Fld,
    pub lo: Option<Bound>,
    pub hi: Option<Bound>,
    pub incl: bool,
    /// upper bracket inclusive (None = same as the lower bracket)
    #[serde(default)]
    pub hi_incl: Option<bool>,
    pub ev: TV,
}

// ------------------------------------------------------------------------------------------
// text

fn bound_text(b: &Bound) -> String {
    match b {
        Bound::Int(i) => i.to_string(),
        Bound::Flt(f) => f.clone(),
        Bound::Word(w) => w.clone(),
    }
}

fn field_name(f: &Fld) -> String {
    match f {
        Fld::Attr(p) => format!("@{p}"),
        Fld::Tag(t) => t.clone(),
        Fld::Reserved(r) => r.clone(),
        Fld::Default => "_default_".to_string(),
    }
}

fn field_prefix(f: &Fld) -> String {
    match f {
        Fld::Default => String::new(),
        other => format!("{}:", field_name(other)),
    }
}

const OPS: [&str; 4] = [">", ">=", "<", "<="];

pub fn leaf_text(f: &Fld, l: &Leaf) -> String {
    let p = field_prefix(f);
    match l {
        Leaf::Term(v) => format!("{p}{v}"),
        Leaf::Phrase(v) => format!("{p}\"{v}\""),
        Leaf::Prefix(v) => format!("{p}{v}*"),
        Leaf::Glob(g) => format!("{p}{g}"),
        Leaf::Exists => format!("_exists_:{}", field_name(f)),
        Leaf::Missing => format!("_missing_:{}", field_name(f)),
        Leaf::Cmp(op, b) => format!("{p}{}{}", OPS[(*op as usize) % 4], bound_text(b)),
        Leaf::Range { lo, hi, incl, hi_incl } => {
            let t = |b: &Option<Bound>| b.as_ref().map_or("*".to_string(), bound_text);
            let open = if *incl { '[' } else { '{' };
            let close = if hi_incl.unwrap_or(*incl) { ']' } else { '}' };
            format!("{p}{open}{} TO {}{close}", t(lo), t(hi))
        }
    }
}

/// text of a sub-query in operand position
fn atom(q: &Q, under_not: bool, blank_chain: bool) -> String {
    match q {
        Q::All => "*:*".to_string(),
        Q::Leaf(f, _) => {
            if blank_chain && *f == Fld::Default {
                format!("({})", text(q))
            } else {
                text(q)
            }
        }
        Q::Not(..) if !under_not => text(q),
        _ => format!("({})", text(q)),
    }
}

pub fn text(q: &Q) -> String {
    match q {
        Q::All => "*:*".to_string(),
        Q::Leaf(f, l) => leaf_text(f, l),
        Q::Not(x, style) => format!("{}{}", if *style == 0 { "NOT " } else { "-" }, atom(x, true, false)),
        Q::And(xs, style) => {
            let j = match style {
                0 => " AND ",
                1 => " && ",
                _ => " ",
            };
            xs.iter().map(|x| atom(x, false, *style >= 2)).collect::<Vec<_>>().join(j)
        }
        Q::Or(xs, style) => xs.iter().map(|x| atom(x, false, false)).collect::<Vec<_>>().join(if *style == 0 { " OR " } else { " || " }),
    }
}

fn leaves<'a>(q: &'a Q, out: &mut Vec<(&'a Fld, &'a Leaf)>) {
    match q {
        Q::All => {}
        Q::Leaf(f, l) => out.push((f, l)),
        Q::Not(x, _) => leaves(x, out),
        Q::And(xs, _) | Q::Or(xs, _) => xs.iter().for_each(|x| leaves(x, out)),
    }
}

fn has_operator_or_range(q: &Q) -> bool {
    match q {
        Q::All => false,
        Q::Leaf(_, l) => matches!(l, Leaf::Range { .. }),
        _ => true,
    }
}

// ------------------------------------------------------------------------------------------
// which parts of an event a query addresses

#[derive(Default, Debug)]
struct Addressed {
    top: BTreeSet<String>,
    tag_keys: BTreeSet<String>,
}

fn addressed(q: &Q, a: &mut Addressed) {
    let mut ls = Vec::new();
    leaves(q, &mut ls);
    for (f, _) in ls {
        match f {
            Fld::Attr(p) => {
                a.top.insert(p.split('.').next().unwrap_or("").to_string());
            }
            Fld::Tag(t) => {
                a.tag_keys.insert(t.clone());
            }
            Fld::Reserved(r) => {
                a.top.insert(r.clone());
            }
            Fld::Default => {
                for k in ["message", "custom", "_default_"] {
                    a.top.insert(k.to_string());
                }
            }
        }
    }
}

fn tag_key(elem: &str) -> &str {
    elem.split_once(':').map_or(elem, |(k, _)| k)
}

fn tag_strings(ev: &BTreeMap<String, TV>) -> Option<Vec<String>> {
    match ev.get("tags") {
        Some(TV::Array(a)) => Some(a.iter().filter_map(|t| if let TV::Str(s) = t { Some(s.clone()) } else { None }).collect()),
        _ => None,
    }
}

/// `alt` made equal to `ev` on everything the queries address
fn align(ev: &TV, alt: &TV, a: &Addressed) -> TV {
    let (TV::Object(e), TV::Object(o)) = (ev, alt) else { return ev.clone() };
    let mut out = o.clone();
    for k in &a.top {
        match e.get(k) {
            Some(v) => {
                out.insert(k.clone(), v.clone());
            }
            None => {
                out.remove(k);
            }
        }
    }
    let et = tag_strings(e);
    let ot = tag_strings(o);
    let mut tags: Vec<TV> = Vec::new();
    for t in et.iter().flatten() {
        if a.tag_keys.contains(tag_key(t)) {
            tags.push(TV::Str(t.clone()));
        }
    }
    for t in ot.iter().flatten() {
        if !a.tag_keys.contains(tag_key(t)) {
            tags.push(TV::Str(t.clone()));
        }
    }
    if ot.is_some() || !tags.is_empty() {
        out.insert("tags".to_string(), TV::Array(tags));
    } else {
        out.remove("tags");
    }
    TV::Object(out)
}

/// do the two events agree on everything the queries address?
fn agree(ev: &TV, alt: &TV, a: &Addressed) -> bool {
    let (TV::Object(e), TV::Object(o)) = (ev, alt) else { return false };
    if a.top.iter().any(|k| e.get(k) != o.get(k)) {
        return false;
    }
    let pick = |m: &BTreeMap<String, TV>| -> Vec<String> {
        let mut v: Vec<String> = tag_strings(m).unwrap_or_default().into_iter().filter(|t| a.tag_keys.contains(tag_key(t))).collect();
        v.sort();
        v
    };
    let well_formed = |m: &BTreeMap<String, TV>| match m.get("tags") {
        None => true,
        Some(TV::Array(x)) => x.iter().all(|t| matches!(t, TV::Str(_))),
        _ => false,
    };
    well_formed(e) && well_formed(o) && pick(e) == pick(o)
}

// ------------------------------------------------------------------------------------------
// reference evaluator (None = the documentation does not settle it)

fn lookup<'a>(ev: &'a TV, path: &str) -> Option<&'a TV> {
    let mut cur = ev;
    for seg in path.split('.') {
        match cur {
            TV::Object(o) => cur = o.get(seg)?,
            _ => return None,
        }
    }
    Some(cur)
}

/// `*` any run, `?` exactly one character, whole string
fn glob_match(p: &[char], s: &[char]) -> bool {
    match p.first() {
        None => s.is_empty(),
        Some('*') => (0..=s.len()).any(|k| glob_match(&p[1..], &s[k..])),
        Some('?') => !s.is_empty() && glob_match(&p[1..], &s[1..]),
        Some(c) => s.first() == Some(c) && glob_match(&p[1..], &s[1..]),
    }
}

fn glob(p: &str, s: &str) -> bool {
    glob_match(&p.chars().collect::<Vec<_>>(), &s.chars().collect::<Vec<_>>())
}

fn ord_ok(op: u8, o: std::cmp::Ordering) -> bool {
    use std::cmp::Ordering::{Greater, Less};
    match op % 4 {
        0 => o == Greater,
        1 => o != Less,
        2 => o == Less,
        _ => o != Greater,
    }
}

fn flt(text: &str) -> f64 {
    text.parse::<f64>().unwrap_or(0.0)
}

/// text of a scalar attribute value where it is unambiguous
fn scalar_text(v: &TV) -> Option<String> {
    match v {
        TV::Str(s) => Some(s.clone()),
        TV::Int(i) => Some(i.to_string()),
        TV::Float(f) if f.0.is_finite() && f.0.fract() != 0.0 => Some(format!("{}", f.0)),
        _ => None,
    }
}

fn bound_display(b: &Bound) -> Option<String> {
    match b {
        Bound::Int(i) => Some(i.to_string()),
        Bound::Flt(f) if flt(f).fract() != 0.0 => Some(format!("{}", flt(f))),
        Bound::Flt(_) => None,
        Bound::Word(w) => Some(w.clone()),
    }
}

fn attr_cmp(v: &TV, op: u8, b: &Bound) -> Option<bool> {
    // numeric when both sides are numbers
    let num = |t: &TV| match t {
        TV::Int(i) => Some(*i as f64),
        TV::Float(f) => Some(f.0),
        _ => None,
    };
    match (v, b) {
        (TV::Int(x), Bound::Int(y)) => return Some(ord_ok(op, x.cmp(y))),
        (TV::Int(_) | TV::Float(_), Bound::Int(_) | Bound::Flt(_)) => {
            let x = num(v)?;
            let y = match b {
                Bound::Int(i) => *i as f64,
                Bound::Flt(f) => flt(f),
                Bound::Word(_) => return None,
            };
            return x.partial_cmp(&y).map(|o| ord_ok(op, o));
        }
        _ => {}
    }
    // otherwise string order
    let s = scalar_text(v)?;
    let t = bound_display(b)?;
    Some(ord_ok(op, s.as_str().cmp(t.as_str())))
}

fn and3(a: Option<bool>, b: Option<bool>) -> Option<bool> {
    match (a, b) {
        (Some(false), _) | (_, Some(false)) => Some(false),
        (Some(true), Some(true)) => Some(true),
        _ => None,
    }
}

fn or3(a: Option<bool>, b: Option<bool>) -> Option<bool> {
    match (a, b) {
        (Some(true), _) | (_, Some(true)) => Some(true),
        (Some(false), Some(false)) => Some(false),
        _ => None,
    }
}

fn range3(lo: &Option<Bound>, hi: &Option<Bound>, incl: bool, hi_incl: bool, exists: Option<bool>, cmp: &dyn Fn(u8, &Bound) -> Option<bool>) -> Option<bool> {
    match (lo, hi) {
        (None, None) => exists,
        (Some(l), None) => cmp(if incl { 1 } else { 0 }, l),
        (None, Some(h)) => cmp(if hi_incl { 3 } else { 2 }, h),
        (Some(l), Some(h)) => and3(cmp(if incl { 1 } else { 0 }, l), cmp(if hi_incl { 3 } else { 2 }, h)),
    }
}

fn ref_leaf(f: &Fld, l: &Leaf, ev: &TV) -> Option<bool> {
    match f {
        Fld::Attr(p) => {
            let v = lookup(ev, p);
            let exists = match v {
                None => Some(false),
                Some(TV::Null) => None,
                Some(_) => Some(true),
            };
            match l {
                Leaf::Exists => return exists,
                Leaf::Missing => return exists.map(|b| !b),
                _ => {}
            }
            let Some(v) = v else { return Some(false) };
            if let Leaf::Cmp(op, b) = l {
                return attr_cmp(v, *op, b);
            }
            if let Leaf::Range { lo, hi, incl, hi_incl } = l {
                return range3(lo, hi, *incl, hi_incl.unwrap_or(*incl), exists, &|op, b| attr_cmp(v, op, b));
            }
            let s = scalar_text(v)?;
            match l {
                Leaf::Term(t) | Leaf::Phrase(t) => Some(s == *t),
                Leaf::Prefix(t) => Some(s.starts_with(t.as_str())),
                Leaf::Glob(g) => Some(glob(g, &s)),
                _ => None,
            }
        }
        Fld::Tag(t) => {
            let TV::Object(o) = ev else { return None };
            let tags = match o.get("tags") {
                None => Vec::new(),
                Some(TV::Array(a)) if a.iter().all(|x| matches!(x, TV::Str(_))) => tag_strings(o).unwrap_or_default(),
                _ => return None,
            };
            let mine: Vec<&String> = tags.iter().filter(|e| tag_key(e) == t).collect();
            let exists = !mine.is_empty();
            let values: Vec<&str> = mine.iter().filter_map(|e| e.split_once(':').map(|(_, v)| v)).collect();
            let tag_cmp = |op: u8, b: &Bound| -> Option<bool> {
                if mine.is_empty() {
                    return Some(false);
                }
                match b {
                    Bound::Word(w) => Some(values.iter().any(|v| ord_ok(op, (*v).cmp(w.as_str())))),
                    _ => None,
                }
            };
            match l {
                Leaf::Exists => Some(exists),
                Leaf::Missing => Some(!exists),
                Leaf::Term(v) | Leaf::Phrase(v) => Some(values.iter().any(|x| x == v)),
                Leaf::Prefix(p) => Some(values.iter().any(|x| x.starts_with(p.as_str()))),
                Leaf::Glob(g) => Some(values.iter().any(|x| glob(g, x))),
                Leaf::Cmp(op, b) => tag_cmp(*op, b),
                Leaf::Range { lo, hi, incl, hi_incl } => range3(lo, hi, *incl, hi_incl.unwrap_or(*incl), Some(exists), &tag_cmp),
            }
        }
        Fld::Reserved(_) | Fld::Default => None,
    }
}

fn ref_q(q: &Q, ev: &TV) -> Option<bool> {
    match q {
        Q::All => Some(true),
        Q::Leaf(f, l) => ref_leaf(f, l, ev),
        Q::Not(x, _) => ref_q(x, ev).map(|b| !b),
        Q::And(xs, _) => xs.iter().fold(Some(true), |acc, x| and3(acc, ref_q(x, ev))),
        Q::Or(xs, _) => xs.iter().fold(Some(false), |acc, x| or3(acc, ref_q(x, ev))),
    }
}

/// boolean structure of the harness tree over vrl's own leaf results
fn compose(q: &Q, leaf: &dyn Fn(&Fld, &Leaf) -> bool) -> bool {
    match q {
        Q::All => true,
        Q::Leaf(f, l) => leaf(f, l),
        Q::Not(x, _) => !compose(x, leaf),
        Q::And(xs, _) => xs.iter().all(|x| compose(x, leaf)),
        Q::Or(xs, _) => xs.iter().any(|x| compose(x, leaf)),
    }
}

// ------------------------------------------------------------------------------------------
// evaluation through VRL

/// results of `match_datadog_query(., t)` for every text on every event
fn eval_all(texts: &[String], events: &[Value]) -> Result<Vec<Vec<bool>>, String> {
    let calls: Vec<String> = texts.iter().map(|t| format!("match_datadog_query(., {})", vrlx::str_lit(t))).collect();
    let src = format!("[{}]", calls.join(", "));
    let res = vrlx::compile(&src).map_err(|d| format!("program rejected: {} :: {src}", vrlx::diag_summary(&d)))?;
    let mut out = Vec::new();
    for ev in events {
        let r = vrlx::run(&res.program, ev.clone(), vrlx::empty_object());
        match r.end {
            vrlx::End::Ok(Value::Array(a)) if a.len() == texts.len() => {
                let mut row = Vec::with_capacity(a.len());
                for x in &a {
                    row.push(x.as_boolean().ok_or_else(|| format!("non-boolean result {x}"))?);
                }
                out.push(row);
            }
            other => return Err(format!("program ended with {other:?}")),
        }
    }
    Ok(out)
}

struct Texts {
    list: Vec<String>,
}

impl Texts {
    fn id(&mut self, t: String) -> usize {
        if let Some(i) = self.list.iter().position(|x| *x == t) {
            i
        } else {
            self.list.push(t);
            self.list.len() - 1
        }
    }
}

fn single_clause(t: &str) -> bool {
    matches!(t.parse::<QueryNode>(), Ok(n) if !matches!(n, QueryNode::Boolean { .. } | QueryNode::NegatedNode { .. }))
}

fn check(c: &Case) -> V {
    let mut a = Addressed::default();
    addressed(&c.q1, &mut a);
    addressed(&c.q2, &mut a);
    if !agree(&c.ev, &c.alt, &a) {
        return V::discard("second event differs on an addressed field");
    }
    let mut ls = Vec::new();
    leaves(&c.q1, &mut ls);
    leaves(&c.q2, &mut ls);
    let mut tx = Texts { list: Vec::new() };
    let mut leaf_ids: Vec<(&Fld, &Leaf, usize)> = Vec::new();
    let mut duals: Vec<(usize, usize, String)> = Vec::new();
    for (f, l) in &ls {
        let t = leaf_text(f, l);
        if !single_clause(&t) {
            return V::discard("a leaf text is not a single clause");
        }
        let i = tx.id(t);
        leaf_ids.push((f, l, i));
        if matches!(l, Leaf::Exists | Leaf::Missing) {
            let e = tx.id(leaf_text(f, &Leaf::Exists));
            let m = tx.id(leaf_text(f, &Leaf::Missing));
            duals.push((e, m, field_name(f)));
        }
    }
    let (t1, t2) = (text(&c.q1), text(&c.q2));
    let i1 = tx.id(t1.clone());
    let i2 = tx.id(t2.clone());
    let not1 = tx.id(format!("NOT ({t1})"));
    let minus1 = tx.id(format!("-({t1})"));
    let plus1 = tx.id(format!("+({t1})"));
    let not2 = tx.id(format!("NOT ({t2})"));
    // (the `&&`, `||`, `-` spellings also occur inside q1/q2 themselves, where (A) covers them)
    let and_forms = [tx.id(format!("({t1}) AND ({t2})")), tx.id(format!("({t1}) ({t2})"))];
    let or_forms = [tx.id(format!("({t1}) || ({t2})"))];
    let dm_and = [tx.id(format!("NOT (({t1}) && ({t2}))")), tx.id(format!("(NOT ({t1})) OR (NOT ({t2}))"))];
    let dm_or = [tx.id(format!("NOT (({t1}) OR ({t2}))")), tx.id(format!("-({t1}) -({t2})"))];

    let events = [c.ev.to_value(), c.alt.to_value()];
    let res = match eval_all(&tx.list, &events) {
        Ok(r) => r,
        Err(e) => return V::fail(e),
    };
    let name = |i: usize| tx.list[i].clone();
    for (k, row) in res.iter().enumerate() {
        let evn = if k == 0 { &c.ev } else { &c.alt };
        let m = |i: usize| row[i];
        // (A) structure over vrl's own leaf results
        let leaf_res = |f: &Fld, l: &Leaf| -> bool { leaf_ids.iter().find(|(ff, ll, _)| *ff == f && *ll == l).map(|(_, _, i)| row[*i]).unwrap_or(false) };
        for (q, i) in [(&c.q1, i1), (&c.q2, i2)] {
            let want = compose(q, &leaf_res);
            if m(i) != want {
                return V::fail(format!("`{}` gives {} on {evn:?}, but its leaves give {:?}, which compose to {want}", name(i), m(i), leaf_ids.iter().map(|(_, _, j)| (name(*j), row[*j])).collect::<Vec<_>>()));
            }
        }
        // (B) identities
        let (m1, m2) = (m(i1), m(i2));
        let mut ids: Vec<(usize, bool, &str)> = vec![(not1, !m1, "NOT (q) == !q"), (minus1, !m1, "-(q) == !q"), (plus1, m1, "+(q) == q"), (not2, !m2, "NOT (q) == !q")];
        for i in and_forms {
            ids.push((i, m1 && m2, "(q1) AND (q2) == q1 && q2"));
        }
        for i in or_forms {
            ids.push((i, m1 || m2, "(q1) OR (q2) == q1 || q2"));
        }
        for i in dm_and {
            ids.push((i, !(m1 && m2), "De Morgan (AND)"));
        }
        for i in dm_or {
            ids.push((i, !(m1 || m2), "De Morgan (OR)"));
        }
        for (i, want, law) in ids {
            if m(i) != want {
                return V::fail(format!("{law}: `{}` gives {} on {evn:?} while `{t1}` gives {m1} and `{t2}` gives {m2}", name(i), m(i)));
            }
        }
        for (e, mi, f) in &duals {
            if m(*e) == m(*mi) {
                return V::fail(format!("_exists_:{f} and _missing_:{f} both give {} on {evn:?}", m(*e)));
            }
        }
        // (D) reference evaluator
        for (f, l, i) in &leaf_ids {
            if let Some(want) = ref_leaf(f, l, evn) {
                if m(*i) != want {
                    return V::fail(format!("`{}` gives {} on {evn:?}; the search semantics give {want}", name(*i), m(*i)));
                }
            }
        }
        for (q, i) in [(&c.q1, i1), (&c.q2, i2)] {
            if let Some(want) = ref_q(q, evn) {
                if m(i) != want {
                    return V::fail(format!("`{}` gives {} on {evn:?}; the search semantics give {want}", name(i), m(i)));
                }
            }
        }
    }
    // (C) irrelevance
    for i in 0..tx.list.len() {
        if res[0][i] != res[1][i] {
            return V::fail(format!(
                "`{}` gives {} on {:?} but {} on {:?}, which differs only in fields/tags the query does not address",
                name(i),
                res[0][i],
                c.ev,
                res[1][i],
                c.alt
            ));
        }
    }
    let leaf_vals: BTreeSet<bool> = leaf_ids.iter().map(|(_, _, i)| res[0][*i]).collect();
    let decided = leaf_ids.iter().filter(|(f, l, _)| ref_leaf(f, l, &c.ev).is_some()).count();
    let has = |pred: &dyn Fn(&Fld, &Leaf) -> bool| ls.iter().any(|(f, l)| pred(f, l));
    V::pass()
        .nontrivial((has_operator_or_range(&c.q1) || has_operator_or_range(&c.q2)) && leaf_vals.len() == 2)
        .class_if(c.ev != c.alt, "second_event_differs")
        .class_if(decided > 0, "reference_decided_a_leaf")
        .class_if(ref_q(&c.q1, &c.ev).is_some(), "reference_decided_q1")
        .class_if(res[0][i1], "q1_true")
        .class_if(!res[0][i1], "q1_false")
        .class_if(has(&|f, _| matches!(f, Fld::Attr(_))), "attr_leaf")
        .class_if(has(&|f, _| matches!(f, Fld::Tag(_))), "tag_leaf")
        .class_if(has(&|f, _| matches!(f, Fld::Reserved(_))), "reserved_leaf")
        .class_if(has(&|f, _| matches!(f, Fld::Default)), "default_leaf")
        .class_if(has(&|_, l| matches!(l, Leaf::Range { .. })), "range_leaf")
        .class_if(has(&|_, l| matches!(l, Leaf::Cmp(..))), "comparison_leaf")
        .class_if(has(&|_, l| matches!(l, Leaf::Glob(_))), "glob_leaf")
        .class_if(has(&|_, l| matches!(l, Leaf::Exists | Leaf::Missing)), "exists_missing_leaf")
}

fn default_fields_present(ev: &TV) -> usize {
    ["message", "custom.error.message", "custom.error.stack", "custom.title", "_default_"].iter().filter(|p| lookup(ev, p).is_some()).count()
}

fn check_range(c: &RangeCase) -> V {
    let p = field_prefix(&c.fld);
    let t = |b: &Option<Bound>| b.as_ref().map_or("*".to_string(), bound_text);
    let range = leaf_text(&c.fld, &Leaf::Range { lo: c.lo.clone(), hi: c.hi.clone(), incl: c.incl, hi_incl: c.hi_incl });
    let lower = format!("{p}{}{}", if c.incl { ">=" } else { ">" }, t(&c.lo));
    let upper = format!("{p}{}{}", if c.hi_incl.unwrap_or(c.incl) { "<=" } else { "<" }, t(&c.hi));
    let exists = leaf_text(&c.fld, &Leaf::Exists);
    let mut texts = vec![range.clone(), exists.clone()];
    if c.lo.is_some() {
        if !single_clause(&lower) {
            return V::discard("a bound text is not a single clause");
        }
        texts.push(lower.clone());
    }
    if c.hi.is_some() {
        if !single_clause(&upper) {
            return V::discard("a bound text is not a single clause");
        }
        texts.push(upper.clone());
    }
    let res = match eval_all(&texts, &[c.ev.to_value()]) {
        Ok(r) => r,
        Err(e) => return V::fail(e),
    };
    let get = |t: &str| res[0][texts.iter().position(|x| x == t).unwrap()];
    let r = get(&range);
    let multi = c.fld == Fld::Default && default_fields_present(&c.ev) >= 2;
    let (want, law) = match (&c.lo, &c.hi) {
        (None, None) => (get(&exists), format!("`{exists}`")),
        (Some(_), None) => (get(&lower), format!("`{lower}`")),
        (None, Some(_)) => (get(&upper), format!("`{upper}`")),
        (Some(_), Some(_)) => {
            if multi {
                // several default fields: "both bounds hold" is ambiguous between one field and
                // any two fields; only the implication range => both bounds is certain
                if r && !(get(&lower) && get(&upper)) {
                    return V::fail(format!("`{range}` holds on {:?} but `{lower}` gives {} and `{upper}` gives {}", c.ev, get(&lower), get(&upper)));
                }
                return V::pass().class("default_field_with_several_sources");
            }
            (get(&lower) && get(&upper), format!("`{lower}` && `{upper}`"))
        }
    };
    if r != want {
        return V::fail(format!("`{range}` gives {r} on {:?} but {law} gives {want}", c.ev));
    }
    V::pass()
        .nontrivial(true)
        .class_if(r, "range_true")
        .class_if(!r, "range_false")
        .class(match (&c.lo, &c.hi) {
            (None, None) => "unbounded_both",
            (Some(_), None) => "unbounded_upper",
            (None, Some(_)) => "unbounded_lower",
            _ => "bounded",
        })
        .class(match c.fld {
            Fld::Attr(_) => "attr",
            Fld::Tag(_) => "tag",
            Fld::Reserved(_) => "reserved",
            Fld::Default => "default",
        })
}

// ------------------------------------------------------------------------------------------
// generators

const WORDS: &[&str] = &["foo", "foobar", "bar", "1", "2", "10", "1.5", "2x", "fo", "baz"];
const PHRASES: &[&str] = &["foo bar", "foo", "bar foo baz", "1", "foo  bar", "10"];
const PREFIXES: &[&str] = &["foo", "fo", "b", "1", "f", "2"];
const GLOBS: &[&str] = &["f*r", "*bar", "*oo*", "*", "f*", "*1*", "fo?", "?oo", "f?o*", "???", "*?ar", "1?"];
const DEFAULT_GLOBS: &[&str] = &["f*r", "*bar", "*oo*", "*", "*1*", "?oo", "*?ar"];
const BOUND_WORDS: &[&str] = &["foo", "bar", "c", "foobar", "g"];

fn fld() -> impl Strategy<Value = Fld> {
    prop_oneof![
        5 => select(&["a", "b.c", "b", "n"][..]).prop_map(|s| Fld::Attr(s.to_string())),
        4 => select(&["tag1", "tag2", "env"][..]).prop_map(|s| Fld::Tag(s.to_string())),
        2 => select(&["host", "service"][..]).prop_map(|s| Fld::Reserved(s.to_string())),
        3 => Just(Fld::Default),
    ]
}

fn bound() -> impl Strategy<Value = Bound> {
    prop_oneof![
        4 => select(&[1i64, 2, 5, 10, -3, 0][..]).prop_map(Bound::Int),
        2 => select(&["1.5", "2.5", "10.0", "0.5", "2.0"][..]).prop_map(|f| Bound::Flt(f.to_string())),
        3 => select(BOUND_WORDS).prop_map(|s| Bound::Word(s.to_string())),
    ]
}

fn leaf_of(f: Fld, tag_cmp_off: bool, qmark_off: bool) -> BoxedStrategy<Q> {
    let s = |v: &'static [&'static str]| select(v).prop_map(|s| s.to_string());
    let globs = if f == Fld::Default { DEFAULT_GLOBS } else { GLOBS };
    let no_cmp = tag_cmp_off && matches!(f, Fld::Tag(_));
    let leaf = prop_oneof![
        5 => s(WORDS).prop_map(Leaf::Term),
        2 => s(PHRASES).prop_map(Leaf::Phrase),
        3 => s(PREFIXES).prop_map(Leaf::Prefix),
        3 => s(globs).prop_map(move |g| if qmark_off { Leaf::Glob(g.replace('?', "*")) } else { Leaf::Glob(g) }),
        2 => Just(Leaf::Exists),
        2 => Just(Leaf::Missing),
        4 => (0u8..4, bound()).prop_map(move |(op, b)| if no_cmp { Leaf::Exists } else { Leaf::Cmp(op, b) }),
        4 => (prop::option::weighted(0.75, bound()), prop::option::weighted(0.75, bound()), any::<bool>(), prop::option::weighted(0.5, any::<bool>())).prop_map(move |(lo, hi, incl, hi_incl)| {
            if no_cmp {
                Leaf::Range { lo: None, hi: None, incl, hi_incl }
            } else {
                Leaf::Range { lo, hi, incl, hi_incl }
            }
        }),
    ];
    leaf.prop_map(move |l| Q::Leaf(f.clone(), l)).boxed()
}

fn leaf_q(tag_cmp_off: bool, qmark_off: bool) -> BoxedStrategy<Q> {
    prop_oneof![
        1 => Just(Q::All),
        24 => fld().prop_flat_map(move |f| leaf_of(f, tag_cmp_off, qmark_off)),
    ]
    .boxed()
}

fn q(depth: u32, tag_cmp_off: bool, qmark_off: bool) -> BoxedStrategy<Q> {
    if depth == 0 {
        return leaf_q(tag_cmp_off, qmark_off);
    }
    let sub = move || q(depth - 1, tag_cmp_off, qmark_off);
    prop_oneof![
        3 => leaf_q(tag_cmp_off, qmark_off),
        2 => (sub(), 0u8..2).prop_map(|(x, s)| Q::Not(Box::new(x), s)),
        3 => (prop::collection::vec(sub(), 2..=3), 0u8..3).prop_map(|(xs, s)| Q::And(xs, s)),
        3 => (prop::collection::vec(sub(), 2..=3), 0u8..2).prop_map(|(xs, s)| Q::Or(xs, s)),
    ]
    .boxed()
}

fn attr_scalar() -> impl Strategy<Value = TV> {
    prop_oneof![
        6 => select(&["foo", "foobar", "bar", "foo bar", "1", "10", "2", "1.5", "2x", "", "Foo", "f?o", "c", "g"][..]).prop_map(TV::str),
        4 => select(&[1i64, 2, 10, 5, -3, 0, 100][..]).prop_map(TV::Int),
        3 => select(&[1.5f64, 2.5, 10.0, 7.0, 0.5, -0.25][..]).prop_map(TV::float),
        1 => any::<bool>().prop_map(TV::Bool),
        1 => Just(TV::Null),
    ]
}

fn attr_value() -> impl Strategy<Value = TV> {
    prop_oneof![
        8 => attr_scalar(),
        2 => prop::collection::vec(attr_scalar(), 0..=3).prop_map(TV::Array),
        1 => prop::collection::btree_map(select(&["c", "d", "k"][..]).prop_map(|s| s.to_string()), attr_scalar(), 0..=2).prop_map(TV::Object),
    ]
}

fn text_value() -> impl Strategy<Value = TV> {
    prop_oneof![
        8 => select(&["foo", "foobar", "foo bar", "bar foo baz", "1", "10", "2x", "Foo", "", "a foo.", "bar-foo", "5", "fo"][..]).prop_map(TV::str),
        1 => select(&[1i64, 5, 10, 500][..]).prop_map(TV::Int),
    ]
}

const TAGS: &[&str] = &[
    "tag1:foo", "tag1:foobar", "tag1:bar", "tag1", "tag1:foo bar", "tag1:1", "tag1:10", "tag1:2", "tag1:c", "tag1:", "tag2:foo", "tag2:1", "tag2:5", "tag2",
    "tag2:g", "env:prod", "env:foo", "tag10:foo", "zz:9", "zz:a", "zz:foo", "other", "tag1x:foo", "k:tag1:foo",
];

pub fn event() -> impl Strategy<Value = TV> {
    let opt = |p: f64, s: BoxedStrategy<TV>| prop::option::weighted(p, s);
    let custom = (opt(0.5, text_value().boxed()), opt(0.4, text_value().boxed()), opt(0.3, text_value().boxed())).prop_map(|(title, em, es)| {
        let mut o = BTreeMap::new();
        if let Some(t) = title {
            o.insert("title".to_string(), t);
        }
        let mut err = BTreeMap::new();
        if let Some(m) = em {
            err.insert("message".to_string(), m);
        }
        if let Some(s) = es {
            err.insert("stack".to_string(), s);
        }
        if !err.is_empty() {
            o.insert("error".to_string(), TV::Object(err));
        }
        TV::Object(o)
    });
    let b = prop_oneof![
        3 => (opt(0.7, attr_value().boxed()), opt(0.4, attr_value().boxed())).prop_map(|(c, d)| {
            let mut o = BTreeMap::new();
            if let Some(c) = c { o.insert("c".to_string(), c); }
            if let Some(d) = d { o.insert("d".to_string(), d); }
            TV::Object(o)
        }),
        1 => attr_scalar(),
    ];
    (
        (opt(0.75, text_value().boxed()), opt(0.3, custom.boxed()), opt(0.05, text_value().boxed())),
        (opt(0.7, attr_value().boxed()), opt(0.6, b.boxed()), opt(0.5, attr_value().boxed())),
        (opt(0.5, text_value().boxed()), opt(0.5, text_value().boxed())),
        opt(0.75, prop::collection::vec(select(TAGS).prop_map(TV::str), 0..=4).prop_map(TV::Array).boxed()),
        (opt(0.4, attr_value().boxed()), opt(0.3, attr_value().boxed())),
    )
        .prop_map(|((message, custom, dflt), (a, b, n), (host, service), tags, (zz, other))| {
            let mut o = BTreeMap::new();
            let mut put = |k: &str, v: Option<TV>| {
                if let Some(v) = v {
                    o.insert(k.to_string(), v);
                }
            };
            put("message", message);
            put("custom", custom);
            put("_default_", dflt);
            put("a", a);
            put("b", b);
            put("n", n);
            put("host", host);
            put("service", service);
            put("tags", tags);
            put("zz", zz);
            put("other", other);
            TV::Object(o)
        })
}

fn case(tag_cmp_off: bool, qmark_off: bool) -> impl Strategy<Value = Case> {
    let qq = move || prop_oneof![2 => q(0, tag_cmp_off, qmark_off), 4 => q(1, tag_cmp_off, qmark_off), 3 => q(2, tag_cmp_off, qmark_off), 1 => q(3, tag_cmp_off, qmark_off)];
    (qq(), qq(), event(), event(), prop::bool::weighted(0.15)).prop_map(|(q1, q2, ev, other, same)| {
        let mut a = Addressed::default();
        addressed(&q1, &mut a);
        addressed(&q2, &mut a);
        let alt = if same { ev.clone() } else { align(&ev, &other, &a) };
        Case { q1, q2, ev, alt }
    })
}

fn range_case() -> impl Strategy<Value = RangeCase> {
    (fld(), prop::option::weighted(0.8, bound()), prop::option::weighted(0.8, bound()), any::<bool>(), prop::option::weighted(0.5, any::<bool>()), event())
        .prop_map(|(fld, lo, hi, incl, hi_incl, ev)| RangeCase { fld, lo, hi, incl, hi_incl, ev })
}

pub fn run(r: &mut Run) {
    let tag_cmp_off = r.excluded(SW_TAG_CMP);
    let qmark_off = r.excluded(SW_QMARK);
    r.sub("composition_irrelevance_reference", 30_000, 2_000_000, move || case(tag_cmp_off, qmark_off), check);
    r.sub("range_is_conjunction_of_bounds", 200_000, 8_000_000, range_case, check_range);
}
