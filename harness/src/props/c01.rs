//! C01 — compiled programs are type-sound (result, event, metadata, variables).

use vrl::path::parse_value_path;

use crate::engine::{Run, V};
use crate::gens::proggen::Preset;
use crate::model::member::{member, why_not};
use crate::props::progdiff;
use crate::props::typesound::{self, Compiled, SrcCase, TCase};
use crate::vrlx::End;

pub const RULE: &str = "cases = (generated program: assignments to variables / variable paths / event / metadata, if/else, blocks, all operators, `??`, `ok, err =`, del, closures, ~30 stdlib functions; generated event and metadata; external environment: default `object(any)`, the exact kinds of the event and metadata, or a widened kind that still contains the event). Variables are observed through generator-inserted probes `.__snapN = [x, y, ...]` (ordinary VRL), so the final event type carries the compiler's type of every root-scope variable at the probe point. Oracle: a run ending Ok(v) has v in the reported result kind, a run ending by `return` has the value in the reported `returns` kind, and after any successful end the final event and metadata (hence every probed variable) are members of the reported final target/metadata kinds, decided by the harness's own membership predicate. Non-trivial = the program compiled, ended successfully, has >=3 statements and contains a branch, a path/index assignment, a del, a closure or a stored call result. Distinct = distinct serialised cases.";
pub const NOTE: &str = "trusts model/member.rs; classes known to be unsound on the pinned tree (closure bodies that change outer state, del on variable paths, effects inside call arguments, target types after an early return) are excluded by generator/oracle switches while their known findings are open";

#[derive(Clone, Copy, Default)]
pub struct Flags {
    /// D52: the final target types do not account for an early `return`
    pub no_target_check_after_return: bool,
}

/// Path (from the root of `v`) to the first location whose value is not admitted by the kind.
fn failing_path(v: &vrl::value::Value, k: &vrl::value::Kind, path: &mut Vec<vrl::path::OwnedSegment>) -> bool {
    use vrl::value::kind::{Field, Index};
    use vrl::value::Value;
    if member(v, k) {
        return false;
    }
    match v {
        Value::Object(map) => {
            if let Some(c) = k.as_object() {
                for (key, val) in map {
                    let fk = c.known().get(&Field::from(key.as_str())).cloned().unwrap_or_else(|| c.unknown_kind());
                    path.push(vrl::path::OwnedSegment::field(key.as_str()));
                    if failing_path(val, &fk, path) {
                        return true;
                    }
                    path.pop();
                }
            }
            true
        }
        Value::Array(items) => {
            if let Some(c) = k.as_array() {
                for (i, val) in items.iter().enumerate() {
                    let ik = c.known().get(&Index::from(i)).cloned().unwrap_or_else(|| c.unknown_kind());
                    path.push(vrl::path::OwnedSegment::index(i as isize));
                    if failing_path(val, &ik, path) {
                        return true;
                    }
                    path.pop();
                }
            }
            true
        }
        _ => true,
    }
}

/// Is the failure attributable to the open kind-level findings of C19 (D39: arrays whose known
/// indices may be missing are treated as if they were present; D40: insertion through a kind that
/// is a union of a collection and something else)? True iff such a kind sits on the path to the
/// failing location in the *reported* type.
fn kind_union_on_path(k: &vrl::value::Kind, path: &[vrl::path::OwnedSegment]) -> bool {
    use vrl::value::kind::{Field, Index};
    let mut cur = k.clone();
    let mut i = 0;
    loop {
        let has_coll = !cur.is_never() && (cur.as_array().is_some() || cur.as_object().is_some());
        if has_coll && !cur.is_exact() {
            return true;
        }
        if let Some(a) = cur.as_array() {
            if a.known().values().any(|x| !x.is_never() && x.contains_undefined()) {
                return true;
            }
        }
        let Some(seg) = path.get(i) else { return false };
        i += 1;
        cur = match seg {
            vrl::path::OwnedSegment::Field(f) => match cur.as_object() {
                Some(c) => c.known().get(&Field::from(f.as_str())).cloned().unwrap_or_else(|| c.unknown_kind()),
                None => return false,
            },
            vrl::path::OwnedSegment::Index(n) => match cur.as_array() {
                Some(c) => c.known().get(&Index::from(*n as usize)).cloned().unwrap_or_else(|| c.unknown_kind()),
                None => return false,
            },
        };
    }
}

const KIND_UNION_SIG: &str = "C01:kind-with-union-collection-or-optional-index-on-path";

/// Does the value at `path` fail only because a required field/index below it is missing, or
/// is the failing location an array element? These are the symptoms of the open kind-level
/// findings (missing elements typed as present, elements typed at a shifted index).
fn collection_shape_symptom(v: &vrl::value::Value, k: &vrl::value::Kind, path: &[vrl::path::OwnedSegment]) -> bool {
    if matches!(path.last(), Some(vrl::path::OwnedSegment::Index(_))) || path.iter().any(|s| matches!(s, vrl::path::OwnedSegment::Index(_))) {
        return true;
    }
    // the failing node itself is a container whose elements are all admitted: something required
    // is missing
    let p = vrl::path::OwnedValuePath { segments: path.to_vec() };
    match (v.get(&p), k.at_path(&p)) {
        (Some(vrl::value::Value::Object(m)), nk) => nk.as_object().is_some_and(|c| {
            m.iter().all(|(key, val)| {
                let fk = c.known().get(&vrl::value::kind::Field::from(key.as_str())).cloned().unwrap_or_else(|| c.unknown_kind());
                member(val, &fk)
            })
        }),
        (Some(vrl::value::Value::Array(items)), nk) => nk.as_array().is_some_and(|c| {
            items.iter().enumerate().all(|(i, val)| {
                let ik = c.known().get(&vrl::value::kind::Index::from(i)).cloned().unwrap_or_else(|| c.unknown_kind());
                member(val, &ik)
            })
        }),
        _ => false,
    }
}

fn fail_membership(v: &vrl::value::Value, k: &vrl::value::Kind, msg: String, collection_ops: bool) -> V {
    let mut path = Vec::new();
    failing_path(v, k, &mut path);
    if kind_union_on_path(k, &path) || (collection_ops && collection_shape_symptom(v, k, &path)) {
        V::fail_sig(KIND_UNION_SIG, msg)
    } else {
        V::fail(msg)
    }
}

/// the program modifies collections in place (nested path assignment, del, push, closures that
/// rebuild collections): the operations whose typing the open kind-level findings affect
fn modifies_collections(c: &TCase) -> bool {
    use crate::gens::prog::{any_node, Target, E};
    c.prog.is_empty()
        || any_node(&c.prog, &|x| match x {
            E::Del { .. } => true,
            E::Assign(Target::Ev(p) | Target::Meta(p), _) => p.len() >= 2,
            E::Assign(Target::Var(_, p), _) => !p.is_empty(),
            E::Call { f, .. } => matches!(f.as_str(), "push" | "map_values" | "map_keys" | "filter" | "merge"),
            _ => false,
        })
}

fn interesting(c: &TCase) -> bool {
    use crate::gens::prog::{any_node, BinOp, Target, E};
    c.prog.len() >= 3
        && any_node(&c.prog, &|x| {
            matches!(x, E::If { .. } | E::Del { .. } | E::Call { .. })
                || matches!(x, E::Bin(BinOp::Or | BinOp::And | BinOp::Err, _, _))
                || matches!(x, E::Assign(Target::Ev(p), _) if p.len() >= 2)
        })
}

pub fn check(c: &TCase, fl: Flags) -> V {
    let k = match typesound::compile(c, true) {
        Ok(k) => k,
        Err(_) => return V::discard("rejected_by_compiler"),
    };
    judge(c, &k, fl, interesting(c))
}

pub fn check_src(s: &SrcCase) -> V {
    let k = match typesound::compile_src(s) {
        Ok(k) => k,
        Err(e) => return V::fail(format!("pinned source case rejected by the compiler: {e}\n{}", s.src)),
    };
    judge(&typesound::src_as_tcase(s), &k, Flags::default(), true)
}

fn judge(c: &TCase, k: &Compiled, fl: Flags, interesting: bool) -> V {
    let (out, _events, _) = typesound::run(c, k);
    let ti = k.res.program.final_type_info();
    let ctx = |what: String| format!("{what}\n--- program (env mode {}):\n{}--- event: {:?}\n--- metadata: {:?}", c.env, k.src, c.event, c.meta);
    match &out.end {
        End::Ok(v) => {
            let kind = ti.result.kind();
            if !member(v, kind) {
                return fail_membership(v, kind, ctx(format!("result {v} is not a member of the reported result type {kind}: {}", why_not(v, kind))), modifies_collections(c));
            }
        }
        End::Return(v) => {
            let kind = ti.result.returns();
            if !member(v, kind) {
                return V::fail(ctx(format!("returned value {v} is not a member of the reported return type {kind:?}: {}", why_not(v, kind))));
            }
            if fl.no_target_check_after_return {
                return V::excluded("target-types-after-early-return");
            }
        }
        End::Error(_) => return V::pass().class("end_error_nothing_asserted"),
        End::Abort(_) => return V::pass().class("end_abort_nothing_asserted"),
        End::Other(o) => return V::fail(ctx(format!("run ended with {o}"))),
    }
    let ek = ti.state.external.target_kind();
    if !member(&out.event, ek) {
        // name the offending probe when there is one
        for (field, vars) in &k.probes {
            let p = parse_value_path(field).expect("probe path");
            if let Some(vrl::value::Value::Array(vals)) = out.event.get(&p) {
                for (i, name) in vars.iter().enumerate() {
                    let vk = ek.at_path(&p).at_path(&vrl::path::OwnedValuePath { segments: vec![vrl::path::OwnedSegment::index(i as isize)] });
                    if let Some(val) = vals.get(i) {
                        if !member(val, &vk) {
                            return fail_membership(val, &vk, ctx(format!("variable `{name}` holds {val} at probe .{field} but the compiler typed it {vk} there")), modifies_collections(c));
                        }
                    }
                }
            }
        }
        return fail_membership(&out.event, ek, ctx(format!("final event {} is not a member of the reported final event type: {}", out.event, why_not(&out.event, ek))), modifies_collections(c));
    }
    let mk = ti.state.external.metadata_kind();
    if !member(&out.metadata, mk) {
        return fail_membership(&out.metadata, mk, ctx(format!("final metadata {} is not a member of the reported final metadata type: {}", out.metadata, why_not(&out.metadata, mk))), modifies_collections(c));
    }
    V::pass()
        .nontrivial(interesting)
        .class(match c.env {
            0 => "env_default_any",
            1 => "env_exact_kinds",
            _ => "env_widened_kind",
        })
        .class(match out.end {
            End::Ok(_) => "end_ok",
            _ => "end_return",
        })
        .class_if(!k.probes.is_empty(), "has_variable_probe")
        .class_if(ti.result.kind().is_exact(), "result_kind_exact")
}

pub fn run(r: &mut Run) {
    let base = progdiff::base_preset(r);
    let fl = Flags { no_target_check_after_return: r.excluded("target-types-after-early-return") };
    let p1 = Preset { returns: 2, coalesce: 4, infallible_assign: 3, closures: 3, ..base };
    r.sub("programs", 200_000, 10_000_000, move || typesound::strategy(p1), move |c| check(c, fl));
    r.replay_only("source_case", check_src);
    // pinned reproductions of repaired defects (source level, enumerated on every run)
    let pinned: Vec<SrcCase> = [
        ("y = map_keys({\"a\": 0}) -> |k| { k + \"aa\" }\n.out = y\n", "{}"),
        ("y = map_values(object(.o) ?? {}) -> |v| { 0 }\n.out = y\n", "{\"o\": {}}"),
        (".a = [1.5, 2, \"s\"]\ndel(.a[0])\n.out = .a\n", "{}"),
        ("x = ({ if .c == true { return 0 }; 1 } / 2)\nx\n", "{\"c\": true}"),
        (".out = (true || { return 0; true })\n", "{}"),
    ]
    .iter()
    .map(|(src, ev)| {
        let v: serde_json::Value = serde_json::from_str(ev).expect("json");
        let val: vrl::value::Value = v.into();
        SrcCase { src: (*src).to_string(), event: crate::gens::value::TV::from_value(&val), meta: crate::gens::value::TV::Object(Default::default()), env: 0 }
    })
    .collect();
    r.enumerate("pinned_regressions", pinned, check_src);
}
