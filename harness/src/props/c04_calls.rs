//! C04, stdlib-call part — compiling and running a stdlib call never panics the host.
//! (`props/c04.rs` calls `register`; `run` exists so the module can be driven on its own.)

use crate::engine::workers::{Death, Stage, WorkerResult};
use crate::engine::{Run, V};
use crate::gens::call::{self, CallCase, Profile};
use crate::props::callsup::{self, Stats};

pub const RULE: &str = "stdlib calls: argument tuples from gens::call with the edge-value profile (i64::MIN/MAX, powers of ten, +-inf, subnormals, empty/2 KiB strings, invalid UTF-8, extreme timestamps, containers depth<=4; mutated arguments of the functions' own examples; literal / exact-typed / any-typed positions; wrong kinds 15 %), every function of stdlib::all() except the IO/nondeterministic list (see C03). Each case is executed in a killable worker process: compile_with_external, rendering of all diagnostics and warnings (plain and colored), Program::final_type_info and the run are each wrapped in catch_unwind; a panic is a violation with signature panic@<file>:<line> (panic sites inside the vrl tree) or panic@<file>:<line>#<function> (panic sites in std or a dependency, which unrelated callers share); a worker that dies of a stack overflow (16 MiB stack, arguments <= 4 KiB, depth <= 4) or any signal/abort is a violation abort:<cause>:<function>; a worker killed by allocation failure under RLIMIT_AS 8 GiB is resource exhaustion (out of scope, counted; C05 reports it). Non-trivial = the call reached the function body (returned Ok or a function-level error, not a compile rejection). Bounded integers: decode_lz4 buf_size in (2^24, u32::MAX] clamped to 2^24 (negative and larger values take the function's own too-large path and stay in), set path indices within +-64, encode_zstd compression_level <= 19 after i32 truncation (pure allocation size).";
pub const NOTE: &str = "timeouts are inconclusive here (C05 decides them); panics are observed in a worker process through the same quiet panic hook as in-process checks";

static STATS: Stats = Stats::new();

pub fn check(c: &CallCase) -> V {
    let Some(spec) = call::spec(&c.func) else { return callsup::unknown_function() };
    let res = callsup::exec_adaptive(&STATS, c);
    let v = match &res {
        WorkerResult::Timeout | WorkerResult::Starved => V::discard("timeout_inconclusive"),
        WorkerResult::Harness(_) => V::discard("harness_error"),
        WorkerResult::Died { how, stderr } => match how {
            Death::Alloc => callsup::common_classes(V::pass().class("resource_exhaustion_out_of_scope"), spec, c, None),
            other => callsup::fail(
                &STATS,
                c,
                format!("abort:{}:{}", other.label(), c.func),
                format!("worker process died ({}) while executing {} :: {stderr}", other.label(), call::describe(c)),
            ),
        },
        WorkerResult::Done(o) => {
            if o.stage == Stage::Panicked {
                let p = o.panic.clone().unwrap_or(crate::engine::workers::PanicInfo {
                    phase: "?".to_string(),
                    loc: "unknown".to_string(),
                    msg: String::new(),
                });
                // a location inside the vrl tree identifies the defect; a location in std or in a
                // dependency (capacity overflow, negate overflow, an assertion in flate2 ...) is
                // shared by unrelated callers, so the function is part of the signature there
                let sig = if p.loc.starts_with("src/") { format!("panic@{}", p.loc) } else { format!("panic@{}#{}", p.loc, c.func) };
                callsup::fail(
                    &STATS,
                    c,
                    sig,
                    format!("panic at {} during {}: {} :: `{}` {}", p.loc, p.phase, p.msg, o.src, call::describe(c)),
                )
            } else {
                callsup::common_classes(V::pass(), spec, c, Some(o)).nontrivial(o.reached_body())
            }
        }
    };
    STATS.record(&c.func, &res, v.nontrivial);
    v
}

/// registers the stdlib-call sub-check of C04
pub fn register(r: &mut Run) {
    r.sub("stdlib_calls", 60_000, 3_000_000, || call::strategy(Profile::Edge), check);
    STATS.publish(r, 20, false);
}

pub fn run(r: &mut Run) {
    register(r);
}
