//! Plain regression cases written at source level: the expected outcome comes from the property
//! statement, not from a generator or a model. Every property that uses them enumerates its list
//! on every run (sub-check `pinned_regressions`); the replay files of fixed defects point here.

use serde::{Deserialize, Serialize};
use vrl::parser::ast::Ident;

use crate::engine::{Run, V};
use crate::gens::value::TV;
use crate::vrlx::{self, End};

#[derive(Clone, Debug, Serialize, Deserialize)]
pub struct Pinned {
    pub name: String,
    pub src: String,
    pub event: TV,
    /// "ok" | "return" | "abort" | "error" | "success" (ok or return) | "rejected"
    pub end: String,
    #[serde(default)]
    pub value: Option<TV>,
    #[serde(default)]
    pub abort_message: Option<String>,
    #[serde(default)]
    pub final_event: Option<TV>,
    /// variables that must hold a value (Some) or be unset (None) in the final runtime state
    #[serde(default)]
    pub vars: Vec<(String, Option<TV>)>,
}

pub fn ev(pairs: &[(&str, TV)]) -> TV {
    TV::Object(pairs.iter().map(|(k, v)| ((*k).to_string(), v.clone())).collect())
}

pub fn case(name: &str, src: &str, event: TV, end: &str) -> Pinned {
    Pinned { name: name.into(), src: src.into(), event, end: end.into(), value: None, abort_message: None, final_event: None, vars: vec![] }
}

impl Pinned {
    pub fn value(mut self, v: TV) -> Self {
        self.value = Some(v);
        self
    }
    pub fn msg(mut self, m: &str) -> Self {
        self.abort_message = Some(m.into());
        self
    }
    pub fn final_event(mut self, e: TV) -> Self {
        self.final_event = Some(e);
        self
    }
    pub fn var(mut self, n: &str, v: Option<TV>) -> Self {
        self.vars.push((n.into(), v));
        self
    }
}

pub fn check(p: &Pinned) -> V {
    let res = match vrlx::compile(&p.src) {
        Ok(r) => r,
        Err(d) => {
            return if p.end == "rejected" {
                V::pass().nontrivial(true)
            } else {
                V::fail(format!("pinned case `{}`: program rejected: {}\n{}", p.name, vrlx::diag_summary(&d), p.src))
            };
        }
    };
    if p.end == "rejected" {
        return V::fail(format!("pinned case `{}`: program must be rejected by the compiler but was accepted\n{}", p.name, p.src));
    }
    let out = vrlx::run(&res.program, p.event.to_value(), vrlx::empty_object());
    let class_ok = match (&out.end, p.end.as_str()) {
        (End::Ok(_), "ok" | "success") | (End::Return(_), "return" | "success") | (End::Abort(_), "abort") | (End::Error(_), "error") => true,
        _ => false,
    };
    if !class_ok {
        return V::fail(format!("pinned case `{}`: expected the run to end with `{}`, got {:?}\n{}", p.name, p.end, out.end, p.src));
    }
    if let Some(want) = &p.value {
        if out.end.value() != Some(&want.to_value()) {
            return V::fail(format!("pinned case `{}`: expected value {want:?}, got {:?}\n{}", p.name, out.end, p.src));
        }
    }
    if p.end == "abort" {
        if let End::Abort(m) = &out.end {
            if *m != p.abort_message {
                return V::fail(format!("pinned case `{}`: expected abort message {:?}, got {m:?}\n{}", p.name, p.abort_message, p.src));
            }
        }
    }
    if let Some(want) = &p.final_event {
        if out.event != want.to_value() {
            return V::fail(format!("pinned case `{}`: expected final event {want:?}, got {}\n{}", p.name, out.event, p.src));
        }
    }
    for (name, want) in &p.vars {
        let got = out.state.variable(&Ident::new(name.clone()));
        if got.cloned() != want.as_ref().map(TV::to_value) {
            return V::fail(format!("pinned case `{}`: variable `{name}` expected {want:?}, got {:?}\n{}", p.name, got.map(ToString::to_string), p.src));
        }
    }
    V::pass().nontrivial(true)
}

pub fn run(r: &mut Run, cases: Vec<Pinned>) {
    r.enumerate("pinned_regressions", cases, check);
}
