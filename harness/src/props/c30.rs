//! C30 — Datadog search queries round-trip through their text form.

use std::panic::{catch_unwind, AssertUnwindSafe};

use proptest::prelude::*;
use serde::{Deserialize, Serialize};
use vrl::datadog_search_syntax::{BooleanType, ComparisonValue, QueryNode};

use crate::engine::{Run, V};
use crate::gens::ddquery::{self, always_special, is_ws, start_special, starts_with_keyword, Excl, U3000};

pub const RULE: &str = "cases = query texts written out from a syntax tree that mirrors grammar.pest (1..4 items per query with optional AND/OR/&&/|| and NOT/-/+; clauses `*:*`, [field:]value, [field:](query) to depth 4; values `*`, phrases, prefixes, comparisons with numeric (sign, fraction, exponent, 19-21 digit) and word operands, ranges with [ ] { } and `*`/numeric/word/quoted bounds, terms, globs; words over letters incl. the keyword letters, punctuation, every special character (escaped where the grammar needs it, sometimes escaped where it does not), blanks, wide characters, and chunks such as AND/OR/NOT/&&/||/TO/NaN/inf/UNICODE3000; fields from the Datadog vocabulary incl. _exists_/_missing_/_default_) and, in a second sub-check, the same texts after 1..3 character/token mutations. Every text the parser accepts is rendered with to_lucene() and through serde and parsed again; the trees are compared structurally (NaN bounds compare equal to themselves). Non-trivial = accepted text whose tree has >=2 nodes, or a range/comparison, or a leaf with a non-alphanumeric character. Distinct = distinct texts.";
pub const NOTE: &str = "trusts vrl's own `PartialEq` shape of QueryNode (re-implemented field by field so that a NaN range bound equals itself); texts the parser rejects only count as no-panic evaluations; input classes of the open known findings are left out of the grammar sub-check by construction and recognised on the parsed tree in the mutation sub-check";

#[derive(Clone, Debug, Serialize, Deserialize)]
pub struct Case {
    pub q: String,
}

pub const SW_MIXED: &str = "c30-mixed-brackets";
pub const SW_FLOAT: &str = "c30-float-integral";
pub const SW_ATTR: &str = "c30-attr-escape";
pub const SW_SPACE: &str = "c30-space-in-value";
pub const SW_GLOB: &str = "c30-glob-escape";
pub const SW_KEYWORD: &str = "c30-keyword-value";
pub const SW_NODOCS: &str = "c30-nodocs-child";
pub const SW_DOUBLE_NEG: &str = "c30-double-neg-in-and";
pub const SW_EXISTS_SCOPED: &str = "c30-exists-scoped";
pub const SW_NUM_STRING: &str = "c30-numeric-string-cmp";
pub const SW_QUOTED_RANGE: &str = "c30-quoted-range-string";
pub const SW_U3000: &str = "c30-unicode3000";
pub const SW_DEFAULT_QMARK: &str = "c30-default-glob-qmark";
pub const SW_EMPTY_RANGE: &str = "c30-empty-range-string";
pub const SW_SPACE_ONLY: &str = "c30-space-only-term";
pub const SW_KEYWORD_GLOB: &str = "c30-keyword-glob";
pub const SW_FLOAT_INF: &str = "c30-float-overflow-inf";

pub const SIG_PANIC_RANGE: &str = "c30-parser-panic:invalid range comparison";

fn excl_of(r: &Run) -> Excl {
    Excl {
        mixed_brackets: r.excluded(SW_MIXED),
        float_integral: r.excluded(SW_FLOAT),
        attr_escape: r.excluded(SW_ATTR),
        space_in_value: r.excluded(SW_SPACE),
        glob_escape: r.excluded(SW_GLOB),
        keyword_value: r.excluded(SW_KEYWORD),
        nodocs_child: r.excluded(SW_NODOCS),
        double_neg_in_and: r.excluded(SW_DOUBLE_NEG),
        exists_scoped: r.excluded(SW_EXISTS_SCOPED),
        numeric_string_cmp: r.excluded(SW_NUM_STRING),
        quoted_range_string: r.excluded(SW_QUOTED_RANGE),
        unicode3000: r.excluded(SW_U3000),
        default_glob_qmark: r.excluded(SW_DEFAULT_QMARK),
        empty_range_string: r.excluded(SW_EMPTY_RANGE),
        space_only_term: r.excluded(SW_SPACE_ONLY),
        keyword_glob: r.excluded(SW_KEYWORD_GLOB),
        float_overflow_cmp: r.excluded(SW_FLOAT_INF),
    }
}

// ------------------------------------------------------------------------------------------
// structural equality (PartialEq of QueryNode, except that a NaN bound equals itself)

fn cv_same(a: &ComparisonValue, b: &ComparisonValue) -> bool {
    match (a, b) {
        (ComparisonValue::Float(x), ComparisonValue::Float(y)) => x == y || (x.is_nan() && y.is_nan()),
        _ => a == b,
    }
}

fn same(a: &QueryNode, b: &QueryNode) -> bool {
    use QueryNode as N;
    match (a, b) {
        (
            N::AttributeRange { attr: a1, lower: l1, lower_inclusive: li1, upper: u1, upper_inclusive: ui1 },
            N::AttributeRange { attr: a2, lower: l2, lower_inclusive: li2, upper: u2, upper_inclusive: ui2 },
        ) => a1 == a2 && li1 == li2 && ui1 == ui2 && cv_same(l1, l2) && cv_same(u1, u2),
        (N::AttributeComparison { attr: a1, comparator: c1, value: v1 }, N::AttributeComparison { attr: a2, comparator: c2, value: v2 }) => {
            a1 == a2 && c1 == c2 && cv_same(v1, v2)
        }
        (N::NegatedNode { node: x }, N::NegatedNode { node: y }) => same(x, y),
        (N::Boolean { oper: o1, nodes: n1 }, N::Boolean { oper: o2, nodes: n2 }) => {
            o1 == o2 && n1.len() == n2.len() && n1.iter().zip(n2).all(|(x, y)| same(x, y))
        }
        _ => a == b,
    }
}

// ------------------------------------------------------------------------------------------
// tree statistics and the features of the open-finding classes

#[derive(Default)]
struct Stats {
    nodes: usize,
    neg_depth: usize,
    range_or_cmp: bool,
    special_leaf: bool,
    variants: Vec<&'static str>,
    features: Vec<&'static str>,
}

fn add(v: &mut Vec<&'static str>, s: &'static str) {
    if !v.contains(&s) {
        v.push(s);
    }
}

fn needs_escape_as_term(s: &str) -> bool {
    s.is_empty() || s.chars().enumerate().any(|(i, c)| if i == 0 { start_special(c) } else { always_special(c) })
}

fn float_feature(v: &ComparisonValue) -> bool {
    matches!(v, ComparisonValue::Float(f) if f.is_finite() && f.to_string().parse::<i64>().is_ok())
}

fn text_features(st: &mut Stats, s: &str, is_attr: bool) {
    if s.chars().any(|c| !c.is_ascii_alphanumeric()) {
        st.special_leaf = true;
    }
    if starts_with_keyword(s) {
        add(&mut st.features, SW_KEYWORD);
    }
    if s.contains(U3000) {
        add(&mut st.features, SW_U3000);
    }
    if is_attr {
        if needs_escape_as_term(s) || s.contains('\\') {
            add(&mut st.features, SW_ATTR);
        }
        if s == "_exists_" || s == "_missing_" {
            add(&mut st.features, SW_EXISTS_SCOPED);
        }
    } else if s.chars().any(is_ws) {
        add(&mut st.features, SW_SPACE);
    }
}

fn cv_features(st: &mut Stats, v: &ComparisonValue, in_range: bool) {
    if float_feature(v) {
        add(&mut st.features, SW_FLOAT);
    }
    if matches!(v, ComparisonValue::Float(f) if !f.is_finite()) && !in_range {
        add(&mut st.features, SW_FLOAT_INF);
    }
    if let ComparisonValue::String(s) = v {
        text_features(st, s, false);
        if in_range {
            if s.is_empty() {
                add(&mut st.features, SW_EMPTY_RANGE);
            }
            if s.len() >= 3 && s.starts_with('"') && s.ends_with('"') {
                add(&mut st.features, SW_QUOTED_RANGE);
            }
        } else {
            let t = s.strip_prefix('-').unwrap_or(s);
            if t.chars().next().is_some_and(|c| c.is_ascii_digit()) {
                add(&mut st.features, SW_NUM_STRING);
            }
        }
    }
}

fn walk(n: &QueryNode, st: &mut Stats, neg: usize, root: bool) {
    use QueryNode as N;
    st.nodes += 1;
    st.neg_depth = st.neg_depth.max(neg);
    match n {
        N::MatchAllDocs => add(&mut st.variants, "MatchAllDocs"),
        N::MatchNoDocs => {
            add(&mut st.variants, "MatchNoDocs");
            if !root {
                add(&mut st.features, SW_NODOCS);
            }
        }
        N::AttributeExists { attr } => {
            add(&mut st.variants, "AttributeExists");
            text_features(st, attr, true);
        }
        N::AttributeMissing { attr } => {
            add(&mut st.variants, "AttributeMissing");
            text_features(st, attr, true);
        }
        N::AttributeRange { attr, lower, upper, .. } => {
            add(&mut st.variants, "AttributeRange");
            st.range_or_cmp = true;
            text_features(st, attr, true);
            cv_features(st, lower, true);
            cv_features(st, upper, true);
        }
        N::AttributeComparison { attr, value, .. } => {
            add(&mut st.variants, "AttributeComparison");
            st.range_or_cmp = true;
            text_features(st, attr, true);
            cv_features(st, value, false);
        }
        N::AttributeTerm { attr, value } => {
            add(&mut st.variants, "AttributeTerm");
            text_features(st, attr, true);
            text_features(st, value, false);
        }
        N::QuotedAttribute { attr, phrase } => {
            add(&mut st.variants, "QuotedAttribute");
            text_features(st, attr, true);
            if phrase.chars().any(|c| !c.is_ascii_alphanumeric()) {
                st.special_leaf = true;
            }
        }
        N::AttributePrefix { attr, prefix } => {
            add(&mut st.variants, "AttributePrefix");
            text_features(st, attr, true);
            text_features(st, prefix, false);
        }
        N::AttributeWildcard { attr, wildcard } => {
            add(&mut st.variants, "AttributeWildcard");
            text_features(st, attr, true);
            st.special_leaf = true;
            if starts_with_keyword(wildcard) {
                add(&mut st.features, SW_KEYWORD_GLOB);
            }
            if wildcard.contains(U3000) {
                add(&mut st.features, SW_U3000);
            }
            if attr == "_default_" && wildcard == "*" {
                // only reachable through an escaped spelling of the field name `_default_`
                add(&mut st.features, SW_EXISTS_SCOPED);
            }
            if attr == "_default_" {
                if let Some(k) = wildcard.find(['*', '?']) {
                    if k > 0 && wildcard[k..].starts_with('?') {
                        add(&mut st.features, SW_DEFAULT_QMARK);
                    }
                }
            }
            if wildcard.chars().enumerate().any(|(i, c)| c != '*' && c != '?' && if i == 0 { start_special(c) } else { always_special(c) }) {
                add(&mut st.features, SW_GLOB);
            }
        }
        N::NegatedNode { node } => {
            add(&mut st.variants, "NegatedNode");
            walk(node, st, neg + 1, false);
        }
        N::Boolean { oper, nodes } => {
            add(&mut st.variants, if *oper == BooleanType::And { "BooleanAnd" } else { "BooleanOr" });
            for c in nodes {
                if *oper == BooleanType::And {
                    if let N::NegatedNode { node } = c {
                        if matches!(**node, N::NegatedNode { .. }) {
                            add(&mut st.features, SW_DOUBLE_NEG);
                        }
                    }
                }
                walk(c, st, neg, false);
            }
        }
    }
}

fn payload_msg(p: &Box<dyn std::any::Any + Send>) -> String {
    if let Some(s) = p.downcast_ref::<&str>() {
        (*s).to_string()
    } else if let Some(s) = p.downcast_ref::<String>() {
        s.clone()
    } else {
        "non-string panic payload".to_string()
    }
}

fn parse(q: &str) -> Result<Result<QueryNode, String>, String> {
    match catch_unwind(AssertUnwindSafe(|| q.parse::<QueryNode>())) {
        Ok(Ok(n)) => Ok(Ok(n)),
        Ok(Err(e)) => Ok(Err(e.to_string())),
        Err(p) => Err(payload_msg(&p)),
    }
}

fn one_line(s: &str) -> String {
    s.replace('\n', " | ")
}

/// the oracle; `post` = switches whose classes are recognised on the parsed tree and counted as
/// excluded when the round trip fails (mutation sub-check only)
fn check_with(c: &Case, post: Option<&Excl>) -> V {
    let n = match parse(&c.q) {
        Ok(Ok(n)) => n,
        Ok(Err(_)) => return V::pass().class("rejected_text_no_panic"),
        Err(msg) => return V::fail_sig(format!("c30-parser-panic:{msg}"), format!("parsing {:?} panicked: {msg}", c.q)),
    };
    let mut st = Stats::default();
    walk(&n, &mut st, 0, true);
    let text = n.to_lucene();
    if text.trim().is_empty() {
        add(&mut st.features, SW_SPACE_ONLY);
    }
    let mut failure: Option<String> = None;
    match parse(&text) {
        Ok(Ok(m)) => {
            if !same(&m, &n) {
                failure = Some(format!("{:?} parses to {n:?}, which renders as {text:?}, which parses to the different tree {m:?}", c.q));
            } else if m.to_lucene() != text {
                failure = Some(format!("{:?}: rendering is not stable: {text:?} then {:?}", c.q, m.to_lucene()));
            }
        }
        Ok(Err(e)) => failure = Some(format!("{:?} parses to {n:?}, which renders as {text:?}, which is rejected: {}", c.q, one_line(&e))),
        Err(msg) => failure = Some(format!("{:?} parses to {n:?}, which renders as {text:?}, whose parse panics: {msg}", c.q)),
    }
    if failure.is_none() {
        // the serde form is the rendered text
        match serde_json::to_string(&n) {
            Ok(js) => match catch_unwind(AssertUnwindSafe(|| serde_json::from_str::<QueryNode>(&js))) {
                Ok(Ok(m)) if same(&m, &n) => {}
                Ok(Ok(m)) => failure = Some(format!("{:?}: serde round trip gives {m:?} instead of {n:?}", c.q)),
                Ok(Err(e)) => failure = Some(format!("{:?}: serialised form {js} does not deserialise: {e}", c.q)),
                Err(p) => failure = Some(format!("{:?}: deserialising {js} panicked: {}", c.q, payload_msg(&p))),
            },
            Err(e) => failure = Some(format!("{:?}: cannot serialise: {e}", c.q)),
        }
    }
    if let Some(msg) = failure {
        if let Some(x) = post {
            let on = |sw: &str| match sw {
                SW_FLOAT => x.float_integral,
                SW_ATTR => x.attr_escape,
                SW_SPACE => x.space_in_value,
                SW_GLOB => x.glob_escape,
                SW_KEYWORD => x.keyword_value,
                SW_NODOCS => x.nodocs_child,
                SW_DOUBLE_NEG => x.double_neg_in_and,
                SW_EXISTS_SCOPED => x.exists_scoped,
                SW_NUM_STRING => x.numeric_string_cmp,
                SW_QUOTED_RANGE => x.quoted_range_string,
                SW_U3000 => x.unicode3000,
                SW_DEFAULT_QMARK => x.default_glob_qmark,
                SW_EMPTY_RANGE => x.empty_range_string,
                SW_SPACE_ONLY => x.space_only_term,
                SW_KEYWORD_GLOB => x.keyword_glob,
                SW_FLOAT_INF => x.float_overflow_cmp,
                _ => false,
            };
            if let Some(sw) = st.features.iter().find(|f| on(f)) {
                return V::excluded(sw);
            }
        }
        return V::fail(msg);
    }
    let mut v = V::pass().nontrivial(st.nodes >= 2 || st.range_or_cmp || st.special_leaf);
    for s in &st.variants {
        v = v.class(s);
    }
    v.class(match st.neg_depth {
        0 => "neg_depth_0",
        1 => "neg_depth_1",
        _ => "neg_depth_2+",
    })
    .class_if(c.q.contains('\\'), "escapes_in_text")
    .class_if(st.nodes >= 5, "tree_5+_nodes")
}

fn check(c: &Case) -> V {
    check_with(c, None)
}

/// query strings taken from the tests of match_datadog_query.rs and parser.rs plus the minimal
/// texts of every class discussed in DESIGN.md (always evaluated, independent of the seed)
fn corpus() -> Vec<Case> {
    [
        "", " ", "*", "*:*", "-*:*", "NOT *", "foo", "\"foo bar\"", "foo bar", "foo:bar", "_exists_:message", "NOT _exists_:message",
        "-_exists_:@a", "_missing_:@a-b", "tags:a", "y:2", "@z:1", "*tor", "a:*tor", "@a:vec*", "v*c*r", "@a:v*c*r",
        "[* TO *]", "[4 TO *]", "[\"4\" TO *]", "[* TO \"400\"]", "@a:[1 TO 6]", "a:[\"1\" TO \"6\"]", "{1 TO 2}", "{* TO 3}", "{1 TO *}",
        "this AND that", "this AND NOT that", "this OR NOT that", "this AND (that OR the_other)", "this AND -(that OR the_other)",
        "host:this OR ((@b:test* AND c:that) AND d:the_other @e:[1 TO 5])", "@level:[7.5 TO 10.25]", "@a-b:3", "@a%:3",
        "a && b || c", "+a -b", "a AND b OR c AND d", "@a:>=foo", "@a:>5", "@a:<=-5", "@a:>1.5", "@a:<\\-2.5", ">5", "@a:[ 1 TO 5 ]",
        "@a:\"x\\\"y\\\\z\"", "NOT (NOT a)", "a OR NOT (NOT b)", "@a:(b OR c)", "@a:(b AND NOT c)", "ORDER", "NOTE", "@a:hello?world",
        "a\\:b", "a\\(b\\)", "\\-a", "a-b+c=d", "@a:[inf TO 1]", "@a:[NaN TO 1]", "@a:[a\\:b TO c]", "@a:>1E19", "@a:>99999999999999999999",
        "@a:>0.001", "@a:>1E-3", "日本:語", "é*", "\u{3000}x", "a/b", "@a:a/b*",
    ]
    .iter()
    .map(|q| Case { q: (*q).to_string() })
    .collect()
}

pub fn run(r: &mut Run) {
    let x = excl_of(r);
    r.enumerate("corpus", corpus(), check);
    r.sub("grammar", 300_000, 10_000_000, move || ddquery::query_text(x).prop_map(|q| Case { q }), check);
    r.sub("mutated", 150_000, 5_000_000, move || ddquery::mutated_text(x).prop_map(|q| Case { q }), move |c: &Case| {
        // `[a TO b}` panics while that finding is open: recognised on the text
        if x.mixed_brackets && mixed_brackets_in(&c.q) {
            return V::excluded(SW_MIXED);
        }
        check_with(c, Some(&x))
    });
}

/// a `[`/`{` whose next closing bracket is of the other kind
fn mixed_brackets_in(q: &str) -> bool {
    let cs: Vec<char> = q.chars().collect();
    for (i, c) in cs.iter().enumerate() {
        if *c == '[' || *c == '{' {
            if let Some(d) = cs[i + 1..].iter().find(|d| **d == ']' || **d == '}') {
                if (*c == '[') != (*d == ']') {
                    return true;
                }
            }
        }
    }
    false
}
