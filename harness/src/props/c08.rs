//! C08 — error coalescing and infallible assignment follow their definitions.

use vrl::path::parse_value_path;

use crate::engine::{Run, V};
use crate::gens::prog::{program_src, walk, Target, E};
use crate::gens::proggen::{self, Preset, ProgCase};
use crate::model::diff::Agreed;
use crate::model::member::member;
use crate::props::progdiff;
use crate::vrlx;

pub const RULE: &str = "Sub-check `default_value_by_kind` (exhaustive grid): for every non-empty subset of the nine value kinds, `ok, err = { to_int(.s); <if-chain over one literal per kind of the subset> }` is run with a failing and a succeeding first statement: on failure `ok` must hold the documented default of the single kind (\"\", 0, 0.0, false, null, [], {}, the epoch, the empty regex) or null when the kind is a union, `err` a string; on success `ok` the selected literal and `err` null. cases = generated programs dense in `a ?? b` (chains, nesting, effects on both sides) and `ok, err = e` (targets: variables, event and metadata paths, `_`) where a/e are typed calls and divisions fed by event fields that make them fail in roughly half of the cases, plus a generated event; real compiler+runtime vs reference interpreter: value of the expression, absence of the right operand's effects when the left succeeded, contents of ok/err (err is compared as 'a string' since message texts are not modelled; the default stored in ok is compared exactly with the documented default of the generator's known result type of e — 0, 0.0, \"\", false, [], {} — and left open when that type is not a single kind). Additionally whenever `.ok` is a target, its final value must be a member of the compiler's final type of `.ok` (the stored default belongs to ok's reported type). Non-trivial = the run had both a failing and a succeeding guarded evaluation, or a guarded expression whose type is a container/union. Distinct = distinct serialised (program, event) cases.";
pub const NOTE: &str = "trusts the reference interpreter and the harness membership predicate; error message texts are not compared";

fn classify(case: &ProgCase, a: &Agreed) -> (bool, Vec<&'static str>) {
    let mut c = Vec::new();
    if a.stats.coalesce_left_ok > 0 {
        c.push("coalesce_left_succeeded");
    }
    if a.stats.coalesce_left_err > 0 {
        c.push("coalesce_left_failed");
    }
    if a.stats.inf_assign_ok > 0 {
        c.push("infallible_assign_succeeded");
    }
    if a.stats.inf_assign_err > 0 {
        c.push("infallible_assign_failed");
    }
    let mut container_default = false;
    for s in &case.prog {
        walk(s, &mut |x| {
            if let E::AssignInf { dflt, .. } = x {
                if dflt.is_container() || crate::model::diff::tv_is_default_marker(dflt) {
                    container_default = true;
                }
            }
        });
    }
    if container_default {
        c.push("non_scalar_or_open_default");
    }
    let both = (a.stats.coalesce_left_ok > 0 || a.stats.inf_assign_ok > 0) && (a.stats.coalesce_left_err > 0 || a.stats.inf_assign_err > 0);
    (both || (container_default && a.stats.inf_assign_err > 0), c)
}

fn check(case: &ProgCase) -> V {
    let v = progdiff::check_with(case, &classify);
    if v.is_fail() || !matches!(v.outcome, crate::engine::Outcome::Pass) {
        return v;
    }
    // the value stored in `.ok` belongs to the reported type of `.ok`
    let uses_ok = crate::gens::prog::any_node(&case.prog, &|x| matches!(x, E::AssignInf { ok: Target::Ev(_), .. }));
    // assignments inside closure bodies are not applied to the type state (known finding D08,
    // decided under C01); the membership clause is only asserted without them
    let in_closure = crate::gens::prog::any_node(&case.prog, &|x| match x {
        E::Call { closure: Some((_, body)), .. } => crate::gens::prog::any_node(body, &|y| matches!(y, E::AssignInf { ok: Target::Ev(_), .. })),
        _ => false,
    });
    if uses_ok && in_closure {
        return v.class("ok_assigned_inside_closure_membership_not_asserted");
    }
    if uses_ok {
        let src = program_src(&case.prog);
        if let Ok(res) = vrlx::compile(&src) {
            let out = vrlx::run(&res.program, case.event.to_value(), case.meta.to_value());
            if out.end.is_success() {
                let kind = res.program.final_type_info().state.external.target_kind().clone();
                let p = parse_value_path("ok").expect("path");
                let at = kind.at_path(&p);
                match out.event.get(&p) {
                    Some(val) => {
                        if !member(val, &at) {
                            return V::fail(format!("`.ok` holds {val} which is not a member of its reported type {at} ({at:?})\n--- program:\n{src}--- event: {:?}", case.event));
                        }
                    }
                    None => {
                        if !crate::model::member::admits_undefined(&at) {
                            return V::fail(format!("`.ok` is absent but its reported type {at} does not admit undefined\n--- program:\n{src}"));
                        }
                    }
                }
                return v.class("ok_field_type_membership_checked");
            }
        }
    }
    v
}


/// one case of the `default_value_by_kind` grid: the guarded expression is a block whose first
/// statement fails (or not) and whose value is an if-chain over literals of the kinds in `mask`
#[derive(Clone, Debug, serde::Serialize, serde::Deserialize)]
pub struct DefaultCase {
    pub mask: u16,
    pub sel: usize,
    pub fails: bool,
}

/// (literal source, the documented default of exactly that kind)
const KIND_LITS: [(&str, &str); 9] = [
    ("\"a\"", "\"\""),
    ("7", "0"),
    ("1.5", "0.0"),
    ("true", "false"),
    ("null", "null"),
    ("[1]", "[]"),
    ("{\"k\": 1}", "{}"),
    ("t'2020-01-01T00:00:00Z'", "t'1970-01-01T00:00:00Z'"),
    ("r'x'", "r''"),
];

fn default_cases() -> Vec<DefaultCase> {
    let mut out = Vec::new();
    for mask in 1u16..(1 << KIND_LITS.len()) {
        let n = mask.count_ones() as usize;
        // every failing case; successful runs for the first and last member
        out.push(DefaultCase { mask, sel: 0, fails: true });
        out.push(DefaultCase { mask, sel: 0, fails: false });
        if n > 1 {
            out.push(DefaultCase { mask, sel: n - 1, fails: true });
            out.push(DefaultCase { mask, sel: n - 1, fails: false });
        }
    }
    out
}

fn check_default(c: &DefaultCase) -> V {
    let members: Vec<usize> = (0..KIND_LITS.len()).filter(|i| c.mask & (1 << i) != 0).collect();
    let mut chain = String::new();
    for (j, m) in members.iter().enumerate() {
        if j + 1 == members.len() {
            if j == 0 {
                chain.push_str(KIND_LITS[*m].0);
            } else {
                chain.push_str(&format!("else {{ {} }}", KIND_LITS[*m].0));
            }
        } else {
            chain.push_str(&format!("{}if .sel == {j} {{ {} }} ", if j == 0 { "" } else { "else " }, KIND_LITS[*m].0));
        }
    }
    let src = format!("ok, err = {{ to_int(.s); {chain} }}\n[ok, err]\n");
    let res = match vrlx::compile(&src) {
        Ok(r) => r,
        Err(d) => return V::fail(format!("grid program must compile: {}\n{src}", vrlx::diag_summary(&d))),
    };
    let event = format!("{{\"s\": {}, \"sel\": {}}}", if c.fails { "\"x\"" } else { "\"5\"" }, c.sel);
    let ev: vrl::value::Value = serde_json::from_str::<serde_json::Value>(&event).expect("json").into();
    let out = vrlx::run(&res.program, ev, vrlx::empty_object());
    let vrlx::End::Ok(vrl::value::Value::Array(pair)) = &out.end else {
        return V::fail(format!("`ok, err = ..` must not end the program: {:?}\n{src}", out.end));
    };
    let want_src = if c.fails {
        if members.len() == 1 { KIND_LITS[members[0]].1 } else { "null" }
    } else {
        KIND_LITS[members[c.sel]].0
    };
    let want = match vrlx::eval(want_src, &vrlx::empty_object()).map(|o| o.end) {
        Ok(vrlx::End::Ok(v)) => v,
        other => return V::fail(format!("harness: cannot evaluate expectation {want_src}: {other:?}")),
    };
    let same = |a: &vrl::value::Value, b: &vrl::value::Value| match (a, b) {
        (vrl::value::Value::Regex(x), vrl::value::Value::Regex(y)) => x.as_str() == y.as_str(),
        _ => a == b,
    };
    if !same(&pair[0], &want) {
        return V::fail_sig(
            "c08:default-by-kind",
            format!(
                "`ok` holds {} but {} is expected ({})\n--- program:\n{src}--- event: {event}",
                pair[0],
                want,
                if !c.fails { "the guarded expression succeeded" } else if members.len() == 1 { "documented default of the expression's single kind" } else { "the expression's kind is a union: documented default null" }
            ),
        );
    }
    let err_ok = if c.fails { pair[1].is_bytes() } else { pair[1].is_null() };
    if !err_ok {
        return V::fail_sig("c08:default-by-kind-err", format!("`err` holds {} (guarded expression {})\n--- program:\n{src}--- event: {event}", pair[1], if c.fails { "failed" } else { "succeeded" }));
    }
    V::pass().nontrivial(true).class_if(c.fails, "guarded_failed").class_if(!c.fails, "guarded_succeeded").class_if(members.len() > 1, "union_kind").class_if(members.len() == 1, "single_kind")
}

pub fn run(r: &mut Run) {
    r.enumerate("default_value_by_kind", default_cases(), check_default);
    let base = progdiff::base_preset(r);
    let preset = Preset { coalesce: 10, infallible_assign: 10, closures: 2, short_circuit: 1, dels: 1, ..base };
    r.sub("coalesce_and_infallible_assign", 200_000, 10_000_000, move || proggen::strategy(preset), check);
}
