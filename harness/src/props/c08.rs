//! C08 — error coalescing and infallible assignment follow their definitions.

use vrl::path::parse_value_path;

use crate::engine::{Run, V};
use crate::gens::prog::{program_src, walk, Target, E};
use crate::gens::proggen::{self, Preset, ProgCase};
use crate::model::diff::Agreed;
use crate::model::member::member;
use crate::props::progdiff;
use crate::vrlx;

pub const RULE: &str = "cases = generated programs dense in `a ?? b` (chains, nesting, effects on both sides) and `ok, err = e` (targets: variables, event and metadata paths, `_`) where a/e are typed calls and divisions fed by event fields that make them fail in roughly half of the cases, plus a generated event; real compiler+runtime vs reference interpreter: value of the expression, absence of the right operand's effects when the left succeeded, contents of ok/err (err is compared as 'a string' since message texts are not modelled; the default stored in ok is compared exactly with the documented default of the generator's known result type of e — 0, 0.0, \"\", false, [], {} — and left open when that type is not a single kind). Additionally whenever `.ok` is a target, its final value must be a member of the compiler's final type of `.ok` (the stored default belongs to ok's reported type). Non-trivial = the run had both a failing and a succeeding guarded evaluation, or a guarded expression whose type is a container/union. Distinct = distinct serialised (program, event) cases.";
pub const NOTE: &str = "trusts the reference interpreter and the harness membership predicate; error message texts are not compared";

fn classify(case: &ProgCase, a: &Agreed) -> (bool, Vec<&'static str>) {
    let mut c = Vec::new();
    if a.stats.coalesce_left_ok > 0 {
        c.push("coalesce_left_succeeded");
    }
    if a.stats.coalesce_left_err > 0 {
        c.push("coalesce_left_failed");
    }
    if a.stats.inf_assign_ok > 0 {
        c.push("infallible_assign_succeeded");
    }
    if a.stats.inf_assign_err > 0 {
        c.push("infallible_assign_failed");
    }
    let mut container_default = false;
    for s in &case.prog {
        walk(s, &mut |x| {
            if let E::AssignInf { dflt, .. } = x {
                if dflt.is_container() || crate::model::diff::tv_is_default_marker(dflt) {
                    container_default = true;
                }
            }
        });
    }
    if container_default {
        c.push("non_scalar_or_open_default");
    }
    let both = (a.stats.coalesce_left_ok > 0 || a.stats.inf_assign_ok > 0) && (a.stats.coalesce_left_err > 0 || a.stats.inf_assign_err > 0);
    (both || (container_default && a.stats.inf_assign_err > 0), c)
}

fn check(case: &ProgCase) -> V {
    let v = progdiff::check_with(case, &classify);
    if v.is_fail() || !matches!(v.outcome, crate::engine::Outcome::Pass) {
        return v;
    }
    // the value stored in `.ok` belongs to the reported type of `.ok`
    let uses_ok = crate::gens::prog::any_node(&case.prog, &|x| matches!(x, E::AssignInf { ok: Target::Ev(_), .. }));
    // assignments inside closure bodies are not applied to the type state (known finding D08,
    // decided under C01); the membership clause is only asserted without them
    let in_closure = crate::gens::prog::any_node(&case.prog, &|x| match x {
        E::Call { closure: Some((_, body)), .. } => crate::gens::prog::any_node(body, &|y| matches!(y, E::AssignInf { ok: Target::Ev(_), .. })),
        _ => false,
    });
    if uses_ok && in_closure {
        return v.class("ok_assigned_inside_closure_membership_not_asserted");
    }
    if uses_ok {
        let src = program_src(&case.prog);
        if let Ok(res) = vrlx::compile(&src) {
            let out = vrlx::run(&res.program, case.event.to_value(), case.meta.to_value());
            if out.end.is_success() {
                let kind = res.program.final_type_info().state.external.target_kind().clone();
                let p = parse_value_path("ok").expect("path");
                let at = kind.at_path(&p);
                match out.event.get(&p) {
                    Some(val) => {
                        if !member(val, &at) {
                            return V::fail(format!("`.ok` holds {val} which is not a member of its reported type {at} ({at:?})\n--- program:\n{src}--- event: {:?}", case.event));
                        }
                    }
                    None => {
                        if !crate::model::member::admits_undefined(&at) {
                            return V::fail(format!("`.ok` is absent but its reported type {at} does not admit undefined\n--- program:\n{src}"));
                        }
                    }
                }
                return v.class("ok_field_type_membership_checked");
            }
        }
    }
    v
}

pub fn run(r: &mut Run) {
    let base = progdiff::base_preset(r);
    let preset = Preset { coalesce: 10, infallible_assign: 10, closures: 2, short_circuit: 1, dels: 1, ..base };
    r.sub("coalesce_and_infallible_assign", 200_000, 10_000_000, move || proggen::strategy(preset), check);
}
