//! C07 — `abort` terminates the program and cannot be intercepted.

use crate::engine::Run;
use crate::gens::proggen::{Preset, ProgCase};
use crate::model::diff::Agreed;
use crate::props::progdiff;

pub const RULE: &str = "cases = generated programs as in C06 with `abort`, `abort \"literal\"` and `abort <string expression>` injected at statement, block, branch, operand (through blocks), right-hand side of `??`/`ok, err =`/`||`/`&&`, array/object member, call argument and closure-body positions, plus a generated event; real compiler+runtime vs reference interpreter: the outcome must be an abort with the same message (none <-> none), effects before the abort point present, effects after it absent (final event, metadata and variables are compared). Non-trivial = the reference executed an `abort` under at least one enclosing construct other than a plain block/branch. Distinct = distinct serialised (program, event) cases.";
pub const NOTE: &str = "trusts the reference interpreter for control flow; abort messages are compared exactly, other error texts are not compared";

fn classify(_case: &ProgCase, a: &Agreed) -> (bool, Vec<&'static str>) {
    let mut classes = Vec::new();
    let mut enclosed = false;
    for ctx in &a.stats.aborts {
        if ctx.contains(&"closure") {
            classes.push("abort_in_closure");
        }
        match ctx.iter().rev().find(|c| !matches!(**c, "block" | "if_branch" | "else_branch")) {
            Some(inner) => {
                enclosed = true;
                classes.push(match *inner {
                    "coalesce_lhs" => "abort_under_coalesce_lhs",
                    "coalesce_rhs" => "abort_under_coalesce_rhs",
                    "infallible_assign_rhs" => "abort_under_infallible_assign",
                    "assign_rhs" => "abort_under_assign_rhs",
                    "call_argument" => "abort_in_call_argument",
                    "array" => "abort_in_array_element",
                    "object" => "abort_in_object_member",
                    "operand" => "abort_in_operand",
                    "predicate" => "abort_in_predicate",
                    "closure" => "abort_directly_in_closure_body",
                    "or_rhs" | "and_rhs" | "or_lhs" | "and_lhs" => "abort_in_short_circuit_operand",
                    _ => "abort_elsewhere",
                });
            }
            None => classes.push("abort_at_top_level"),
        }
    }
    (enclosed, classes)
}

pub fn run(r: &mut Run) {
    crate::props::pinned::run(r, pinned_cases());
    let base = progdiff::base_preset(r);
    progdiff::sub(r, "abort_anywhere", Preset { returns: 0, aborts: 7, closures: 3, coalesce: 4, infallible_assign: 3, ..base }, 150_000, 8_000_000, classify);
    progdiff::sub(r, "abort_and_return_mixed", Preset { returns: 3, aborts: 4, closures: 5, ..base }, 60_000, 3_000_000, classify);
}

fn pinned_cases() -> Vec<crate::props::pinned::Pinned> {
    use crate::gens::value::TV;
    use crate::props::pinned::{case, ev};
    let c = || ev(&[("c", TV::Bool(true))]);
    vec![
        case("abort under ??", "x = { if .c == true { abort \"boom\" }; to_int(.b) } ?? 1\n.after = 1\nx", c(), "abort").msg("boom").final_event(c()),
        case("abort under ok, err =", "ok, err = { if .c == true { abort }; to_int(.b) }\n.after = 1", c(), "abort").final_event(c()),
        case("abort in the right operand of ||", ".sc = (false || { abort \"m\"; true })\n.after = 1", ev(&[]), "abort").msg("m").final_event(ev(&[])),
        case("abort in a closure body", ".before = 1\nfor_each([1]) -> |i, v| { abort \"in closure\" }\n.after = 1", ev(&[]), "abort").msg("in closure").final_event(ev(&[("before", TV::Int(1))])),
        case("abort in a closure under ??", "x = (map_values([1]) -> |v| { if v == 1 { abort \"z\" }; to_int(.q) } ?? [])\n.after = 1", ev(&[]), "abort").msg("z").final_event(ev(&[])),
    ]
}
