//! C20 — paths round-trip through text and all path parsers agree.
//!
//! Three views of a path are compared:
//! * the owned path (`OwnedValuePath` / `OwnedTargetPath`),
//! * its text (`String::from`, `Display`, serde) read back by the path-string parser
//!   (`parse_value_path`, `parse_target_path`, `FromStr`, serde),
//! * the same text written as a VRL program and read back from
//!   `Program::info().target_queries` (only when the VRL parser sees the program as exactly one
//!   external query expression).

use std::panic::{catch_unwind, AssertUnwindSafe};

use proptest::prelude::*;
use serde::{Deserialize, Serialize};
use vrl::parser::ast::{Expr, QueryTarget, RootExpr};
use vrl::path::{parse_target_path, parse_value_path, OwnedSegment, OwnedTargetPath, OwnedValuePath, PathPrefix};

use crate::engine::{Run, V};
use crate::gens::path::{to_owned_path, to_target_path, wild_seg, Seg, SegPath};
use crate::vrlx;

pub const RULE: &str = "cases = (a) owned value/target paths of 0..5 segments from gens::path::wild_seg (arbitrary field strings over the stress alphabet incl. empty, quotes, backslashes, dots, brackets, control characters, unicode; indices incl. isize::MIN/MAX; both prefixes; root paths), rendered with String::from/Display/serde and parsed back with parse_*_path/FromStr/serde, and the rendered target path compiled as a one-expression VRL program; (b) EVERY text of length 0..=5 (quick) / 0..=6 (thorough) over the 14-character path alphabet `.%[]\"\\-@_a01 {`, plus random texts of 6..=14 alphabet characters and rendered paths with 1..3 character edits. For a text, VRL's view = target_queries[0] of the compiled program when vrl::parser::parse yields exactly one root expression that is a Query with an external target. Non-trivial = (a) the path has a field that needs quoting or a negative index, (b) the text is accepted by both parsers and has >= 2 segments. Distinct = distinct serialised cases.";
pub const NOTE: &str = "trusts vrl::parser::parse's AST only as a domain filter (is this program a single external query?); VRL's denotation is always read from Program::info().target_queries. Texts accepted by only one parser are counted (vrl_only / string_only), not reported: the statement only speaks about texts both accept. A panic inside either parser is counted as a rejection in this property (it belongs to C04) and surfaces as class *_panic.";

/// open known findings (DESIGN D16 / D17)
pub const SW_ROOT: &str = "c20_root_paths";
pub const SW_TEMPLATE: &str = "c20_template_braces_in_quoted_field";
/// `\\}}` inside a quoted field: VRL takes `\}}` as an escape even when the backslash is itself escaped
pub const SW_BSBRACE: &str = "c20_backslash_before_closing_braces_in_quoted_field";

pub const ALPHABET: [char; 14] = ['.', '%', '[', ']', '"', '\\', '-', '@', '_', 'a', '0', '1', ' ', '{'];

#[derive(Clone, Debug, Serialize, Deserialize)]
pub struct ValueCase {
    pub p: SegPath,
}

#[derive(Clone, Debug, Serialize, Deserialize)]
pub struct TargetCase {
    pub meta: bool,
    pub p: SegPath,
}

#[derive(Clone, Debug, Serialize, Deserialize)]
pub struct TextCase {
    pub t: String,
}

#[derive(Clone, Copy)]
struct Switches {
    roots: bool,
    template: bool,
    bsbrace: bool,
}

// ------------------------------------------------------------------------------------------
// helpers

fn needs_quoting(f: &str) -> bool {
    f.is_empty() || f.chars().any(|c| !matches!(c, 'A'..='Z' | 'a'..='z' | '_' | '0'..='9' | '@'))
}

fn path_nontrivial(p: &[Seg]) -> bool {
    p.iter().any(|s| match s {
        Seg::F(f) => needs_quoting(f),
        Seg::I(i) => *i < 0,
    })
}

fn has_template_braces(s: &str) -> bool {
    s.contains("{{")
}

/// `{{` somewhere after a double quote (the only place where VRL reads it as a template)
fn text_has_quoted_template(t: &str) -> bool {
    t.find('"').is_some_and(|q| t[q..].contains("{{"))
}

/// `\}}` somewhere after a double quote
fn text_has_quoted_bsbrace(t: &str) -> bool {
    t.find('"').is_some_and(|q| t[q..].contains("\\}}"))
}

fn path_has_bsbrace(p: &[Seg]) -> bool {
    p.iter().any(|s| matches!(s, Seg::F(f) if f.contains("\\}}")))
}

fn path_has_template_braces(p: &[Seg]) -> bool {
    p.iter().any(|s| matches!(s, Seg::F(f) if has_template_braces(f)))
}

/// What the VRL compiler makes of `t` as a program.
#[derive(Debug, Clone, PartialEq)]
pub enum VrlView {
    /// the program is exactly one external query; this is the compiled path
    Query(OwnedTargetPath),
    /// not (only) an external query, or a syntax error
    NotAQuery,
    /// the parser sees one external query but compilation fails / reports != 1 target query
    CompileOdd(String),
    Panic(String),
}

pub fn vrl_view(t: &str) -> VrlView {
    let r = catch_unwind(AssertUnwindSafe(|| {
        let Ok(ast) = vrl::parser::parse(t) else { return VrlView::NotAQuery };
        if ast.0.len() != 1 {
            return VrlView::NotAQuery;
        }
        let RootExpr::Expr(e) = ast.0[0].inner() else { return VrlView::NotAQuery };
        let Expr::Query(q) = e.inner() else { return VrlView::NotAQuery };
        if !matches!(q.inner().target.inner(), QueryTarget::External(_)) {
            return VrlView::NotAQuery;
        }
        match vrlx::compile(t) {
            Ok(res) => {
                let tq = &res.program.info().target_queries;
                if tq.len() == 1 {
                    VrlView::Query(tq[0].clone())
                } else {
                    VrlView::CompileOdd(format!("{} target queries: {tq:?}", tq.len()))
                }
            }
            Err(d) => VrlView::CompileOdd(vrlx::diag_summary(&d)),
        }
    }));
    match r {
        Ok(v) => v,
        Err(p) => VrlView::Panic(crate::engine::panics::payload_str(&p)),
    }
}

fn string_view(t: &str) -> Result<Option<OwnedTargetPath>, String> {
    match catch_unwind(AssertUnwindSafe(|| parse_target_path(t).ok())) {
        Ok(v) => Ok(v),
        Err(p) => Err(crate::engine::panics::payload_str(&p)),
    }
}

/// render -> parse through every public text conversion of `OwnedValuePath`
fn value_roundtrip(vp: &OwnedValuePath) -> Result<(), String> {
    let s = String::from(vp);
    let d = vp.to_string();
    if d != s {
        return Err(format!("Display {d:?} differs from String::from {s:?}"));
    }
    if String::from(vp.clone()) != s {
        return Err("String::from(owned) differs from String::from(&owned)".to_string());
    }
    match parse_value_path(&s) {
        Ok(back) if back == *vp => {}
        other => return Err(format!("parse_value_path({s:?}) = {other:?}, expected {:?}", vp.segments)),
    }
    match s.parse::<OwnedValuePath>() {
        Ok(back) if back == *vp => {}
        other => return Err(format!("{s:?}.parse::<OwnedValuePath>() = {other:?}, expected {:?}", vp.segments)),
    }
    match OwnedValuePath::try_from(s.clone()) {
        Ok(back) if back == *vp => {}
        other => return Err(format!("OwnedValuePath::try_from({s:?}) = {other:?}")),
    }
    let json = serde_json::to_string(vp).map_err(|e| format!("serialising the path failed: {e}"))?;
    let expect_json = serde_json::to_string(&s).unwrap_or_default();
    if json != expect_json {
        return Err(format!("serde renders {json} but String::from renders {expect_json}"));
    }
    match serde_json::from_str::<OwnedValuePath>(&json) {
        Ok(back) if back == *vp => {}
        other => return Err(format!("serde round trip of {json} = {other:?}, expected {:?}", vp.segments)),
    }
    Ok(())
}

fn target_roundtrip(tp: &OwnedTargetPath) -> Result<(), String> {
    let s = tp.to_string();
    if String::from(tp) != s || String::from(tp.clone()) != s {
        return Err(format!("String::from differs from Display {s:?}"));
    }
    match parse_target_path(&s) {
        Ok(back) if back == *tp => {}
        other => return Err(format!("parse_target_path({s:?}) = {other:?}, expected {tp:?} ({:?})", tp.path.segments)),
    }
    match s.parse::<OwnedTargetPath>() {
        Ok(back) if back == *tp => {}
        other => return Err(format!("{s:?}.parse::<OwnedTargetPath>() = {other:?}, expected {tp:?}")),
    }
    match OwnedTargetPath::try_from(s.clone()) {
        Ok(back) if back == *tp => {}
        other => return Err(format!("OwnedTargetPath::try_from({s:?}) = {other:?}")),
    }
    let json = serde_json::to_string(tp).map_err(|e| format!("serialising the path failed: {e}"))?;
    let expect_json = serde_json::to_string(&s).unwrap_or_default();
    if json != expect_json {
        return Err(format!("serde renders {json} but Display renders {expect_json}"));
    }
    match serde_json::from_str::<OwnedTargetPath>(&json) {
        Ok(back) if back == *tp => {}
        other => return Err(format!("serde round trip of {json} = {other:?}, expected {tp:?}")),
    }
    Ok(())
}

fn seg_classes(mut v: V, p: &[Seg]) -> V {
    let mut quoted = false;
    let mut esc = false;
    let mut neg = false;
    let mut edge = false;
    let mut non_ascii = false;
    let mut empty = false;
    let mut ctl = false;
    for s in p {
        match s {
            Seg::F(f) => {
                quoted |= needs_quoting(f);
                esc |= f.contains('"') || f.contains('\\');
                non_ascii |= !f.is_ascii();
                empty |= f.is_empty();
                ctl |= f.chars().any(|c| c.is_control());
            }
            Seg::I(i) => {
                neg |= *i < 0;
                edge |= *i == isize::MAX as i64 || *i <= isize::MIN as i64 + 1;
            }
        }
    }
    v = v
        .class_if(p.is_empty(), "root")
        .class_if(quoted, "quoted_field")
        .class_if(esc, "escaped_char_in_field")
        .class_if(neg, "negative_index")
        .class_if(edge, "isize_edge_index")
        .class_if(non_ascii, "non_ascii_field")
        .class_if(empty, "empty_field")
        .class_if(ctl, "control_char_in_field")
        .class_if(matches!(p.first(), Some(Seg::I(_))), "leading_index");
    v
}

// ------------------------------------------------------------------------------------------
// oracles

fn check_value(sw: Switches, c: &ValueCase) -> V {
    if sw.roots && c.p.is_empty() {
        return V::excluded(SW_ROOT);
    }
    let vp = to_owned_path(&c.p);
    if let Err(e) = value_roundtrip(&vp) {
        return V::fail(e);
    }
    seg_classes(V::pass().nontrivial(path_nontrivial(&c.p)), &c.p)
}

fn check_target(sw: Switches, c: &TargetCase) -> V {
    if sw.roots && c.p.is_empty() && c.meta {
        return V::excluded(SW_ROOT);
    }
    let tp = to_target_path(c.meta, &c.p);
    if let Err(e) = target_roundtrip(&tp) {
        return V::fail(e);
    }
    seg_classes(V::pass().nontrivial(path_nontrivial(&c.p)), &c.p).class(if c.meta { "metadata" } else { "event" })
}

/// oracle (3): a rendered target path that VRL accepts as a query denotes the original path
fn check_rendered_in_vrl(sw: Switches, c: &TargetCase) -> V {
    if sw.template && path_has_template_braces(&c.p) {
        return V::excluded(SW_TEMPLATE);
    }
    if sw.bsbrace && path_has_bsbrace(&c.p) {
        return V::excluded(SW_BSBRACE);
    }
    let tp = to_target_path(c.meta, &c.p);
    let s = tp.to_string();
    let v = match vrl_view(&s) {
        VrlView::Query(q) => {
            if q != tp {
                return V::fail(format!(
                    "path {tp:?} (segments {:?}) renders as {s:?}; as a VRL program that text queries {q:?} (segments {:?})",
                    tp.path.segments, q.path.segments
                ));
            }
            V::pass().nontrivial(path_nontrivial(&c.p)).class("vrl_accepts_rendered")
        }
        VrlView::NotAQuery => V::pass().class("vrl_rejects_rendered"),
        VrlView::CompileOdd(_) => V::pass().class("vrl_compile_odd"),
        VrlView::Panic(_) => V::pass().class("vrl_panic"),
    };
    seg_classes(v, &c.p).class(if c.meta { "metadata" } else { "event" })
}

/// oracle (2) + round trip of whatever the string parsers produce from the text
fn check_text(sw: Switches, c: &TextCase) -> V {
    let t = c.t.as_str();
    if sw.template && text_has_quoted_template(t) {
        return V::excluded(SW_TEMPLATE);
    }
    if sw.bsbrace && text_has_quoted_bsbrace(t) {
        return V::excluded(SW_BSBRACE);
    }
    let sview = match string_view(t) {
        Ok(v) => v,
        Err(_) => return V::pass().class("string_parser_panic"),
    };
    // anything the string parsers accept is an owned path: it must survive render -> parse
    if let Some(tp) = &sview {
        let meta_root = tp.path.is_root() && tp.prefix == PathPrefix::Metadata;
        if !(sw.roots && meta_root) {
            if let Err(e) = target_roundtrip(tp) {
                return V::fail(format!("text {t:?} parses to {tp:?}, which does not round-trip: {e}"));
            }
        }
        if !(sw.roots && tp.path.is_root()) {
            if let Err(e) = value_roundtrip(&tp.path) {
                return V::fail(format!("text {t:?} parses to value path {:?}, which does not round-trip: {e}", tp.path.segments));
            }
        }
    }
    let vview = vrl_view(t);
    let v = match (&vview, &sview) {
        (VrlView::Query(q), Some(p)) => {
            if q != p {
                return V::fail(format!(
                    "text {t:?}: VRL queries {q:?} (segments {:?}) but parse_target_path gives {p:?} (segments {:?})",
                    q.path.segments, p.path.segments
                ));
            }
            let quoted = p.path.segments.iter().any(|s| matches!(s, OwnedSegment::Field(f) if needs_quoting(f)));
            V::pass()
                .nontrivial(p.path.segments.len() >= 2)
                .class("both_accept")
                .class_if(p.path.is_root(), "both_accept_root")
                .class_if(quoted, "both_accept_quoted_field")
                .class_if(p.path.segments.iter().any(|s| matches!(s, OwnedSegment::Index(i) if *i < 0)), "both_accept_negative_index")
                .class_if(p.prefix == PathPrefix::Metadata, "both_accept_metadata")
        }
        (VrlView::Query(q), None) => V::pass().class("vrl_only").class_if(q.path.is_root(), "vrl_only_root"),
        (VrlView::NotAQuery, Some(_)) => V::pass().class("string_only"),
        (VrlView::NotAQuery, None) => V::pass().class("neither"),
        (VrlView::CompileOdd(_), _) => V::pass().class("vrl_compile_odd"),
        (VrlView::Panic(_), _) => V::pass().class("vrl_panic"),
    };
    v
}

// ------------------------------------------------------------------------------------------
// generators

fn wild_path() -> impl Strategy<Value = SegPath> {
    wild_path_raw()
}

/// like `wild_path` but never the root
fn wild_path_no_root() -> impl Strategy<Value = SegPath> {
    wild_path_raw().prop_map(|p| if p.is_empty() { vec![Seg::F("a".to_string())] } else { p })
}

fn wild_path_raw() -> impl Strategy<Value = SegPath> {
    prop_oneof![
        1 => Just(Vec::new()),
        12 => proptest::collection::vec(wild_seg(), 1..=5),
        // fields that sit right at the quoting rules
        3 => proptest::collection::vec(
            prop_oneof![
                Just("\"".to_string()), Just("\\".to_string()), Just("\\\"".to_string()), Just("a\\".to_string()),
                Just("a-b".to_string()), Just("-".to_string()), Just("[0]".to_string()), Just(".".to_string()),
                Just("%".to_string()), Just("a b".to_string()), Just("\n".to_string()), Just("\\n".to_string()),
                Just("{".to_string()), Just("}".to_string()), Just("\\{".to_string()), Just("{ {".to_string()),
                Just("if".to_string()), Just("null".to_string()), Just("0".to_string()), Just("01".to_string()),
                Just("_".to_string()), Just("@".to_string()), Just("\u{e9}".to_string()), Just("'".to_string()),
                Just("\\u{41}".to_string()), Just("\\'".to_string()), Just("\t".to_string()), Just("\0".to_string()),
                Just("\\}}".to_string()), Just("}}".to_string()), Just("a\\}}b".to_string()), Just("\\\\}}".to_string()), Just("\\}".to_string()),
                Just("\\{{".to_string()), Just("{{".to_string()), Just("a{{b}}c".to_string()),
            ]
            .prop_map(Seg::F),
            1..=3
        ),
    ]
}

fn strip_classes(sw: Switches, mut p: SegPath) -> SegPath {
    for s in &mut p {
        if let Seg::F(f) = s {
            while sw.template && has_template_braces(f) {
                *f = f.replace("{{", "{ {");
            }
            if sw.bsbrace {
                *f = f.replace("\\}}", "\\} }");
            }
        }
    }
    p
}

const EDIT_CHARS: &[char] = &[
    '.', '%', '[', ']', '"', '\\', '-', '@', '_', 'a', '0', '1', ' ', '{', '}', '\'', '(', ')', '9', '\n', '\t', 'é', '!', '#', '+', 'n', 'u', 'Z',
];

fn random_text(sw: Switches) -> impl Strategy<Value = TextCase> {
    let alpha = proptest::collection::vec(0..ALPHABET.len(), 6..=14).prop_map(|v| v.into_iter().map(|i| ALPHABET[i]).collect::<String>());
    let edited = (any::<bool>(), wild_path(), proptest::collection::vec((any::<u16>(), 0..EDIT_CHARS.len(), 0u8..3), 1..=3)).prop_map(
        |(meta, p, edits)| {
            let mut chars: Vec<char> = to_target_path(meta, &p).to_string().chars().collect();
            for (pos, ci, kind) in edits {
                let at = if chars.is_empty() { 0 } else { (pos as usize) % (chars.len() + 1) };
                match kind {
                    0 => chars.insert(at, EDIT_CHARS[ci]),
                    1 => {
                        if at < chars.len() {
                            chars.remove(at);
                        }
                    }
                    _ => {
                        if at < chars.len() {
                            chars[at] = EDIT_CHARS[ci];
                        } else {
                            chars.push(EDIT_CHARS[ci]);
                        }
                    }
                }
            }
            chars.into_iter().collect::<String>()
        },
    );
    // long digit runs in indices (i64 / isize limits)
    let digits = (any::<bool>(), any::<bool>(), "[0-9]{15,22}").prop_map(|(meta, neg, d)| format!("{}a[{}{d}]", if meta { "%" } else { "." }, if neg { "-" } else { "" }));
    // quoted fields built from escape-relevant units
    const UNITS: &[&str] = &["\\\\", "\\\"", "{", "}", "}}", "a", " ", ".", "\\n", "\\{", "\\}", "'", "\\", "\"", "-", "é", "\\u{41}", "\\'", "\\0"];
    let soup = (any::<bool>(), proptest::collection::vec(0..UNITS.len(), 1..=6), prop_oneof![3 => Just(""), 1 => Just(".a"), 1 => Just("[0]")]).prop_map(
        |(meta, us, tail)| format!("{}\"{}\"{tail}", if meta { "%" } else { "." }, us.into_iter().map(|i| UNITS[i]).collect::<String>()),
    );
    prop_oneof![6 => alpha, 6 => edited, 1 => digits, 4 => soup].prop_map(move |mut t| {
        if sw.template {
            while text_has_quoted_template(&t) {
                t = t.replace("{{", "{ {");
            }
        }
        if sw.bsbrace && text_has_quoted_bsbrace(&t) {
            t = t.replace("\\}}", "\\} }");
        }
        TextCase { t }
    })
}

/// all texts of exactly `len` characters over ALPHABET, optionally with a fixed first character
fn texts_of_len(len: usize, first: Option<usize>) -> Vec<TextCase> {
    let n = ALPHABET.len();
    let free = if first.is_some() { len.saturating_sub(1) } else { len };
    let total = n.pow(free as u32);
    let mut out = Vec::with_capacity(total);
    for mut k in 0..total {
        let mut s = String::with_capacity(len);
        if let Some(f) = first {
            if len == 0 {
                continue;
            }
            s.push(ALPHABET[f]);
        }
        let mut tail = Vec::with_capacity(free);
        for _ in 0..free {
            tail.push(ALPHABET[k % n]);
            k /= n;
        }
        tail.reverse();
        s.extend(tail);
        out.push(TextCase { t: s });
    }
    out
}

pub fn run(r: &mut Run) {
    let live = !r.is_replay();
    let sw = Switches { roots: live && r.excluded(SW_ROOT), template: live && r.excluded(SW_TEMPLATE), bsbrace: live && r.excluded(SW_BSBRACE) };

    r.sub(
        "value_path_roundtrip",
        300_000,
        20_000_000,
        || {
            if sw.roots {
                wild_path_no_root().prop_map(|p| ValueCase { p }).boxed()
            } else {
                wild_path().prop_map(|p| ValueCase { p }).boxed()
            }
        },
        move |c| check_value(sw, c),
    );
    r.sub(
        "target_path_roundtrip",
        300_000,
        20_000_000,
        || {
            (any::<bool>(), wild_path()).prop_map(move |(meta, p)| {
                // with the root switch on, the metadata root is left out by construction
                let meta = if sw.roots && p.is_empty() { false } else { meta };
                TargetCase { meta, p }
            })
        },
        move |c| check_target(sw, c),
    );
    r.sub(
        "rendered_path_in_vrl",
        150_000,
        10_000_000,
        || (any::<bool>(), wild_path()).prop_map(move |(meta, p)| TargetCase { meta, p: strip_classes(sw, p) }),
        move |c| check_rendered_in_vrl(sw, c),
    );
    r.sub("random_texts", 150_000, 10_000_000, || random_text(sw), move |c| check_text(sw, c));

    // exhaustive short texts; in replay mode only the names matter
    let thorough = r.tier == crate::engine::Tier::Thorough;
    let mut short = Vec::new();
    if live {
        for len in 0..=4 {
            short.extend(texts_of_len(len, None));
        }
    }
    r.enumerate("texts_len_0_4", short, move |c| check_text(sw, c));
    r.enumerate("texts_len_5", if live { texts_of_len(5, None) } else { Vec::new() }, move |c| check_text(sw, c));
    for (i, ch) in ALPHABET.iter().enumerate() {
        let name = format!("texts_len_6_first_{:02x}", *ch as u32);
        if !live {
            r.enumerate(&name, Vec::new(), move |c| check_text(sw, c));
        } else if thorough {
            r.enumerate(&name, texts_of_len(6, Some(i)), move |c| check_text(sw, c));
        }
    }
}
