//! Shared pieces of C01 (type soundness) and C02 (infallibility): programs compiled against
//! external kinds, variable probes, and the run with the hook recorder.

use proptest::prelude::*;
use serde::{Deserialize, Serialize};
use vrl::compiler::state::ExternalEnv;
use vrl::compiler::{CompilationResult, CompileConfig};
use vrl::value::kind::Collection;
use vrl::value::Kind;

use crate::gens::kind::KD;
use crate::gens::path::Seg;
use crate::gens::prog::{program_src, Target, E};
use crate::gens::proggen::{self, Preset, ProgCase};
use crate::gens::value::TV;
use crate::vrlx::{self, RunOut};

#[derive(Clone, Debug, Serialize, Deserialize)]
pub struct TCase {
    pub prog: Vec<E>,
    pub event: TV,
    pub meta: TV,
    /// 0 = default external env (event `object(any)`), 1 = exact kinds of event and metadata,
    /// 2 = the widened kinds `ekind` / `mkind`
    pub env: u8,
    #[serde(default)]
    pub ekind: Option<KD>,
}

pub fn strategy(preset: Preset) -> impl Strategy<Value = TCase> {
    (proggen::strategy(preset), 0u8..3, proptest::collection::vec(any::<u8>(), 0..64)).prop_map(|(c, env, bytes)| {
        let ekind = if env == 2 { Some(crate::gens::kind::widen_value(&c.event, &bytes)) } else { None };
        TCase { prog: c.prog, event: c.event, meta: c.meta, env, ekind }
    })
}

/// names of variables assigned by top-level statements up to (and including) statement `upto`
fn root_vars(prog: &[E], upto: usize) -> Vec<String> {
    let mut out: Vec<String> = Vec::new();
    let mut add = |n: &String| {
        if !out.contains(n) {
            out.push(n.clone());
        }
    };
    for s in prog.iter().take(upto + 1) {
        match s {
            E::Assign(Target::Var(n, p), _) if p.is_empty() => add(n),
            E::AssignInf { ok, err, .. } => {
                for t in [ok, err] {
                    if let Target::Var(n, p) = t {
                        if p.is_empty() {
                            add(n);
                        }
                    }
                }
            }
            _ => {}
        }
    }
    out
}

/// The program with probes `.__snapN = [x, y, ...]` after every second top-level statement and
/// before the final expression: ordinary VRL, so the final event type carries the compiler's type
/// of each variable at that point. Returns (program, list of (probe field, variable names)).
pub fn with_probes(prog: &[E]) -> (Vec<E>, Vec<(String, Vec<String>)>) {
    let mut out = Vec::new();
    let mut probes = Vec::new();
    let n = prog.len();
    for (i, s) in prog.iter().enumerate() {
        let is_last = i + 1 == n;
        if is_last || (i % 2 == 1) {
            let vars = if i == 0 { vec![] } else { root_vars(prog, i - 1) };
            if !vars.is_empty() && is_last {
                let field = format!("__snap{i}");
                out.push(E::Assign(Target::Ev(vec![Seg::F(field.clone())]), Box::new(E::Arr(vars.iter().map(|v| E::Var(v.clone(), vec![])).collect()))));
                probes.push((field, vars));
            }
        }
        out.push(s.clone());
        if !is_last && i % 2 == 1 {
            let vars = root_vars(prog, i);
            if !vars.is_empty() {
                let field = format!("__snap{i}");
                out.push(E::Assign(Target::Ev(vec![Seg::F(field.clone())]), Box::new(E::Arr(vars.iter().map(|v| E::Var(v.clone(), vec![])).collect()))));
                probes.push((field, vars));
            }
        }
    }
    (out, probes)
}

pub fn external_env(c: &TCase) -> ExternalEnv {
    match c.env {
        0 => ExternalEnv::default(),
        1 => ExternalEnv::new_with_kind(Kind::from(c.event.to_value()), Kind::from(c.meta.to_value())),
        _ => ExternalEnv::new_with_kind(
            c.ekind.as_ref().map(KD::to_kind).unwrap_or_else(|| Kind::object(Collection::any())),
            Kind::object(Collection::any()),
        ),
    }
}

pub struct Compiled {
    pub src: String,
    pub res: CompilationResult,
    pub probes: Vec<(String, Vec<String>)>,
}

pub fn compile(c: &TCase, probes: bool) -> Result<Compiled, String> {
    let (prog, pr) = if probes { with_probes(&c.prog) } else { (c.prog.clone(), vec![]) };
    let src = program_src(&prog);
    match vrlx::compile_cfg(&src, &external_env(c), CompileConfig::default()) {
        Ok(res) => Ok(Compiled { src, res, probes: pr }),
        Err(d) => Err(vrlx::diag_summary(&d)),
    }
}

pub fn run(c: &TCase, k: &Compiled) -> (RunOut, Vec<vrl::compiler::verif::Event>, u64) {
    let _ = vrl::compiler::verif::take();
    let _ = vrl::compiler::verif::take_sites();
    let out = vrlx::run(&k.res.program, c.event.to_value(), c.meta.to_value());
    (out, vrl::compiler::verif::take(), vrl::compiler::verif::take_sites())
}

pub fn as_progcase(c: &TCase) -> ProgCase {
    ProgCase { prog: c.prog.clone(), event: c.event.clone(), meta: c.meta.clone() }
}

/// source-level case (pinned reproductions of known findings)
#[derive(Clone, Debug, Serialize, Deserialize)]
pub struct SrcCase {
    pub src: String,
    pub event: TV,
    #[serde(default = "empty_meta")]
    pub meta: TV,
    /// 0 = default external env, 1 = exact kinds of event and metadata
    #[serde(default)]
    pub env: u8,
}

fn empty_meta() -> TV {
    TV::Object(Default::default())
}

pub fn compile_src(c: &SrcCase) -> Result<Compiled, String> {
    let t = TCase { prog: vec![], event: c.event.clone(), meta: c.meta.clone(), env: c.env.min(1), ekind: None };
    match vrlx::compile_cfg(&c.src, &external_env(&t), CompileConfig::default()) {
        Ok(res) => Ok(Compiled { src: c.src.clone(), res, probes: vec![] }),
        Err(d) => Err(vrlx::diag_summary(&d)),
    }
}

pub fn src_as_tcase(c: &SrcCase) -> TCase {
    TCase { prog: vec![], event: c.event.clone(), meta: c.meta.clone(), env: c.env.min(1), ekind: None }
}
