//! C04 — compiling and running never panics the host.

use std::panic::{catch_unwind, AssertUnwindSafe};

use proptest::prelude::*;
use vrl::compiler::runtime::Runtime;
use vrl::compiler::TargetValue;
use vrl::diagnostic::Formatter;
use vrl::value::{Secrets, Value};

use crate::engine::{panics, Run, V};
use crate::gens::proggen::Preset;
use crate::gens::value::{ustring, TV};
use crate::props::c33::{self, SrcCase};
use crate::props::progdiff;
use crate::props::typesound::{self, TCase};
use crate::vrlx;

pub const RULE: &str = "three generators feed one oracle (no panic anywhere in compile -> render diagnostics plain and coloured -> final_type_info -> Runtime::resolve): (1) source texts: the C33 corpus-mutation generator (932 corpus programs x 0..6 of 26 mutation kinds, <= 4 KiB, nesting <= 40; accepted programs are also *run* on two events unless they contain `*`, random/IO functions or an explicit compression level — repetition counts, IO and memory-hungry compressor levels are out of scope) and random UTF-8 / token soup; (2) generated programs (the C01 generator with `!` calls and `abort` enabled) x events x external kinds; (3) stdlib calls with edge-value arguments in killable worker processes (see C03). A panic is reported with signature `panic@<file>:<line>`. Non-trivial = (1) the text has at least 3 tokens' worth of structure (>= 8 non-blank characters) and either compiled or produced a diagnostic beyond offset 0; (2) the program compiled and ran; (3) the call reached the function body. Distinct = distinct serialised cases.";
pub const NOTE: &str = "memory/stack exhaustion is out of scope by the statement: source size and nesting are bounded, programs containing string repetition are compiled but not run, and neither are programs with `recursive: true` (a recursive map_values/map_keys whose closure returns a container never returns: the open C05 finding, a hang rather than a panic); sources with an index literal above 999 (`a[1_000_000_000] = 1` makes the compiler list, and the runtime pad, every hole in front of it: gigabytes from a few bytes) are discarded; a hang is reported as inconclusive (exit 2) by the engine watchdog, not as a violation";

fn panic_verdict(stage: &str, src: &str) -> V {
    let (loc, msg) = panics::last().unwrap_or_else(|| ("unknown".into(), "panic".into()));
    V::fail_sig(format!("panic@{loc}"), format!("panic during {stage} at {loc}: {msg}\n--- source:\n{src}"))
}

fn risky_to_run(src: &str) -> bool {
    const DENY: &[&str] = &["*", "random_", "uuid_", "http_request", "dns_lookup", "reverse_dns", "get_env_var", "get_hostname", "log(", "get_timezone_name", "now(", "compression_level", "recursive: true"];
    DENY.iter().any(|d| src.contains(d))
}

fn events() -> Vec<Value> {
    let sample: serde_json::Value = serde_json::json!({
        "message": "2021-01-01T00:00:00Z host app[1]: <13>1 k=v a=1 \"q\"", "a": 1, "b": "foo", "c": [1, "x", null], "d": {"e": 1.5, "f": true},
        "timestamp": "2021-02-03T04:05:06Z", "tags": ["x:y"], "foo": "bar", "status": 200, "host": "h"
    });
    vec![vrlx::empty_object(), sample.into()]
}

/// compile -> render -> type info -> run, every stage guarded
fn exercise(src: &str, ext: &vrl::compiler::state::ExternalEnv, cfg: vrl::compiler::CompileConfig, run_events: &[Value]) -> V {
    panics::clear_last();
    let compiled = match catch_unwind(AssertUnwindSafe(|| vrlx::compile_cfg(src, ext, cfg))) {
        Ok(c) => c,
        Err(_) => return panic_verdict("compilation", src),
    };
    let structured = src.chars().filter(|c| !c.is_whitespace()).count() >= 8;
    match compiled {
        Err(diags) => {
            let beyond0 = diags.iter().any(|d| d.labels.iter().any(|l| l.span.start() > 0));
            let rendered = catch_unwind(AssertUnwindSafe(|| {
                let plain = Formatter::new(src, diags.clone()).to_string();
                let coloured = Formatter::new(src, diags).colored().to_string();
                plain.len() + coloured.len()
            }));
            if rendered.is_err() {
                return panic_verdict("rendering the diagnostics", src);
            }
            V::pass().nontrivial(structured && beyond0).class("rejected")
        }
        Ok(res) => {
            let r = catch_unwind(AssertUnwindSafe(|| {
                let w = Formatter::new(src, res.warnings.clone()).to_string().len();
                let ti = res.program.final_type_info();
                w + format!("{}", ti.result.kind()).len()
            }));
            if r.is_err() {
                return panic_verdict("rendering warnings / final_type_info", src);
            }
            let mut ran = false;
            if !risky_to_run(src) {
                for ev in run_events {
                    let program = &res.program;
                    let rr = catch_unwind(AssertUnwindSafe(|| {
                        let mut target = TargetValue { value: ev.clone(), metadata: vrlx::empty_object(), secrets: Secrets::default() };
                        let mut rt = Runtime::default();
                        let _ = rt.resolve(&mut target, program, &vrlx::utc());
                    }));
                    if rr.is_err() {
                        return panic_verdict("running the program", &format!("{src}\n--- event: {ev}"));
                    }
                    ran = true;
                }
            }
            V::pass().nontrivial(structured).class("compiled").class_if(ran, "ran").class_if(!res.warnings.is_empty(), "has_warnings")
        }
    }
}

fn check_src(c: &SrcCase) -> V {
    if c33::huge_index(&c.src) {
        return V::discard("index_literal_above_999_out_of_scope");
    }
    if c.src.len() > c33::MAX_SRC || c33::depth_of(&c.src) > c33::MAX_DEPTH {
        return V::discard("over_size_or_depth_bound");
    }
    exercise(&c.src, &c33::external(c.cfg), c33::config(c.cfg), &events())
}

fn check_prog(c: &TCase) -> V {
    let src = crate::gens::prog::program_src(&c.prog);
    let ev = [c.event.to_value()];
    let v = exercise(&src, &typesound::external_env(c), vrl::compiler::CompileConfig::default(), &ev);
    let _ = TV::Null;
    v
}

const TOKENS: &[&str] = &[
    ".", "%", "[", "]", "{", "}", "(", ")", "=", "==", "!=", "??", "||", "&&", "|", "|=", "!", "+", "-", "/", ",", ":", ";", "->", "\n", " ", "\"", "'", "s'", "r'", "t'",
    "\\", "{{", "}}", "if", "else", "abort", "return", "null", "true", "false", "x", ".a", "%m", "del(", "exists(", "to_int(", "upcase(", "for_each(", "|k, v|", "1", "0", "-1",
    "9223372036854775807", "1.5", "#", "_", "ok, err =", "..", "\u{2028}", "é", "日本",
];

fn token_soup() -> impl Strategy<Value = SrcCase> {
    prop_oneof![
        2 => proptest::collection::vec(0..TOKENS.len(), 0..40).prop_map(|ix| ix.into_iter().map(|i| TOKENS[i]).collect::<String>()),
        1 => ustring(60),
        1 => (proptest::collection::vec(0..TOKENS.len(), 0..20), ustring(10)).prop_map(|(ix, u)| {
            let mut s: String = ix.into_iter().map(|i| TOKENS[i]).collect();
            s.push_str(&u);
            s
        }),
    ]
    .prop_map(|src| SrcCase { src, cfg: 0 })
}

pub fn run(r: &mut Run) {
    r.sub("mutated_corpus_sources", 150_000, 8_000_000, c33::mutated_corpus, check_src);
    r.sub("assignment_target_sources", 20_000, 1_000_000, c33::assignment_targets, check_src);
    r.sub("token_soup_and_random_utf8", 100_000, 5_000_000, token_soup, check_src);
    let base = progdiff::base_preset(r);
    let p = Preset { returns: 2, aborts: 2, bang: true, coalesce: 4, infallible_assign: 3, closures: 4, ..base };
    r.sub("generated_programs", 100_000, 5_000_000, move || typesound::strategy(p), check_prog);
    // stdlib calls with edge-value arguments, executed in killable worker processes
    crate::props::c04_calls::register(r);
}
