//! C34 — unused-expression warnings only flag removable code.
//!
//! For every warning of the unused-expression checker that says a *result* is unused (literal,
//! object, function call — not `unused variable`), the flagged source span is replaced by `null`
//! (P′) and P and P′ are run on the same event.

use vrl::parser::ast::{self, Assignment, AssignmentTarget, Container, Expr, FunctionCall, Node, Predicate, QueryTarget, RootExpr, Unary};

use crate::engine::{Run, V};
use crate::gens::proggen;
use crate::gens::sloppy::{self, Opts, SloppyCase};
use crate::gens::value::TV;
use crate::vrlx::{self, End};

pub const RULE: &str = "cases = (source, event, metadata): deliberately sloppy programs (harness AST printed to VRL): an optional type-directed generated program (assignments, if/else, blocks, `??`, `ok, err =`, del, closures) with junk injected into every statement list (top level, blocks, branches, closure bodies, multi-expression predicates), plus purpose-built statements whose right-hand sides mix closures, blocks, conditionals, arrays, objects and operators with junk in the non-value positions; junk = bare literals of every kind, bare arrays/objects with computed members, bare pure calls, bare queries and variables, calls with `!`, discarded operators, discarded handled-fallible calls and blocks, side-effect calls (del, assert!), calls whose arguments contain assignments/del/abort/return (subject to the known-finding switches). Oracle per warning with code 900 whose message starts with `unused literal`, `unused object` or `unused result for function call`: P′ = P with the label span replaced by `null`; P′ must compile (except when the only reason is that an error handler became unnecessary, E651/E104, or when the flagged expression is the left operand of a discarded `&&`/`||`/`??`, where `null` may simply not type-check; flagged operands of discarded arithmetic/comparison operators and of `!` are skipped altogether because `null` is not a type-preserving stand-in there: all counted as skipped classes); P and P′ run on the same event+metadata; if the flagged expression is infallible (it compiles on its own with ProgramInfo.fallible = abortable = false and contains no return) success/failure and final event+metadata must be equal, otherwise whenever P succeeds P′'s final event+metadata must equal P's. Non-trivial = some evaluated warning flags something other than a bare literal at top level (a call, an object, or anything inside a block/branch/closure/array). Distinct = distinct serialised cases. Programs rejected by the compiler are discards.";
pub const NOTE: &str = "trusts vrl's own parser for locating the flagged span in the AST (used only to classify the position and to recognise the known-finding classes) and the compiler's ProgramInfo for the fallibility of a stand-alone expression; `replace by null` stands for deletion; program result values and error messages are not compared (the statement speaks about event, metadata and success); unused-variable warnings are ignored; byte offsets quoted inside error texts that a program stores in its event (`at (157:184)`) are masked before comparing and the replacement is padded to the length of the flagged text; five open known findings switch classes off (by construction in the junk generator, recognised through the AST and counted as excluded for what the underlying program generator emits): effects in the arguments of a flagged call, effects in the members of a flagged object, flagged value that is the left operand of a discarded &&/|| whose right operand has effects or can fail, flagged expression after a closure call among the elements of one array / members of one predicate, flagged fallible expression below an error handler";

pub const SW_CALL_ARGS: &str = "effects-in-arguments-of-discarded-call";
pub const SW_OBJECT: &str = "effects-in-members-of-discarded-object";
pub const SW_SHORT_CIRCUIT: &str = "effects-right-of-discarded-short-circuit";
pub const SW_AFTER_CLOSURE: &str = "sibling-after-closure-call-in-array-or-predicate";
pub const SW_BANG_HANDLED: &str = "bang-call-discarded-under-error-handler";

// ------------------------------------------------------------------------------------------
// locating a span in vrl's AST

#[derive(Clone, Copy, Debug, PartialEq, Eq)]
enum Link {
    Root,
    /// statement of a block / branch / closure body; `last` = its value is the block's value
    BlockStmt { last: bool },
    Branch,
    /// member of a predicate; `after_closure` = an earlier member is a closure call on the same level
    Pred { after_closure: bool },
    Closure,
    ArrayElem { after_closure: bool },
    ObjectVal,
    Arg,
    /// left operand of `&&` / `||`
    ScLhs,
    /// left operand of `??`
    ErrLhs,
    OpLhs,
    OpRhs,
    Not,
    AssignRhs,
    /// right-hand side of `ok, err = ...`
    InfallibleRhs,
    Group,
    Other,
}

#[derive(Clone, Copy, Debug, PartialEq, Eq)]
enum Kind {
    Literal,
    Object,
    Call,
}

#[derive(Clone, Debug)]
struct Found {
    chain: Vec<Link>,
    /// the flagged node contains an assignment / del / side-effect call / abort / return in its
    /// arguments (call) or members (object)
    inner_effect: bool,
    bang: bool,
    /// for a flagged left operand of `&&`/`||`: the right operand has an effect or can fail
    sc_rhs_effect: bool,
    /// an earlier array element / predicate member on the same checker level is a closure call
    after_closure: bool,
    /// somewhere above, an error handler (`??`, `ok, err =`) catches what the flagged code raises
    under_handler: bool,
    /// the flagged value feeds an arithmetic / comparison operator or `!` whose result is discarded
    operand: bool,
}

const SIDE_EFFECT_FUNCTIONS: [&str; 5] = ["del", "log", "assert", "assert_eq", "set_semantic_meaning"];

/// `bang` = calls written with `!` count as effects too (they can end the program)
fn call_scan(fc: &FunctionCall, bang: bool) -> bool {
    SIDE_EFFECT_FUNCTIONS.contains(&fc.ident.to_string().as_str())
        || (bang && fc.abort_on_error)
        || fc.arguments.iter().any(|a| scan(&a.expr, bang))
        || fc.closure.as_ref().is_some_and(|c| c.block.0.iter().any(|x| scan(x, bang)))
}

fn container_scan(c: &Container, bang: bool) -> bool {
    match c {
        Container::Group(g) => scan(&g.0, bang),
        Container::Block(b) => b.0.iter().any(|x| scan(x, bang)),
        Container::Array(a) => a.inner().clone().into_iter().any(|x| scan(&x, bang)),
        Container::Object(o) => o.inner().clone().into_iter().any(|(_, x)| scan(&x, bang)),
    }
}

fn scan(e: &Node<Expr>, bang: bool) -> bool {
    match e.inner() {
        Expr::Literal(_) | Expr::Variable(_) => false,
        Expr::Container(c) => container_scan(c, bang),
        Expr::IfStatement(i) => {
            let p = match &i.predicate.inner() {
                Predicate::One(x) => scan(x, bang),
                Predicate::Many(xs) => xs.iter().any(|x| scan(x, bang)),
            };
            p || i.if_node.0.iter().any(|x| scan(x, bang)) || i.else_node.as_ref().is_some_and(|b| b.0.iter().any(|x| scan(x, bang)))
        }
        Expr::Op(op) => scan(&op.0, bang) || scan(&op.2, bang),
        Expr::Assignment(_) | Expr::Abort(_) | Expr::Return(_) => true,
        Expr::Query(q) => match &q.target.inner() {
            QueryTarget::FunctionCall(fc) => call_scan(fc, bang),
            QueryTarget::Container(c) => container_scan(c, bang),
            _ => false,
        },
        Expr::FunctionCall(fc) => call_scan(fc, bang),
        Expr::Unary(u) => match u.inner() {
            Unary::Not(n) => scan(&n.inner().clone().take().1, bang),
        },
    }
}

/// assignment / del / side-effect call / abort / return somewhere inside
fn has_effect(e: &Node<Expr>) -> bool {
    scan(e, false)
}

/// Does visiting this expression make the checker visit a closure call on the *current* level?
fn same_level_closure(e: &Node<Expr>) -> bool {
    match e.inner() {
        Expr::FunctionCall(fc) => fc.closure.is_some(),
        Expr::Container(c) => match c.inner() {
            Container::Group(g) => same_level_closure(&g.0),
            Container::Block(b) => b.0.last().is_some_and(same_level_closure),
            Container::Array(a) => a.inner().clone().into_iter().any(|x| same_level_closure(&x)),
            Container::Object(_) => false,
        },
        Expr::Op(op) => same_level_closure(&op.0),
        Expr::Unary(u) => match u.inner() {
            Unary::Not(n) => same_level_closure(&n.inner().clone().take().1),
        },
        _ => false,
    }
}

struct Finder {
    target: (usize, usize),
    kind: Kind,
    chain: Vec<Link>,
    found: Option<Found>,
    /// effect flag of the right operand of the innermost enclosing short-circuit whose left
    /// operand we are in
    sc_rhs: Vec<bool>,
}

impl Finder {
    fn hit(&self, span: vrl::diagnostic::Span) -> bool {
        self.found.is_none() && (span.start(), span.end()) == self.target
    }

    fn record(&mut self, inner_effect: bool, bang: bool) {
        // a short-circuit operator whose left operand's value is the flagged expression's value
        let mut sc = false;
        for l in self.chain.iter().rev() {
            match l {
                Link::Group | Link::BlockStmt { last: true } => continue,
                Link::ScLhs => {
                    sc = true;
                    break;
                }
                _ => break,
            }
        }
        // the flagged value is an operand of a type-checked operator (arithmetic, comparison, `!`)
        let mut operand = false;
        for l in self.chain.iter().rev() {
            match l {
                Link::Group | Link::BlockStmt { last: true } | Link::ArrayElem { .. } | Link::ScLhs | Link::ErrLhs => continue,
                Link::OpLhs | Link::Not => {
                    operand = true;
                    break;
                }
                _ => break,
            }
        }
        // same-level walk upwards: a closure call earlier in an enclosing array / predicate
        let mut after_closure = false;
        for l in self.chain.iter().rev() {
            match l {
                Link::Group | Link::OpLhs | Link::ScLhs | Link::ErrLhs | Link::Not | Link::BlockStmt { last: true } => continue,
                Link::ArrayElem { after_closure: a } | Link::Pred { after_closure: a } => {
                    if *a {
                        after_closure = true;
                        break;
                    }
                    if matches!(l, Link::Pred { .. }) {
                        break;
                    }
                }
                _ => break,
            }
        }
        let under_handler = self.chain.iter().any(|l| matches!(l, Link::ErrLhs | Link::InfallibleRhs));
        self.found = Some(Found {
            chain: self.chain.clone(),
            inner_effect,
            bang,
            sc_rhs_effect: sc && self.sc_rhs.last().copied().unwrap_or(false),
            after_closure,
            under_handler,
            operand,
        });
    }

    fn stmts(&mut self, items: &[Node<Expr>]) {
        let n = items.len();
        for (i, x) in items.iter().enumerate() {
            self.with(Link::BlockStmt { last: i + 1 == n }, |s| s.expr(x));
        }
    }

    /// array elements / predicate members: all visited on one checker level
    fn siblings(&mut self, items: &[Node<Expr>], array: bool) {
        let mut seen_closure = false;
        for x in items {
            let link = if array { Link::ArrayElem { after_closure: seen_closure } } else { Link::Pred { after_closure: seen_closure } };
            self.with(link, |s| s.expr(x));
            seen_closure |= same_level_closure(x);
        }
    }

    fn list(&mut self, items: &[Node<Expr>], link: Link) {
        for x in items {
            self.with(link, |s| s.expr(x));
        }
    }

    fn with(&mut self, link: Link, f: impl FnOnce(&mut Self)) {
        self.chain.push(link);
        f(self);
        self.chain.pop();
    }

    fn call(&mut self, fc: &FunctionCall, span: vrl::diagnostic::Span) {
        if self.kind == Kind::Call && self.hit(span) {
            let eff = fc.arguments.iter().any(|a| has_effect(&a.expr));
            self.record(eff, fc.abort_on_error);
        }
        for a in &fc.arguments {
            self.with(Link::Arg, |s| s.expr(&a.expr));
        }
        if let Some(c) = &fc.closure {
            self.with(Link::Closure, |s| s.stmts(&c.block.0));
        }
    }

    fn container(&mut self, c: &Container) {
        match c {
            Container::Group(g) => self.with(Link::Group, |s| s.expr(&g.0)),
            Container::Block(b) => self.stmts(&b.0),
            Container::Array(a) => {
                let items: Vec<Node<Expr>> = a.inner().clone().into_iter().collect();
                self.siblings(&items, true);
            }
            Container::Object(o) => {
                let members: Vec<Node<Expr>> = o.inner().clone().into_iter().map(|(_, v)| v).collect();
                if self.kind == Kind::Object && self.hit(o.span()) {
                    let eff = members.iter().any(has_effect);
                    self.record(eff, false);
                }
                self.list(&members, Link::ObjectVal);
            }
        }
    }

    fn expr(&mut self, e: &Node<Expr>) {
        if self.found.is_some() {
            return;
        }
        match e.inner() {
            Expr::Literal(l) => {
                if self.kind == Kind::Literal && (self.hit(e.span()) || self.hit(l.span())) {
                    self.record(false, false);
                }
            }
            Expr::Container(c) => self.container(c),
            Expr::IfStatement(i) => {
                match i.predicate.inner() {
                    Predicate::One(x) => self.with(Link::Pred { after_closure: false }, |s| s.expr(x)),
                    Predicate::Many(xs) => self.siblings(xs, false),
                }
                self.with(Link::Branch, |s| s.stmts(&i.if_node.0));
                if let Some(b) = &i.else_node {
                    self.with(Link::Branch, |s| s.stmts(&b.0));
                }
            }
            Expr::Op(op) => {
                let short = matches!(op.1.inner(), ast::Opcode::And | ast::Opcode::Or);
                if short {
                    self.sc_rhs.push(scan(&op.2, true));
                    self.with(Link::ScLhs, |s| s.expr(&op.0));
                    self.sc_rhs.pop();
                } else if matches!(op.1.inner(), ast::Opcode::Err) {
                    self.with(Link::ErrLhs, |s| s.expr(&op.0));
                } else {
                    self.with(Link::OpLhs, |s| s.expr(&op.0));
                }
                self.with(Link::OpRhs, |s| s.expr(&op.2));
            }
            Expr::Assignment(a) => {
                let (targets, rhs, link): (Vec<&Node<AssignmentTarget>>, &Node<Expr>, Link) = match a.inner() {
                    Assignment::Single { target, expr, .. } => (vec![target], expr, Link::AssignRhs),
                    Assignment::Infallible { ok, err, expr, .. } => (vec![ok, err], expr, Link::InfallibleRhs),
                };
                for t in targets {
                    if let AssignmentTarget::Query(q) = t.inner() {
                        self.query_target(&q.target);
                    }
                }
                self.with(link, |s| s.expr(rhs));
            }
            Expr::Query(q) => self.query_target(&q.target),
            Expr::FunctionCall(fc) => self.call(fc.inner(), fc.span()),
            Expr::Variable(_) => {}
            Expr::Unary(u) => match u.inner() {
                Unary::Not(n) => {
                    let inner = n.inner().clone().take().1;
                    self.with(Link::Not, |s| s.expr(&inner));
                }
            },
            Expr::Abort(a) => {
                if let Some(m) = &a.message {
                    self.with(Link::Other, |s| s.expr(m));
                }
            }
            Expr::Return(r) => self.with(Link::Other, |s| s.expr(&r.expr)),
        }
    }

    fn query_target(&mut self, t: &Node<QueryTarget>) {
        match t.inner() {
            QueryTarget::FunctionCall(fc) => self.with(Link::Other, |s| s.call(fc, t.span())),
            QueryTarget::Container(c) => self.with(Link::Other, |s| s.container(c)),
            _ => {}
        }
    }
}

fn locate(program: &ast::Program, target: (usize, usize), kind: Kind) -> Option<Found> {
    let mut f = Finder { target, kind, chain: Vec::new(), found: None, sc_rhs: Vec::new() };
    for root in &program.0 {
        if let RootExpr::Expr(e) = root.inner() {
            f.with(Link::Root, |s| s.expr(e));
        }
    }
    f.found
}

// ------------------------------------------------------------------------------------------
// the oracle

fn kind_of(message: &str) -> Option<Kind> {
    if message.starts_with("unused literal") {
        Some(Kind::Literal)
    } else if message.starts_with("unused object") {
        Some(Kind::Object)
    } else if message.starts_with("unused result for function call") {
        Some(Kind::Call)
    } else {
        None
    }
}

/// Is the flagged text, compiled on its own, unable to fail or abort? `false` when unknown.
fn standalone_infallible(text: &str) -> bool {
    match vrlx::compile(text) {
        Ok(res) => {
            let i = res.program.info();
            !i.fallible && !i.abortable && !text.contains("return") && !text.contains("abort")
        }
        Err(_) => false,
    }
}

#[derive(Clone, Copy)]
pub struct Excl {
    pub call_args: bool,
    pub object: bool,
    pub short_circuit: bool,
    pub after_closure: bool,
    pub bang_handled: bool,
}

/// Error texts that a program stores in its event (`ok, err = ...`) quote byte offsets of the
/// failing call (`at (157:184)`); editing the source shifts them. They are not behaviour.
fn strip_offsets(v: &vrl::value::Value) -> vrl::value::Value {
    use vrl::value::Value;
    static RE: std::sync::OnceLock<regex::Regex> = std::sync::OnceLock::new();
    let re = RE.get_or_init(|| regex::Regex::new(r"at \(\d+:\d+\)").unwrap());
    match v {
        Value::Bytes(b) => match std::str::from_utf8(b) {
            Ok(s) if s.contains(" at (") => Value::Bytes(re.replace_all(s, "at (_:_)").into_owned().into()),
            _ => v.clone(),
        },
        Value::Array(a) => Value::Array(a.iter().map(strip_offsets).collect()),
        Value::Object(o) => Value::Object(o.iter().map(|(k, x)| (k.clone(), strip_offsets(x))).collect()),
        _ => v.clone(),
    }
}

fn describe(out: &vrlx::RunOut) -> String {
    format!("{:?} event={} metadata={}", out.end, out.event, out.metadata)
}

pub fn check(c: &SloppyCase, ex: Excl) -> V {
    let src = c.src.as_str();
    let res = match vrlx::compile(src) {
        Ok(r) => r,
        Err(d) => {
            let code = vrlx::diag_codes(&d).first().copied().unwrap_or(0);
            return V::discard(crate::props::c22::intern(format!("rejected_E{code}")));
        }
    };
    let relevant: Vec<(Kind, usize, usize, String)> = res
        .warnings
        .iter()
        .filter(|w| w.code == 900)
        .filter_map(|w| {
            let k = kind_of(&w.message)?;
            let l = w.labels.first()?;
            Some((k, l.span.start(), l.span.end(), w.message.clone()))
        })
        .collect();
    if relevant.is_empty() {
        return V::pass().class("no_unused_result_warning");
    }
    let ast = match vrl::parser::parse(src) {
        Ok(a) => a,
        Err(e) => return V::fail(format!("the compiler accepted the program but the parser alone rejects it: {e}\n{src}")),
    };
    let event = c.event.to_value();
    let meta = c.meta.to_value();
    let p_out = vrlx::run(&res.program, event.clone(), meta.clone());

    let mut v = V::pass();
    let mut evaluated = 0usize;
    let mut excluded: Option<&'static str> = None;
    let mut nontrivial = false;
    for (kind, start, end, message) in &relevant {
        let (start, end) = (*start, *end);
        if start >= end || end > src.len() || !src.is_char_boundary(start) || !src.is_char_boundary(end) {
            return V::fail(format!("warning `{message}` carries the label span {start}..{end}, which is not a valid range of the source (len {})\n{src}", src.len()));
        }
        let text = &src[start..end];
        let Some(found) = locate(&ast, (start, end), *kind) else {
            return V::fail(format!("warning `{message}` carries the label span {start}..{end} (`{text}`), which is not the span of a {kind:?} node of the program\n{src}"));
        };
        // known-finding classes
        if found.inner_effect && *kind == Kind::Call && ex.call_args {
            excluded = Some(SW_CALL_ARGS);
            continue;
        }
        if found.inner_effect && *kind == Kind::Object && ex.object {
            excluded = Some(SW_OBJECT);
            continue;
        }
        if found.sc_rhs_effect && ex.short_circuit {
            excluded = Some(SW_SHORT_CIRCUIT);
            continue;
        }
        if found.after_closure && ex.after_closure {
            excluded = Some(SW_AFTER_CLOSURE);
            continue;
        }
        let infallible = standalone_infallible(text);
        if !infallible && found.under_handler && ex.bang_handled {
            excluded = Some(SW_BANG_HANDLED);
            continue;
        }
        if found.operand {
            // "deleting" an operand is not defined and `null` is not a type-preserving stand-in
            // (`null + 1` fails where `1 + 1` cannot)
            v = v.class("skipped_operand_of_discarded_operator");
            continue;
        }
        let operand = found.chain.iter().any(|l| matches!(l, Link::ScLhs | Link::ErrLhs));
        // same length as the flagged text where possible, so that offsets behind it do not move
        let p2_src = format!("{}{:<width$}{}", &src[..start], "null", &src[end..], width = end - start);
        let p2 = match vrlx::compile(&p2_src) {
            Ok(r) => r,
            Err(d) => {
                let codes = vrlx::diag_codes(&d);
                if codes.iter().all(|c| *c == 651 || *c == 104) {
                    v = v.class("skipped_deletion_makes_error_handler_unnecessary");
                    continue;
                }
                if operand {
                    v = v.class("skipped_operand_null_does_not_typecheck");
                    continue;
                }
                return V::fail(format!(
                    "warning `{message}` flags `{text}` ({start}..{end}) as unused, but the program no longer compiles when it is replaced by null: {}\n--- P\n{src}\n--- P'\n{p2_src}",
                    vrlx::diag_summary(&d)
                ));
            }
        };
        let p2_out = vrlx::run(&p2.program, event.clone(), meta.clone());
        let same_state = strip_offsets(&p_out.event) == strip_offsets(&p2_out.event) && strip_offsets(&p_out.metadata) == strip_offsets(&p2_out.metadata);
        let same_success = p_out.end.is_success() == p2_out.end.is_success();
        let bad = if infallible { !(same_state && same_success) } else { p_out.end.is_success() && !same_state };
        if bad {
            return V::fail(format!(
                "warning `{message}` flags `{text}` ({start}..{end}, {}) as unused, but replacing it by null changes the behaviour\n  P : {}\n  P': {}\n  input event={} metadata={}\n--- P\n{src}\n--- P'\n{p2_src}",
                if infallible { "infallible" } else { "fallible" },
                describe(&p_out),
                describe(&p2_out),
                event,
                meta
            ));
        }
        evaluated += 1;
        // classes
        let n_closure = found.chain.iter().filter(|l| **l == Link::Closure).count();
        let n_branch = found.chain.iter().filter(|l| **l == Link::Branch).count();
        let in_closure = n_closure > 0;
        let in_branch = n_branch > 0;
        let in_block = found.chain.iter().filter(|l| matches!(l, Link::BlockStmt { .. })).count() > n_closure + n_branch;
        let in_array = found.chain.iter().any(|l| matches!(l, Link::ArrayElem { .. }));
        let used_context = found.chain.iter().any(|l| matches!(l, Link::AssignRhs | Link::InfallibleRhs | Link::Arg | Link::ObjectVal | Link::OpRhs | Link::Pred { .. } | Link::Other));
        let top = found.chain.len() == 1;
        v = v
            .class(match kind {
                Kind::Literal => "flag_literal",
                Kind::Object => "flag_object",
                Kind::Call => {
                    if found.bang {
                        "flag_call_bang"
                    } else {
                        "flag_call"
                    }
                }
            })
            .class_if(top, "at_top_level")
            .class_if(in_block, "in_block")
            .class_if(in_branch, "in_branch")
            .class_if(in_closure, "in_closure_body")
            .class_if(in_array, "in_array")
            .class_if(found.chain.iter().any(|l| matches!(l, Link::Pred { .. })), "in_predicate")
            .class_if(found.under_handler, "under_error_handler")
            .class_if(found.after_closure, "after_closure_sibling")
            .class_if(used_context, "inside_used_construct")
            .class_if(operand, "left_operand_of_discarded_short_circuit_or_coalesce")
            .class_if(found.inner_effect, "effects_inside_flagged")
            .class_if(found.sc_rhs_effect, "effects_right_of_flagged_short_circuit_operand")
            .class(if infallible { "flagged_infallible" } else { "flagged_fallible_or_unknown" })
            .class_if(!infallible && p_out.end.is_success() && !p2_out.end.is_success(), "fallible_P_ok_P2_failed")
            .class_if(!p_out.end.is_success(), "P_failed")
            .class_if(p_out.end.is_success() != p2_out.end.is_success(), "success_differs_fallible");
        if !(top && *kind == Kind::Literal) {
            nontrivial = true;
        }
    }
    if evaluated == 0 {
        if let Some(sw) = excluded {
            return V::excluded(sw);
        }
        return V::discard("no_evaluable_warning");
    }
    v.class(match p_out.end {
        End::Ok(_) => "end_ok",
        End::Return(_) => "end_return",
        End::Error(_) => "end_error",
        End::Abort(_) => "end_abort",
        End::Other(_) => "end_other",
    })
    .class(match relevant.len() {
        1 => "warnings_1",
        2..=3 => "warnings_2_3",
        _ => "warnings_4_plus",
    })
    .nontrivial(nontrivial)
}

const NO_EXCL: Excl = Excl { call_args: false, object: false, short_circuit: false, after_closure: false, bang_handled: false };

fn opts(r: &Run, base: proggen::Preset) -> (Opts, Excl) {
    let ex = Excl {
        call_args: r.excluded(SW_CALL_ARGS),
        object: r.excluded(SW_OBJECT),
        short_circuit: r.excluded(SW_SHORT_CIRCUIT),
        after_closure: r.excluded(SW_AFTER_CLOSURE),
        bang_handled: r.excluded(SW_BANG_HANDLED),
    };
    let o = Opts {
        base,
        no_effects_in_discarded_call_args: ex.call_args,
        no_effects_in_discarded_object: ex.object,
        no_effects_right_of_discarded_short_circuit: ex.short_circuit,
        no_sibling_after_closure: ex.after_closure,
        no_bang_under_handler: ex.bang_handled,
    };
    (o, ex)
}

pub fn run(r: &mut Run) {
    r.enumerate("pinned_sources", pinned(), |c: &SloppyCase| check(c, NO_EXCL));
    let base = proggen::Preset { returns: 1, aborts: 1, closures: 3, ..proggen::BASE };
    let (o, ex) = opts(r, base);
    r.sub("sloppy_programs", 24_000, 2_400_000, move || sloppy::strategy(o), move |c: &SloppyCase| check(c, ex));
    let closures = proggen::Preset { returns: 0, aborts: 0, closures: 8, coalesce: 4, ..proggen::BASE };
    let (o2, ex2) = opts(r, closures);
    r.sub("sloppy_closure_heavy", 10_000, 1_000_000, move || sloppy::strategy(o2), move |c: &SloppyCase| check(c, ex2));
}

/// hand-written sources that must stay silent: every statement position with removable junk
fn pinned() -> Vec<SloppyCase> {
    let ev = TV::obj([
        ("a".to_string(), TV::Int(1)),
        ("s".to_string(), TV::str("12")),
        ("flag".to_string(), TV::Bool(false)),
        ("arr".to_string(), TV::Array(vec![TV::Int(1), TV::Int(2)])),
    ]);
    let empty = TV::obj([]);
    [
        "\"lit\"\nupcase(\"a\")\n.y = 1\n.",
        "[1, upcase(\"a\"), { .x = 1; 2 }]\n.",
        "for_each([1]) -> |_i, _v| { \"lit\"; to_int!(.a); .z = 1 }\n.",
        ".q = if .a == 1 { \"lit\"; 3 } else { [1]; 4 }\n.",
        ".q = { upcase(\"a\"); to_int!(.s); 1 }\n.",
        "{ \"lit\"; parse_json(.s) } ?? 1\n.",
        "to_int!(.zz)\n.y = 1\n.",
        "del(.a)\n.",
        "(upcase(\"a\"))\n.",
        "if (\"lit\"; .a == 1) { .b = 2 }\n.",
    ]
    .iter()
    .map(|s| SloppyCase { src: (*s).to_string(), event: ev.clone(), meta: empty.clone() })
    .collect()
}
