//! C33 — diagnostics are always renderable and point into the source.
//!
//! Source texts are real programs (the `*.vrl` files of the vrl test-suite and the examples of
//! every stdlib function) mutated at token, character and line level, plus a small structured
//! generator for assignments through paths whose parent has the wrong kind (the
//! `verify_overwritable` span reconstruction).  The case carries the final source text.

use std::collections::BTreeMap;
use std::fmt::Write as _;
use std::panic::{catch_unwind, AssertUnwindSafe};
use std::path::{Path, PathBuf};
use std::sync::{Mutex, OnceLock};

use proptest::prelude::*;
use serde::{Deserialize, Serialize};
use vrl::compiler::state::ExternalEnv;
use vrl::compiler::CompileConfig;
use vrl::diagnostic::{Diagnostic, DiagnosticList, Formatter};
use vrl::path::{OwnedTargetPath, OwnedValuePath};
use vrl::value::kind::Collection;
use vrl::value::Kind;

use crate::engine::{panics, Run, V};
use crate::vrlx;

pub const RULE: &str = "cases = source texts of at most 4 KiB and bracket nesting <= 40: a corpus program (every *.vrl file under /repo/lib/tests/tests plus the `source` of every example of every stdlib function, loaded once at run time; the case stores the final text) after 0..6 mutations drawn from: delete/duplicate/swap/copy/replace/insert a token, delete/insert/replace a character (incl. multi-byte ones), truncate, delete/duplicate/swap/join lines, LF->CRLF, line window, prepend a line with multi-byte characters, insert valid and invalid escape sequences / template markers / multi-byte characters into string literals, drop a closing quote, replace an identifier by a non-ASCII one, put a multi-byte whitespace character (U+2028, U+00A0, U+3000, ..) directly before/after a token or in place of a run of blanks, append or insert snippets that provoke compiler errors and warnings; a second generator writes `<root> = <scalar>` followed by an assignment through a quoted/indexed path below it (escapes, multi-byte, `[0_0]` spellings). Each text is compiled (default external environment; 3 in 16 with the event root or `.a` read-only or with the external event typed `integer`); the DiagnosticList examined is the error list on Err and the warnings on Ok. Non-trivial = at least one diagnostic other than a parse error whose labels all start at offset 0, and the source has a non-ASCII character or at least two lines. Distinct = distinct source texts.";
pub const NOTE: &str = "failure signatures are `<site>:<boundary class>` where site is the diagnostic code (E207, E642, ..) unless the bad offset itself identifies the root cause (comment_tail, E203_rquery: see site_of; not applied to E207/E209/E642/E701, whose labels come from their own span arithmetic). Setting C33_SURVEY=1 (never done by ./check) turns signature-classified failures into class labels for triage. A panic of the compiler itself is not a diagnostic; it is reported under signature compile_panic@<file>:<line> so that known C04 panics (D33: parse_proto/encode_proto with an unloadable descriptor) can be tolerated without stopping the search. Rendering is exercised through the public Formatter (plain and coloured) exactly as vrl's CLI does.";

pub const MAX_SRC: usize = 4096;
pub const MAX_DEPTH: usize = 40;

#[derive(Clone, Debug, Serialize, Deserialize)]
pub struct SrcCase {
    pub src: String,
    /// 0 = default config, 1 = whole event + metadata read-only, 2 = `.a` read-only (recursive),
    /// 3 = external event typed `integer` and metadata typed `{}` (root-level parent-kind errors)
    #[serde(default)]
    pub cfg: u8,
}

// ------------------------------------------------------------------------------------------
// corpus

fn walk(dir: &Path, out: &mut Vec<PathBuf>) {
    let Ok(rd) = std::fs::read_dir(dir) else { return };
    let mut entries: Vec<PathBuf> = rd.filter_map(|e| e.ok().map(|e| e.path())).collect();
    entries.sort();
    for p in entries {
        if p.is_dir() {
            walk(&p, out);
        } else if p.extension().is_some_and(|e| e == "vrl") {
            out.push(p);
        }
    }
}

pub struct Corpus {
    pub items: Vec<String>,
    pub files: usize,
    pub examples: usize,
}

/// Real programs: test-suite files (sorted by path) then stdlib examples (registry order).
pub fn corpus() -> &'static Corpus {
    static C: OnceLock<Corpus> = OnceLock::new();
    C.get_or_init(|| {
        let mut items = Vec::new();
        let mut paths = Vec::new();
        walk(Path::new("/repo/lib/tests/tests"), &mut paths);
        for p in &paths {
            if let Ok(s) = std::fs::read_to_string(p) {
                if !s.is_empty() && s.len() <= MAX_SRC && depth_of(&s) <= MAX_DEPTH {
                    items.push(s);
                }
            }
        }
        let files = items.len();
        for f in vrlx::fns() {
            for ex in f.examples() {
                let s = ex.source.to_string();
                if !s.is_empty() && s.len() <= MAX_SRC && depth_of(&s) <= MAX_DEPTH {
                    items.push(s);
                }
            }
        }
        let examples = items.len() - files;
        if items.is_empty() {
            items.push(".a = 1\n".to_string());
        }
        Corpus { items, files, examples }
    })
}

/// an index literal above 999 (`a[1_000_000_000] = 1`): the type of the assignment lists every
/// hole in front of it and the run-time array is padded up to it — gigabytes of memory from a few
/// bytes of source, which the statement of C04 puts out of scope (memory exhaustion); already
/// `.a[21_000].b = ..` followed by `unnest(.a)` keeps the type checker busy for more than ten
/// minutes (type operations quadratic in the number of known indices)
pub fn huge_index(s: &str) -> bool {
    let b = s.as_bytes();
    let mut i = 0;
    while i < b.len() {
        if b[i] == b'[' {
            let mut j = i + 1;
            while j < b.len() && (b[j] == b' ' || b[j] == b'-') {
                j += 1;
            }
            let mut digits = 0usize;
            let mut significant = false;
            while j < b.len() && (b[j].is_ascii_digit() || b[j] == b'_') {
                if b[j].is_ascii_digit() {
                    if b[j] != b'0' {
                        significant = true;
                    }
                    if significant {
                        digits += 1;
                    }
                }
                j += 1;
            }
            if digits > 3 {
                return true;
            }
        }
        i += 1;
    }
    false
}

/// naive nesting estimate: open brackets (strings are not skipped: an over-estimate) and runs of
/// prefix operators; the comment part of a line is ignored. A source with a huge index literal
/// counts as over every bound (see [`huge_index`]).
pub fn depth_of(s: &str) -> usize {
    if huge_index(s) {
        return usize::MAX / 2;
    }
    let mut d = 0usize;
    let mut max = 0usize;
    let mut run = 0usize;
    for line in s.split('\n') {
        let code = line.split('#').next().unwrap_or("");
        for b in code.bytes() {
            match b {
                b'(' | b'[' | b'{' => {
                    d += 1;
                    max = max.max(d);
                }
                b')' | b']' | b'}' => d = d.saturating_sub(1),
                _ => {}
            }
            if b == b'!' || b == b'-' {
                run += 1;
                max = max.max(run);
            } else if !b.is_ascii_whitespace() {
                run = 0;
            }
        }
    }
    max
}

// ------------------------------------------------------------------------------------------
// tokens

#[derive(Clone, Copy, PartialEq, Eq, Debug)]
enum TK {
    Space,
    Newline,
    Comment,
    Str,
    Quoted,
    Word,
    Punct,
}

fn tokenize(s: &str) -> Vec<(usize, usize, TK)> {
    let b = s.as_bytes();
    let mut out = Vec::new();
    let mut i = 0usize;
    let is_word = |c: u8| c.is_ascii_alphanumeric() || c == b'_' || c == b'@';
    while i < b.len() {
        let start = i;
        let c = b[i];
        let kind;
        if c == b' ' || c == b'\t' {
            while i < b.len() && (b[i] == b' ' || b[i] == b'\t') {
                i += 1;
            }
            kind = TK::Space;
        } else if c == b'\n' {
            i += 1;
            kind = TK::Newline;
        } else if c == b'\r' && b.get(i + 1) == Some(&b'\n') {
            i += 2;
            kind = TK::Newline;
        } else if c == b'#' {
            while i < b.len() && b[i] != b'\n' {
                i += 1;
            }
            kind = TK::Comment;
        } else if c == b'"' {
            i += 1;
            while i < b.len() {
                if b[i] == b'\\' {
                    i = (i + 2).min(b.len());
                } else if b[i] == b'"' {
                    i += 1;
                    break;
                } else {
                    i += 1;
                }
            }
            kind = TK::Str;
        } else if matches!(c, b's' | b'r' | b't') && b.get(i + 1) == Some(&b'\'') {
            i += 2;
            while i < b.len() {
                if b[i] == b'\\' {
                    i = (i + 2).min(b.len());
                } else if b[i] == b'\'' {
                    i += 1;
                    break;
                } else if b[i] == b'\n' {
                    break;
                } else {
                    i += 1;
                }
            }
            kind = TK::Quoted;
        } else if is_word(c) {
            while i < b.len() && is_word(b[i]) {
                i += 1;
            }
            kind = TK::Word;
        } else if c < 0x80 {
            let two = b.get(i + 1).copied();
            let pair = matches!(
                (c, two),
                (b'=', Some(b'=')) | (b'!', Some(b'=')) | (b'?', Some(b'?')) | (b'|', Some(b'|')) | (b'&', Some(b'&')) | (b'|', Some(b'=')) | (b'-', Some(b'>')) | (b'<', Some(b'=')) | (b'>', Some(b'='))
            );
            i += if pair { 2 } else { 1 };
            kind = TK::Punct;
        } else {
            // one multi-byte character
            i += 1;
            while i < b.len() && (b[i] & 0xC0) == 0x80 {
                i += 1;
            }
            kind = TK::Punct;
        }
        // never split inside a character
        while i < b.len() && !s.is_char_boundary(i) {
            i += 1;
        }
        out.push((start, i, kind));
    }
    out
}

const POOL: &[&str] = &[
    "if", "else", "{", "}", "(", ")", "[", "]", ",", ";", "=", "==", "!=", "|=", "??", "||", "&&", "!", "-", "+", "*", "/", ".", "%", "->", "|", ":", "?",
    "null", "true", "false", "abort", "return", "\"", "'", "s'", "r'", "t'", "\\", "#", "\n", "\r\n", "_", " ", "\t",
    ".é", "\"é\"", "日", "😀", "é", "\u{0301}", "\u{200b}", "\u{feff}", "\u{2028}", "1.", "1.5", "0x", "99999999999999999999", "1_000", "-1", "1.7976931348623157e309",
    ".a", ".a.b", ".a[0]", "%m", "x", "err", "upcase(", "to_string!(", "del(", "to_int(", ")", "\"日本語\"", "s'é'", "r'(é'", "t'日'", "t'2020-01-01T00:00:00Z'",
    "\"{{ x }}\"", "\"{{\"", "\"\\u{65e5}\"", "\"\\q\"", ".\"é\"", ".\"a\\tb\"", "[0_0]", "array", "for", "while", "string",
];

const CHARS: &[char] = &[
    'é', '日', '😀', '\u{0301}', '\u{200b}', '\u{feff}', '\u{2028}', '\u{a0}', 'ß', '\u{10ffff}', '"', '\'', '\\', '\n', '\r', '\t', ' ', '.', '%', '(', ')', '[', ']', '{', '}', '=', '!', '?',
    '|', '-', '+', '#', ',', ';', ':', '@', '_', 'a', '0', '\0', '\u{7f}', '$', '~', '`', '^', '&', '<', '>', '/', '*',
];

const PREFIXES: &[&str] = &[
    "# 日本語 é😀\n",
    ".m = \"日本😀\"\n",
    "x = \"é\"\n",
    "# \u{feff}\u{2028}é\r\n",
    "é = 1\n",
    ".\"日\" = \"本\"; ",
    "\u{feff}",
    "\"é\"\n",
];

const STR_INSERTS: &[&str] = &[
    "\\n", "\\t", "\\\\", "\\\"", "\\'", "\\0", "\\{", "\\}", "\\q", "\\x41", "\\u{41}", "\\u{65e5}", "\\u{110000}", "\\u{}", "\\u{zz}", "\\u{d800}", "\\u", "\\u{41", "\\日", "\\é", "\\😀", "\\",
    "{{ x }}", "{{ .a }}", "{{", "}}", "\\{{", "\\}}", "{{ 日 }}", "{{ é", "日", "é", "😀", "\u{0301}", "\r\n", "\n", "\\\n  ", "\"", "'",
];

const IDENTS: &[&str] = &["é", "a日", "_😀", "日本", "xé", "ß", "a\u{0301}", "@é", "İ", "ǆ", "\u{200b}a"];

const SNIPPETS: &[&str] = &[
    ".a = 1\n.a.\"日\\t\\t\" = 2",
    "x = \"s\"\nx.b[0] = 1",
    "x = 1\nx.\"é\\n\\n\".y = 2",
    "upcase(5)",
    "upcase(\"é\", \"日\")",
    "upcase(valu: \"日\")",
    "\"é\" + 1",
    "to_string(\"日本\") ?? 1",
    "abort \"é\" + 1",
    "\"日本\"\n.a",
    "[\"é\", 1]\n.b",
    ".x = to_int(\"é\")",
    ".x = to_int!(\"é\")",
    "if \"é\" { 1 }",
    "\"é\" == ",
    "foo(\"é\")",
    "parse_json!(\"é\", max_depth: \"日\")",
    "r'(é'",
    "t'日'",
    "1 / 0",
    "del(x)",
    "é",
    ".é = 1",
    "x = { \"日\": 1 }\nx.日",
    "ok, err = \"é\"",
    ".a, err = to_int(\"é\")\n",
    "ok, err = to_string(\"é\")",
    "parse_regex!(\"é\", r'(?P<é>.)')",
    "match(\"é\", r'[')",
    "parse_grok!(\"é\", \"%{NOPE:日}\")",
    "to_timestamp!(\"é\", unit: \"日\")",
    "format_timestamp!(now(), format: \"%é\")",
    "\"a\" ?? \"é\"",
    "!\"é\"",
    "-\"é\"",
    "null.é",
    "{ \"é\": 1 }.é.a = 1",
    "for_each({\"é\": 1}) -> |k| { k }",
    "for_each({\"é\": 1}) -> |k, v| { x = \"日\" }",
    "map_values({\"é\": 1}) -> |v| { \"日\" + v }",
    "return",
    "return \"é\" + 1",
    "abort 1",
    "x = \"日\"\nx = 1\n\"é\"",
    "_ = \"é\"\n_",
    "if true { \"é\" } else { \"日\" }\n1",
    ". = 1",
    "% = \"é\"",
    ".a |= \"é\"",
    "\"é\" = 1",
    "1 = \"é\"",
    "a.b.c = \"é\"",
    "true && \"é\"",
    "true || to_int(\"é\")",
    ".a = \"é\" ?? to_int(.b)",
    "to_int(.a) ?? \"é\" ?? 1",
    "encode_json(\"é\") ?? 1",
    "assert!(\"é\")",
    "get!(., [\"é\", 1.5])",
    "set!(., [true], \"é\")",
    "replace(\"é\", r'é', with: 1)",
    "format_int!(1, base: \"é\")",
    "parse_key_value!(\"é\", whitespace: \"日\")",
    "encode_base64(\"é\", charset: \"日\")",
    "\"é",
    "s'é",
    "\"é\\",
    "\"é\\日\"",
    ".a.\"é",
    "{ \"é\": }",
    "[\"é\", ]]",
    "((\"é\")",
    "# é\n\n\n\"日\"\n\"本\"",
];

// ------------------------------------------------------------------------------------------
// mutations

#[derive(Clone, Debug)]
struct Mutation {
    kind: u8,
    a: u16,
    b: u16,
    k: u16,
}

const KINDS: u8 = 26;

/// multi-byte characters the lexer skips as whitespace (`char::is_whitespace`)
const WS_CHARS: &[char] = &['\u{2028}', '\u{a0}', '\u{3000}', '\u{2029}', '\u{85}', '\u{2003}', '\u{1680}', '\u{202f}'];

fn ix(a: u16, n: usize) -> usize {
    if n == 0 {
        0
    } else {
        ((a as usize) * n) >> 16
    }
}

fn char_pos(s: &str, a: u16) -> usize {
    // byte offset of the ix-th character boundary (0..=chars)
    let n = s.chars().count();
    let k = ix(a, n + 1);
    s.char_indices().nth(k).map_or(s.len(), |(i, _)| i)
}

fn lines(s: &str) -> Vec<&str> {
    s.split_inclusive('\n').collect()
}

fn apply(src: &str, m: &Mutation) -> String {
    let toks = tokenize(src);
    let text = |t: &(usize, usize, TK)| &src[t.0..t.1];
    match m.kind {
        // ---- tokens
        0 => {
            if toks.is_empty() {
                return src.to_string();
            }
            let t = toks[ix(m.a, toks.len())];
            format!("{}{}", &src[..t.0], &src[t.1..])
        }
        1 => {
            if toks.is_empty() {
                return src.to_string();
            }
            let t = toks[ix(m.a, toks.len())];
            format!("{}{}{}", &src[..t.1], text(&t), &src[t.1..])
        }
        2 => {
            if toks.len() < 2 {
                return src.to_string();
            }
            let (mut i, mut j) = (ix(m.a, toks.len()), ix(m.b, toks.len()));
            if i == j {
                return src.to_string();
            }
            if i > j {
                std::mem::swap(&mut i, &mut j);
            }
            let (ti, tj) = (toks[i], toks[j]);
            format!("{}{}{}{}{}", &src[..ti.0], text(&tj), &src[ti.1..tj.0], text(&ti), &src[tj.1..])
        }
        3 => {
            if toks.is_empty() {
                return src.to_string();
            }
            let t = toks[ix(m.a, toks.len())];
            format!("{}{}{}", &src[..t.0], POOL[m.k as usize % POOL.len()], &src[t.1..])
        }
        4 => {
            let at = if toks.is_empty() { 0 } else { toks[ix(m.a, toks.len())].0 };
            format!("{}{}{}", &src[..at], POOL[m.k as usize % POOL.len()], &src[at..])
        }
        5 => {
            if toks.is_empty() {
                return src.to_string();
            }
            let t = toks[ix(m.a, toks.len())];
            let u = toks[ix(m.b, toks.len())];
            format!("{}{}{}", &src[..t.0], text(&u), &src[t.1..])
        }
        // ---- characters
        6 => {
            let at = char_pos(src, m.a);
            match src[at..].chars().next() {
                Some(c) => format!("{}{}", &src[..at], &src[at + c.len_utf8()..]),
                None => src.to_string(),
            }
        }
        7 => {
            let at = char_pos(src, m.a);
            format!("{}{}{}", &src[..at], CHARS[m.k as usize % CHARS.len()], &src[at..])
        }
        8 => {
            let at = char_pos(src, m.a);
            match src[at..].chars().next() {
                Some(c) => format!("{}{}{}", &src[..at], CHARS[m.k as usize % CHARS.len()], &src[at + c.len_utf8()..]),
                None => src.to_string(),
            }
        }
        9 => src[..char_pos(src, m.a)].to_string(),
        // ---- lines
        10 => {
            let ls = lines(src);
            if ls.len() < 2 {
                return src.to_string();
            }
            let i = ix(m.a, ls.len());
            ls.iter().enumerate().filter(|(j, _)| *j != i).map(|(_, l)| *l).collect()
        }
        11 => {
            let ls = lines(src);
            if ls.is_empty() {
                return src.to_string();
            }
            let i = ix(m.a, ls.len());
            let mut out = String::new();
            for (j, l) in ls.iter().enumerate() {
                out.push_str(l);
                if j == i {
                    if !l.ends_with('\n') {
                        out.push('\n');
                    }
                    out.push_str(l);
                }
            }
            out
        }
        12 => {
            let mut ls: Vec<String> = lines(src).into_iter().map(str::to_string).collect();
            if ls.len() < 2 {
                return src.to_string();
            }
            let (i, j) = (ix(m.a, ls.len()), ix(m.b, ls.len()));
            if let Some(l) = ls.last_mut() {
                if !l.ends_with('\n') {
                    l.push('\n');
                }
            }
            ls.swap(i, j);
            ls.concat()
        }
        13 => {
            let ls = lines(src);
            if ls.len() < 2 {
                return src.to_string();
            }
            let i = ix(m.a, ls.len() - 1);
            let mut out = String::new();
            for (j, l) in ls.iter().enumerate() {
                if j == i {
                    out.push_str(l.trim_end_matches(['\n', '\r']));
                    if m.k % 2 == 0 {
                        out.push(' ');
                    }
                } else {
                    out.push_str(l);
                }
            }
            out
        }
        14 => src.replace("\r\n", "\n").replace('\n', "\r\n"),
        15 => {
            let ls = lines(src);
            if ls.is_empty() {
                return src.to_string();
            }
            let i = ix(m.a, ls.len());
            let mut out = String::new();
            for (j, l) in ls.iter().enumerate() {
                if j == i && l.ends_with('\n') && !l.ends_with("\r\n") {
                    out.push_str(&l[..l.len() - 1]);
                    out.push_str("\r\n");
                } else {
                    out.push_str(l);
                }
            }
            out
        }
        16 => {
            let ls = lines(src);
            if ls.len() < 2 {
                return src.to_string();
            }
            let (mut i, mut j) = (ix(m.a, ls.len()), ix(m.b, ls.len()));
            if i > j {
                std::mem::swap(&mut i, &mut j);
            }
            ls[i..=j].concat()
        }
        // ---- targeted
        17 => format!("{}{}", PREFIXES[m.k as usize % PREFIXES.len()], src),
        18 => {
            let strs: Vec<_> = toks.iter().filter(|t| t.2 == TK::Str || t.2 == TK::Quoted).collect();
            if strs.is_empty() {
                return src.to_string();
            }
            let t = strs[ix(m.a, strs.len())];
            let inner = &src[t.0..t.1];
            // an inner character boundary strictly after the opening quote
            let open = if t.2 == TK::Str { 1 } else { 2 };
            let bounds: Vec<usize> = inner.char_indices().map(|(i, _)| i).filter(|i| *i >= open).chain(std::iter::once(inner.len())).collect();
            let at = t.0 + bounds[ix(m.b, bounds.len())].min(inner.len());
            format!("{}{}{}", &src[..at], STR_INSERTS[m.k as usize % STR_INSERTS.len()], &src[at..])
        }
        19 => {
            let strs: Vec<_> = toks.iter().filter(|t| (t.2 == TK::Str || t.2 == TK::Quoted) && t.1 - t.0 >= 2).collect();
            if strs.is_empty() {
                return src.to_string();
            }
            let t = strs[ix(m.a, strs.len())];
            let last = src[t.0..t.1].chars().last().unwrap_or(' ');
            if last == '"' || last == '\'' {
                format!("{}{}", &src[..t.1 - 1], &src[t.1..])
            } else {
                src.to_string()
            }
        }
        20 => {
            let words: Vec<_> = toks.iter().filter(|t| t.2 == TK::Word).collect();
            if words.is_empty() {
                return src.to_string();
            }
            let t = words[ix(m.a, words.len())];
            let id = IDENTS[m.k as usize % IDENTS.len()];
            match m.b % 3 {
                0 => format!("{}{}{}", &src[..t.0], id, &src[t.1..]),
                1 => format!("{}{}{}", &src[..t.1], id, &src[t.1..]),
                _ => format!("{}{}{}", &src[..t.0], id, &src[t.0..]),
            }
        }
        21 => {
            let sep = if src.is_empty() || src.ends_with('\n') { "" } else { "\n" };
            format!("{src}{sep}{}\n", SNIPPETS[m.k as usize % SNIPPETS.len()])
        }
        22 => {
            let ls = lines(src);
            let i = ix(m.a, ls.len() + 1);
            let mut out = String::new();
            for (j, l) in ls.iter().enumerate() {
                if j == i {
                    out.push_str(SNIPPETS[m.k as usize % SNIPPETS.len()]);
                    out.push('\n');
                }
                out.push_str(l);
            }
            if i >= ls.len() {
                if !out.is_empty() && !out.ends_with('\n') {
                    out.push('\n');
                }
                out.push_str(SNIPPETS[m.k as usize % SNIPPETS.len()]);
            }
            out
        }
        // multi-byte whitespace right before / after a token: the program keeps its meaning, every
        // span next to it must still be a valid range
        24 => {
            let sig: Vec<_> = toks.iter().filter(|t| !matches!(t.2, TK::Space | TK::Newline | TK::Comment)).collect();
            if sig.is_empty() {
                return src.to_string();
            }
            let t = sig[ix(m.a, sig.len())];
            let at = if m.b % 2 == 0 { t.0 } else { t.1 };
            format!("{}{}{}", &src[..at], WS_CHARS[m.k as usize % WS_CHARS.len()], &src[at..])
        }
        // a run of blanks becomes one multi-byte whitespace character
        25 => {
            let sp: Vec<_> = toks.iter().filter(|t| t.2 == TK::Space).collect();
            if sp.is_empty() {
                return src.to_string();
            }
            let t = sp[ix(m.a, sp.len())];
            format!("{}{}{}", &src[..t.0], WS_CHARS[m.k as usize % WS_CHARS.len()], &src[t.1..])
        }
        // a multi-byte comment at the end of some line (moves nothing, but sits next to spans)
        _ => {
            let ls = lines(src);
            if ls.is_empty() {
                return "# 日本".to_string();
            }
            let i = ix(m.a, ls.len());
            let mut out = String::new();
            for (j, l) in ls.iter().enumerate() {
                if j == i {
                    let body = l.trim_end_matches(['\n', '\r']);
                    out.push_str(body);
                    out.push_str(" # 日本😀");
                    out.push_str(&l[body.len()..]);
                } else {
                    out.push_str(l);
                }
            }
            out
        }
    }
}

fn mutation() -> impl Strategy<Value = Mutation> {
    (
        prop_oneof![
            // token level
            8 => 0u8..6,
            // character level
            5 => 6u8..10,
            // line level
            5 => 10u8..17,
            // targeted (prefix lines, string edits, identifiers, comments)
            8 => prop_oneof![Just(17u8), Just(18u8), Just(19u8), Just(20u8), Just(23u8)],
            // multi-byte whitespace next to tokens
            5 => 24u8..KINDS,
            // snippets that provoke compiler diagnostics
            8 => 21u8..23,
        ],
        any::<u16>(),
        any::<u16>(),
        any::<u16>(),
    )
        .prop_map(|(kind, a, b, k)| Mutation { kind, a, b, k })
}

fn bounded(base: &str, s: String) -> String {
    if s.len() <= MAX_SRC && depth_of(&s) <= MAX_DEPTH {
        s
    } else if base.len() <= MAX_SRC && depth_of(base) <= MAX_DEPTH {
        base.to_string()
    } else {
        ".a = 1\n".to_string()
    }
}

fn cfg_strategy() -> impl Strategy<Value = u8> {
    prop_oneof![13 => Just(0u8), 1 => Just(1u8), 1 => Just(2u8), 1 => Just(3u8)]
}

pub fn mutated_corpus() -> impl Strategy<Value = SrcCase> {
    let count = prop_oneof![1 => Just(0usize), 6 => Just(1usize), 5 => Just(2usize), 3 => Just(3usize), 2 => 4usize..=6];
    let muts = count.prop_flat_map(|n| proptest::collection::vec(mutation(), n..=n));
    (any::<u32>(), muts, cfg_strategy()).prop_map(|(i, muts, cfg)| {
        let c = corpus();
        let base = c.items[i as usize % c.items.len()].as_str();
        let mut s = base.to_string();
        for m in &muts {
            let next = apply(&s, m);
            if next.len() > MAX_SRC || depth_of(&next) > MAX_DEPTH {
                break;
            }
            s = next;
        }
        SrcCase { src: bounded(base, s), cfg }
    })
}

const ROOTS: &[&str] = &[".a", "x", "%m", ".", ".\"é\"", "y.z", ".a[0]", "%"];
const SCALARS: &[&str] = &["1", "\"s\"", "true", "null", "[1]", "{\"k\": 1}", "1.5", "\"日\"", "[[\"é\"]]", "{\"é\": {\"日\": 1}}", "to_string!(.q)", "now()"];
const SEGS: &[&str] = &[
    ".b", ".\"é\"", ".\"日\\t\\t\"", ".\"a b\"", ".\"\\u{65e5}x\"", "[0]", "[00]", "[0_0]", "[-1]", ".\"q\\\"q\"", ".@t", "\"é\"", ".k", ".\"é\\n\"", ".\"😀😀\\\\\"", "[1_0]", ".\"\"", ".if",
    ".\"日本語\\0\\0\\0\"", ".é", ".\"{{ x }}\"", ".\"a\\{b\"", ".\"{{x}}\"", ".\"{{x}}{{x}}{{x}}\"",
];
const RHS: &[&str] = &["2", "\"é\"", "to_int(.q)", "{ \"日\": 1 }", "upcase(\"é\")"];

pub fn assignment_targets() -> impl Strategy<Value = SrcCase> {
    (
        prop_oneof![3 => Just(usize::MAX), 2 => 0..PREFIXES.len()],
        0..ROOTS.len(),
        0..SCALARS.len(),
        proptest::collection::vec(0..SEGS.len(), 1..=4),
        0..RHS.len(),
        0u8..6,
        cfg_strategy(),
    )
        .prop_map(|(pre, root, scalar, segs, rhs, form, cfg)| {
            let mut s = String::new();
            if pre != usize::MAX {
                s.push_str(PREFIXES[pre]);
            }
            let root = ROOTS[root];
            let path: String = segs.iter().map(|i| SEGS[*i]).collect();
            let _ = writeln!(s, "{root} = {}", SCALARS[scalar]);
            let rhs = RHS[rhs];
            match form {
                0 | 1 | 2 => {
                    let _ = writeln!(s, "{root}{path} = {rhs}");
                }
                3 => {
                    let _ = writeln!(s, "{root}{path}, err = {rhs}");
                }
                4 => {
                    let _ = writeln!(s, "ok, {root}{path} = {rhs}");
                }
                _ => {
                    let _ = writeln!(s, "{root}{path} |= {rhs} # 日本");
                }
            }
            SrcCase { src: s, cfg }
        })
}

// ------------------------------------------------------------------------------------------
// oracle

fn code_label(code: usize) -> &'static str {
    static M: OnceLock<Mutex<BTreeMap<usize, &'static str>>> = OnceLock::new();
    let mut g = M.get_or_init(|| Mutex::new(BTreeMap::new())).lock().unwrap();
    g.entry(code).or_insert_with(|| Box::leak(format!("E{code:03}").into_boxed_str()))
}

pub fn external(cfg: u8) -> ExternalEnv {
    if cfg == 3 {
        ExternalEnv::new_with_kind(Kind::integer(), Kind::object(Collection::empty()))
    } else {
        ExternalEnv::default()
    }
}

pub fn config(cfg: u8) -> CompileConfig {
    let mut c = CompileConfig::default();
    match cfg {
        1 => c.set_read_only(),
        2 => c.set_read_only_path(OwnedTargetPath::event(OwnedValuePath::single_field("a")), true),
        _ => {}
    }
    c
}

/// first boundary problem of a label span, if any
fn span_problem(src: &str, start: usize, end: usize) -> Option<&'static str> {
    if start > end {
        Some("start_after_end")
    } else if start > src.len() {
        Some("start_beyond_source")
    } else if end > src.len() {
        Some("end_beyond_source")
    } else if !src.is_char_boundary(start) {
        Some("start_inside_char")
    } else if !src.is_char_boundary(end) {
        Some("end_inside_char")
    } else {
        None
    }
}

/// Where a bad offset sits, when that identifies the root cause better than the diagnostic code:
/// `comment_tail` = inside the last character of a `#` comment (the lexer's 1-byte RQuery token
/// placed on the last character of its look-ahead, visible through ANY diagnostic that uses the
/// span of a query directly followed by a comment).
fn site_of(src: &str, off: usize) -> Option<&'static str> {
    if off >= src.len() || src.is_char_boundary(off) {
        return None;
    }
    let mut cstart = off;
    while !src.is_char_boundary(cstart) {
        cstart -= 1;
    }
    let c = src[cstart..].chars().next()?;
    let cend = cstart + c.len_utf8();
    let line_start = src[..cstart].rfind('\n').map_or(0, |i| i + 1);
    let last_on_line = matches!(src[cend..].chars().next(), None | Some('\n' | '\r'));
    if last_on_line && src[line_start..cstart].contains('#') {
        return Some("comment_tail");
    }
    None
}

fn describe(d: &Diagnostic) -> String {
    let labels: Vec<String> = d.labels.iter().map(|l| format!("({},{}) {:?}", l.span.start(), l.span.end(), l.message)).collect();
    format!("E{:03} [{:?}] {:?} labels: {}", d.code, d.severity, d.message, labels.join("; "))
}

/// `C33_SURVEY=1` turns signature-classified failures into passes labelled with the signature, so
/// that one run lists every signature (generator health / triage aid; never set by ./check).
pub fn check(c: &SrcCase) -> V {
    let v = check_inner(c);
    if let crate::engine::Outcome::Fail { sig: Some(sig), .. } = &v.outcome {
        if std::env::var_os("C33_SURVEY").is_some() {
            static M: OnceLock<Mutex<BTreeMap<String, &'static str>>> = OnceLock::new();
            let mut g = M.get_or_init(|| Mutex::new(BTreeMap::new())).lock().unwrap();
            let label: &'static str = g.entry(sig.clone()).or_insert_with(|| Box::leak(format!("SURVEY {sig}").into_boxed_str()));
            return V::pass().class(label);
        }
    }
    v
}

fn check_inner(c: &SrcCase) -> V {
    let src = c.src.as_str();
    if src.len() > MAX_SRC {
        return V::discard("source_longer_than_4KiB");
    }
    if huge_index(src) {
        return V::discard("index_literal_above_999_out_of_scope");
    }
    if depth_of(src) > MAX_DEPTH {
        return V::discard("nesting_deeper_than_40");
    }
    panics::clear_last();
    let compiled = catch_unwind(AssertUnwindSafe(|| vrlx::compile_cfg(src, &external(c.cfg), config(c.cfg))));
    let (list, is_err): (DiagnosticList, bool) = match compiled {
        Ok(Ok(res)) => (res.warnings, false),
        Ok(Err(list)) => (list, true),
        Err(payload) => {
            let (loc, msg) = panics::last().unwrap_or_else(|| ("unknown".to_string(), panics::payload_str(&payload)));
            return V::fail_sig(format!("compile_panic@{loc}"), format!("the compiler panicked at {loc}: {msg} (source {src:?})"));
        }
    };

    // (1) label positions
    for d in list.iter() {
        for l in &d.labels {
            if let Some(p) = span_problem(src, l.span.start(), l.span.end()) {
                let bad = if p.starts_with("start") { l.span.start() } else { l.span.end() };
                // diagnostics whose labels come from their own (defective) span arithmetic keep their code
                let own_arithmetic = matches!(d.code, 207 | 209 | 642 | 701);
                // the virtual RQuery token (1 byte wide by construction) has its own message
                let rquery = d.code == 203 && l.message.starts_with("unexpected end of query path")
                    || d.code == 203 && d.labels.first().is_some_and(|f| f.message.starts_with("unexpected end of query path"));
                let site = match site_of(src, bad) {
                    _ if rquery => "E203_rquery".to_string(),
                    Some(site) if !own_arithmetic => site.to_string(),
                    _ => format!("E{:03}", d.code),
                };
                return V::fail_sig(
                    format!("{site}:{p}"),
                    format!(
                        "label span ({},{}) of diagnostic {} is not a valid range of the {}-byte source ({p}); source {src:?}",
                        l.span.start(),
                        l.span.end(),
                        describe(d),
                        src.len()
                    ),
                );
            }
        }
    }

    // (2) rendering, plain and coloured
    let mut rendered_len = 0usize;
    for colored in [false, true] {
        let l2 = list.clone();
        let out = catch_unwind(AssertUnwindSafe(|| {
            let f = if colored { Formatter::new(src, l2).colored() } else { Formatter::new(src, l2) };
            let mut buf = String::new();
            write!(buf, "{f}").map(|()| buf)
        }));
        let first = list.first().map(describe).unwrap_or_default();
        match out {
            Ok(Ok(text)) => {
                if !list.is_empty() && text.trim().is_empty() {
                    return V::fail_sig("render_empty", format!("rendering {} diagnostics produced no text (first: {first}); source {src:?}", list.len()));
                }
                rendered_len += text.len();
            }
            Ok(Err(_)) => {
                return V::fail_sig(
                    format!("render_error:E{:03}", list.first().map_or(0, |d| d.code)),
                    format!("Formatter (colored={colored}) returned fmt::Error for {first}; source {src:?}"),
                );
            }
            Err(payload) => {
                let (loc, msg) = panics::last().unwrap_or_else(|| ("unknown".to_string(), panics::payload_str(&payload)));
                return V::fail_sig(
                    format!("render_panic@{loc}"),
                    format!("Formatter (colored={colored}) panicked at {loc}: {msg} for {first}; source {src:?}"),
                );
            }
        }
    }

    let parse_at_zero = |d: &Diagnostic| (200..300).contains(&d.code) && d.labels.iter().all(|l| l.span.start() == 0);
    let interesting = list.iter().any(|d| !parse_at_zero(d));
    let multi = !src.is_ascii() || src.lines().count() >= 2;
    let mut v = V::pass().nontrivial(interesting && multi);
    let mut seen: Vec<usize> = Vec::new();
    let mut non_ascii_before_label = false;
    for d in list.iter() {
        if !seen.contains(&d.code) {
            seen.push(d.code);
            v = v.class(code_label(d.code));
        }
        for l in &d.labels {
            let s = l.span.start().min(src.len());
            if src.is_char_boundary(s) && !src[..s].is_ascii() {
                non_ascii_before_label = true;
            }
        }
    }
    let any_parse = list.iter().any(|d| (200..300).contains(&d.code));
    let any_warning = list.iter().any(Diagnostic::is_warning);
    v.class(if list.is_empty() {
        "no_diagnostics"
    } else if is_err {
        "error_list"
    } else {
        "warnings_only"
    })
    .class_if(is_err && any_parse, "parse_error")
    .class_if(is_err && !any_parse, "compile_error")
    .class_if(any_warning, "has_warning")
    .class_if(list.len() >= 2, "several_diagnostics")
    .class_if(non_ascii_before_label, "non_ascii_before_a_label")
    .class_if(src.contains("\r\n"), "crlf")
    .class_if(!src.is_ascii(), "non_ascii_source")
    .class_if(c.cfg == 1 || c.cfg == 2, "read_only_config")
    .class_if(c.cfg == 3, "typed_external_config")
    .class_if(rendered_len > 0, "rendered")
}

pub fn run(r: &mut Run) {
    if !r.is_replay() {
        let c = corpus();
        r.notes.push(format!("corpus: {} test-suite programs + {} stdlib example sources (<= 4 KiB each)", c.files, c.examples));
        let all: Vec<SrcCase> = c.items.iter().map(|s| SrcCase { src: s.clone(), cfg: 0 }).collect();
        r.enumerate("corpus_unmutated", all, check);
    } else {
        r.enumerate("corpus_unmutated", Vec::<SrcCase>::new(), check);
    }
    r.sub("mutated_corpus", 400_000, 25_000_000, mutated_corpus, check);
    r.sub("assignment_targets", 60_000, 4_000_000, assignment_targets, check);
}
