//! C05 — stdlib calls terminate promptly.

use std::collections::{BTreeMap, BTreeSet};
use std::sync::{Mutex, RwLock};
use std::time::Duration;

use crate::engine::workers::{self, Death, Limits, Stage, WorkerResult};
use crate::engine::{Run, V};
use crate::gens::call::{self, CallCase, Profile};
use crate::gens::value::TV;
use crate::props::callsup::{self, Stats};

pub const RULE: &str = "cases = stdlib calls from gens::call with the size-bounded profile (total argument size <= 4 KiB, strings up to 2 KiB in 18 % of string draws, integers biased to {i64::MIN, i64::MAX, 0, +-1, +-10^n, negative}, non-finite floats; one in nine array/object arguments is a small value nested 12-72 levels deep and one in twenty-four strings is a JSON-like text nested 8-140 levels deep and one in forty-eight an XML chain of single-child elements 6-90 levels deep, so that work repeated per nesting level multiplies up), every function of stdlib::all() except the IO/nondeterministic list (see C03). Each call runs in a killable worker (RLIMIT_AS 8 GiB) under a 5 s deadline enforced by the parent; a case that exceeds it is re-run alone in a fresh worker until that worker has consumed 20 s of CPU time (wall cap 90 s; if the cap passes first the run is repeated with all other shards paused, and if it passes again the case is inconclusive) and only then is a violation C05:<function>:hang:<class of first argument: its kind if literal/exactly typed, `anytyped` if any-typed>_arg (for a signature that is an open known finding and whose pinned replay was confirmed that way at the start of the run, later cases are run with a 0.5 s deadline and tallied under that signature: this can only add to the hit count of the known finding). A new (not yet known) hang signature is confirmed at most 4 times per run; after that its (function, argument class) is not run any more in that run, which has already failed on it (keeps shrinking a new hang affordable). Output growth: result size <= 64 KiB + 64 x input bytes + (input bytes)^2 (the square admits replace/join-like products of two argument sizes) unless an integer argument 0 <= n <= 10^4 explains it linearly ((n+1) x that bound) [growth]; a worker killed by allocation failure on these bounded inputs is a violation reported under the same `hang` signature (whether a runaway call is stopped by the deadline or by the memory limit depends on the machine). Non-trivial = the call reached the function body with an integer/float argument at an edge value (0, +-1, negative, |v| >= 2^31; non-finite, zero, subnormal, |x| >= 2^53 or < 1e-300) or a string argument >= 256 bytes (container arguments count through their leaves). Bounded integers (pure allocation size, out of scope by C04's statement): decode_lz4 buf_size in (2^24, u32::MAX] clamped to 2^24 (negative and larger values take the function's own too-large path and stay in), set path indices within +-64, encode_zstd compression_level (after the function's own i32 truncation) <= 19 because the ultra levels allocate ~730 MB whatever the input.";
pub const NOTE: &str = "wall-clock deadlines are far above any legitimate call (slowest observed legitimate calls are reported per function in evidence: max and p99 upper bound); a replayed case is run alone with the 20 s (CPU) limit directly, all pinned hang replays concurrently; panics and aborts are C04's business and pass here";

static STATS: Stats = Stats::new();
/// hang signatures confirmed with the full protocol in this process
static CONFIRMED: Mutex<BTreeSet<String>> = Mutex::new(BTreeSet::new());
/// results of the pinned hang replays, executed concurrently on the first replay request
static PREFETCH: Mutex<Option<BTreeMap<String, WorkerResult>>> = Mutex::new(None);

/// confirmed hang cases of this process (a repeated evaluation — shrinking, the engine's final
/// re-evaluation — answers from here instead of waiting another 25 s)
static HANG_CACHE: Mutex<BTreeMap<String, String>> = Mutex::new(BTreeMap::new());
/// confirmations per signature that is not an open known finding
static NEW_HANGS: Mutex<BTreeMap<String, u32>> = Mutex::new(BTreeMap::new());
/// after this many confirmations of a new hang signature its (function, argument class) is not
/// run any more in this process: the run has already failed on it, and every further hanging
/// candidate (the shrinker produces hundreds) would cost 25 s
pub const NEW_HANG_SATURATION: u32 = 4;

/// first-stage executions hold this gate shared, a second-stage execution holds it exclusively:
/// "re-run alone" — no other case of this process competes for the machine meanwhile
static GATE: RwLock<()> = RwLock::new(());

pub const FIRST_DEADLINE: Duration = Duration::from_secs(5);
/// second stage: alone in a fresh worker, 20 s measured as CPU time consumed by the worker (so a
/// loaded machine cannot turn a slow call into a "hang"); the wall cap only bounds the wait
pub const SECOND_LIMITS: Limits = Limits { wall: Duration::from_secs(90), cpu: Some(Duration::from_secs(20)) };
pub const CONFIRMED_DEADLINE: Duration = Duration::from_millis(500);

fn case_key(c: &CallCase) -> String {
    serde_json::to_string(c).unwrap_or_default()
}

/// Every pinned replay of a hang costs 20 s by definition; they are independent, so they are all
/// started at once (one fresh worker each) when the first of them is asked for.
fn prefetch_hang_replays(r: &Run) {
    let mut g = PREFETCH.lock().unwrap();
    if g.is_some() {
        return;
    }
    let mut cases: Vec<CallCase> = Vec::new();
    for k in &r.known {
        if k.status != "open" || !k.signature.as_deref().is_some_and(|s| s.contains(":hang:")) {
            continue;
        }
        let Some(rp) = &k.replay else { continue };
        let Ok(text) = std::fs::read_to_string(crate::engine::verif_root().join(rp)) else { continue };
        let Ok(rf) = serde_json::from_str::<crate::engine::ReplayFile>(&text) else { continue };
        if let Ok(c) = serde_json::from_value::<CallCase>(rf.case) {
            cases.push(c);
        }
    }
    let results: Vec<(String, WorkerResult)> = std::thread::scope(|scope| {
        let hs: Vec<_> = cases.iter().map(|c| scope.spawn(move || (case_key(c), workers::exec_fresh(c, SECOND_LIMITS)))).collect();
        hs.into_iter().filter_map(|h| h.join().ok()).collect()
    });
    *g = Some(results.into_iter().collect());
}

fn int_edge(i: i64) -> bool {
    i <= 1 || i.unsigned_abs() >= 1 << 31
}

fn float_edge(x: f64) -> bool {
    !x.is_finite() || x == 0.0 || x.is_subnormal() || x.abs() >= 9_007_199_254_740_992.0 || x.abs() < 1e-300
}

fn edge_arg(v: &TV) -> bool {
    match v {
        TV::Int(i) => int_edge(*i),
        TV::Float(x) => float_edge(x.0),
        TV::Str(s) => s.len() >= 256,
        TV::Bin(h) => h.len() >= 512,
        // container arguments count through their leaves
        TV::Array(a) => a.iter().any(edge_arg),
        TV::Object(o) => o.values().any(edge_arg),
        _ => false,
    }
}

/// the largest integer argument 0 <= n <= 10^4 (explains linear output growth)
fn explaining_count(c: &CallCase) -> u64 {
    c.args
        .iter()
        .filter_map(|a| match &a.v {
            TV::Int(i) if (0..=10_000).contains(i) => Some(*i as u64),
            _ => None,
        })
        .max()
        .unwrap_or(0)
}

fn check_with(c: &CallCase, replaying: bool, known_hangs: &BTreeSet<String>) -> V {
    let Some(spec) = call::spec(&c.func) else { return callsup::unknown_function() };
    let cls = c.arg_class();
    let hang_sig = format!("C05:{}:hang:{cls}", c.func);
    let mut slow_first = false;
    if !replaying {
        if let Some(msg) = HANG_CACHE.lock().unwrap().get(&case_key(c)) {
            return callsup::fail(&STATS, c, hang_sig, msg.clone());
        }
        if !known_hangs.contains(&hang_sig) && NEW_HANGS.lock().unwrap().get(&hang_sig).copied().unwrap_or(0) >= NEW_HANG_SATURATION {
            return V::pass().class("new_hang_signature_saturated_not_run");
        }
    }
    let res = if replaying {
        let cached = PREFETCH.lock().unwrap().as_ref().and_then(|m| m.get(&case_key(c)).cloned());
        match cached {
            Some(r) => r,
            None => workers::exec_fresh(c, SECOND_LIMITS),
        }
    } else {
        // the shortcut is only taken for signatures that are open known findings (whose pinned
        // replay was confirmed with the full protocol in this process): it can then only add to a
        // known-finding hit count
        let confirmed = (known_hangs.contains(&hang_sig) || callsup::survey_mode()) && CONFIRMED.lock().unwrap().contains(&hang_sig);
        let first = {
            let _shared = GATE.read().unwrap_or_else(|e| e.into_inner());
            workers::exec(c, if confirmed { CONFIRMED_DEADLINE } else { FIRST_DEADLINE })
        };
        if matches!(first, WorkerResult::Timeout) {
            if confirmed {
                STATS.record(&c.func, &first, false);
                return callsup::fail(
                    &STATS,
                    c,
                    hang_sig,
                    format!("did not return within 0.5 s; this signature was confirmed as a hang (5 s, then 20 s alone) earlier in this run: {}", call::describe(c)),
                );
            }
            slow_first = true;
            // second stage: alone in a fresh worker, judged on consumed CPU time. It first runs
            // beside the other shards; only if the machine is so loaded that the wall cap passes
            // before 20 s of CPU were consumed is it repeated with every other shard paused.
            let second = workers::exec_fresh(c, SECOND_LIMITS);
            if matches!(second, WorkerResult::Starved) {
                let _alone = GATE.write().unwrap_or_else(|e| e.into_inner());
                if let Some(msg) = HANG_CACHE.lock().unwrap().get(&case_key(c)) {
                    return callsup::fail(&STATS, c, hang_sig, msg.clone());
                }
                workers::exec_fresh(c, SECOND_LIMITS)
            } else {
                second
            }
        } else {
            first
        }
    };
    let v = match &res {
        WorkerResult::Timeout => {
            CONFIRMED.lock().unwrap().insert(hang_sig.clone());
            let msg = format!(
                    "call did not return: {} then killed after consuming 20 s of CPU time alone in a fresh worker: {}",
                    if replaying { "replayed;" } else { "exceeded 5 s," },
                    call::describe(c)
                );
            if !replaying {
                HANG_CACHE.lock().unwrap().insert(case_key(c), msg.clone());
                if !known_hangs.contains(&hang_sig) {
                    *NEW_HANGS.lock().unwrap().entry(hang_sig.clone()).or_default() += 1;
                }
            }
            callsup::fail(&STATS, c, hang_sig, msg)
        }
        WorkerResult::Harness(_) => V::discard("harness_error"),
        WorkerResult::Starved => V::discard("second_stage_starved_inconclusive"),
        WorkerResult::Died { how, stderr } => match how {
            Death::Alloc => callsup::fail(
                &STATS,
                c,
                // unbounded allocation and non-termination are the same failure of the property
                // ("loops indefinitely or grows its output without bound"); which of the two is
                // observed first depends on the machine, so they share one signature
                format!("C05:{}:hang:{cls}", c.func),
                format!("worker killed by allocation failure (RLIMIT_AS 8 GiB) on arguments of {} bytes: {} :: {stderr}", c.input_bytes(), call::describe(c)),
            ),
            _ => callsup::common_classes(V::pass().class("worker_died_left_to_c04"), spec, c, None),
        },
        WorkerResult::Done(o) => {
            let base = callsup::common_classes(V::pass(), spec, c, Some(o)).class_if(slow_first, "exceeded_5s_but_finished_alone");
            let input = c.input_bytes() as u64;
            // linear allowance plus a quadratic term: replace(value, pattern, with) legitimately
            // returns up to |value| x |with| bytes, which is still bounded by the input size
            let bound = 65_536 + 64 * input + input * input;
            if o.stage == Stage::Ran && o.value_bytes > bound && o.value_bytes > (explaining_count(c) + 1).saturating_mul(bound) {
                callsup::fail(
                    &STATS,
                    c,
                    format!("C05:{}:growth:{cls}", c.func),
                    format!(
                        "result of {} bytes from {} input bytes (bound 64 KiB + 64 x input + input^2 = {bound}, largest explaining count {}): {}",
                        o.value_bytes,
                        input,
                        explaining_count(c),
                        call::describe(c)
                    ),
                )
            } else {
                let edge = c.args.iter().any(|a| edge_arg(&a.v));
                base.nontrivial(o.reached_body() && edge)
                    .class_if(o.run_us >= 100_000, "run_over_100ms")
                    .class_if(o.run_us >= 1_000_000, "run_over_1s")
                    .class_if(o.compile_us >= 100_000, "compile_over_100ms")
                    .class_if(c.args.iter().any(|a| matches!(&a.v, TV::Str(s) if s.len() >= 256)), "long_string_arg")
                    .class_if(c.args.iter().any(|a| matches!(&a.v, TV::Int(i) if int_edge(*i))), "edge_integer_arg")
                    .class_if(c.args.iter().any(|a| matches!(&a.v, TV::Float(x) if float_edge(x.0))), "edge_float_arg")
            }
        }
    };
    STATS.record(&c.func, &res, v.nontrivial);
    v
}

/// the oracle as the replay tier applies it (alone, 20 s CPU limit directly)
pub fn check_replay(c: &CallCase) -> V {
    check_with(c, true, &BTreeSet::new())
}

pub fn run(r: &mut Run) {
    let replaying = r.is_replay();
    if replaying {
        prefetch_hang_replays(r);
    }
    let known_hangs: BTreeSet<String> = r
        .known
        .iter()
        .filter(|k| k.status == "open")
        .filter_map(|k| k.signature.clone())
        .filter(|s| s.contains(":hang:"))
        .collect();
    r.sub("calls", 100_000, 3_800_000, || call::strategy(Profile::Termination), move |c: &CallCase| check_with(c, replaying, &known_hangs));
    STATS.publish(r, 20, true);
}
