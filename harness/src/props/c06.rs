//! C06 — `return` always ends the program (or closure iteration) with its value.

use crate::engine::Run;
use crate::gens::proggen::{Preset, ProgCase};
use crate::model::diff::Agreed;
use crate::props::progdiff;

pub const RULE: &str = "cases = generated programs (harness AST printed to VRL source; assignments to variables/event/metadata, if/else, blocks, all binary operators incl. `??`, `ok, err =`, arrays, objects, del, closures of for_each/filter/map_values/map_keys over objects and arrays and of replace_with over strings) with `return e` injected at statement, block, branch, operand, array element, object member, right-hand side and closure-body positions, plus a generated event; each accepted program runs through the real compiler+runtime and through the harness's reference interpreter; outcome, value, final event, metadata and all variables must agree. Non-trivial = the reference executed a `return` (not dead code) and the program has side effects (so 'no later expression runs' is observable). Distinct = distinct serialised (program, event) cases. Rejected programs and programs the reference cannot evaluate are counted as discards.";
pub const NOTE: &str = "trusts the reference interpreter (model/interp.rs, ~600 lines) for control flow and scoping; values of plain stdlib calls are delegated to the real implementation (checked separately by C03/C21-C29); error message texts are not compared";

fn classify(case: &ProgCase, a: &Agreed) -> (bool, Vec<&'static str>) {
    let mut classes = Vec::new();
    for ctx in &a.stats.returns {
        if ctx.contains(&"closure") {
            classes.push("return_in_closure");
        }
        if let Some(inner) = ctx.iter().rev().find(|c| **c != "block" && **c != "if_branch" && **c != "else_branch") {
            classes.push(match *inner {
                "coalesce_lhs" => "return_under_coalesce_lhs",
                "coalesce_rhs" => "return_under_coalesce_rhs",
                "infallible_assign_rhs" => "return_under_infallible_assign",
                "assign_rhs" => "return_under_assign_rhs",
                "call_argument" => "return_in_call_argument",
                "array" => "return_in_array_element",
                "object" => "return_in_object_member",
                "operand" => "return_in_operand",
                "predicate" => "return_in_predicate",
                "closure" => "return_directly_in_closure_body",
                "or_rhs" | "and_rhs" | "or_lhs" | "and_lhs" => "return_in_short_circuit_operand",
                _ => "return_elsewhere",
            });
        } else {
            classes.push("return_at_top_level");
        }
    }
    let effects = case.prog.iter().any(crate::model::interp::has_effect);
    (!a.stats.returns.is_empty() && effects, classes)
}

pub fn run(r: &mut Run) {
    crate::props::pinned::run(r, pinned_cases());
    let base = progdiff::base_preset(r);
    progdiff::sub(r, "return_anywhere", Preset { returns: 6, aborts: 0, closures: 3, ..base }, 150_000, 8_000_000, classify);
    progdiff::sub(r, "return_in_closures", Preset { returns: 8, aborts: 0, closures: 8, coalesce: 4, ..base }, 80_000, 4_000_000, classify);
}

fn pinned_cases() -> Vec<crate::props::pinned::Pinned> {
    use crate::gens::value::TV;
    use crate::props::pinned::{case, ev};
    let c = || ev(&[("c", TV::Bool(true))]);
    vec![
        case("return under ??", "x = { if .c == true { return 5 }; to_int(.b) } ?? 7\n.after = 1\nx", c(), "return").value(TV::Int(5)).final_event(c()),
        case("return under ok, err =", "ok, err = { if .c == true { return 5 }; to_int(.b) }\n.after = 1", c(), "return").value(TV::Int(5)).final_event(c()),
        case("return in a call argument", "upcase({ if .c == true { return \"x\" }; \"y\" })", c(), "return").value(TV::str("x")),
        case("return in array for_each", "for_each([1, 2]) -> |i, v| { if v == 1 { return 3 }; .x = v }\n.x", ev(&[]), "ok").value(TV::Int(2)).final_event(ev(&[("x", TV::Int(2))])),
        case("return in map_values", "y = map_values({\"a\": 1, \"b\": 2}) -> |v| { if v == 1 { return 30 }; v }\ny", ev(&[]), "ok").value(ev(&[("a", TV::Int(30)), ("b", TV::Int(2))])),
        case("return in filter", "y = filter([1, 2, 3]) -> |i, v| { if v == 2 { return false }; true }\ny", ev(&[]), "ok").value(TV::Array(vec![TV::Int(1), TV::Int(3)])),
        case("return in map_keys", "y = map_keys({\"a\": 1, \"b\": 2}) -> |k| { if k == \"a\" { return \"z\" }; k }\ny", ev(&[]), "ok").value(ev(&[("b", TV::Int(2)), ("z", TV::Int(1))])),
        case("return in object for_each", "for_each({\"a\": 1, \"b\": 2}) -> |k, v| { if v == 1 { return 3 }; .x = v }\n.x", ev(&[]), "ok").value(TV::Int(2)),
        case("return in the right operand of ||", ".sc = (false || { return 0; true })\n.after = 1", ev(&[]), "return").value(TV::Int(0)).final_event(ev(&[])),
        case("return of the wrong kind inside a call argument in a filter closure is rejected", ".res = filter([1]) -> |i, v| { is_string({ if .c == true { return [] }; 0 }) }", c(), "rejected"),
    ]
}
