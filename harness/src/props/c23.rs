//! C23 — encryption round-trips for every algorithm; IP address encryption round-trips.

use std::net::{IpAddr, Ipv4Addr, Ipv6Addr};

use proptest::prelude::*;
use serde::{Deserialize, Serialize};
use vrl::value::Value;

use super::c22::{eval_cached, intern};
use crate::engine::{Run, V};
use crate::gens::bytes::{exact, payload};
use crate::gens::value::TV;
use crate::vrlx::{self, End};

pub const RULE: &str = "cipher cases = (algorithm, plaintext, key, iv, delivery of the algorithm name) for all 32 names of encrypt's dispatch table (cross-checked at start-up against the `Supported Algorithms` lists in the documentation of both encrypt and decrypt, which also give the key/IV sizes); plaintexts are arbitrary bytes of length 0..100, lengths around multiples of 16 (15,16,17,31,32,33,...), occasionally up to 4 KiB; keys and IVs are random, all-zero, all-0xff (counter wrap) and counting byte strings of exactly the documented sizes; the algorithm is a literal or an event field. One compiled program `ct = encrypt!(.p, ALG, key: .k, iv: .iv); [ct, decrypt!(ct, ALG, key: .k, iv: .iv)]` per case; the second element must equal the plaintext, and for plaintexts of >= 16 bytes the ciphertext must differ from the plaintext. IP cases = (address text, key, mode) over IPv4 edge addresses + random, IPv6 (edges, random, zero-group patterns, IPv4-mapped/compatible, in canonical / fully expanded / upper-case spelling) x {aes128 with 16-byte keys, pfx with 32-byte keys}: `e = encrypt_ip!(.ip, .k, MODE); [e, decrypt_ip!(e, .k, MODE)]` must parse to the same address as the input. Non-trivial = plaintext length >= 1 (every IP case). Distinct = distinct serialised cases.";
pub const NOTE: &str = "only the round-trip law (and ciphertext != plaintext for >= 16 bytes, false-alarm probability 2^-128) is asserted, not the ciphertext itself; key/IV sizes are the documented ones, a documented (key, iv) size that the function rejects is reported as a failure; address equality is equality of std::net::IpAddr values, the notion the functions themselves use (they parse their argument with the standard parser)";

// ------------------------------------------------------------------------------------------
// algorithm table

/// (name, key bytes, iv bytes) — the `Supported Algorithms` list of encrypt/decrypt
/// (src/stdlib/encrypt.rs `usage()`), same names as `is_valid_algorithm`
pub const ALGS: &[(&str, usize, usize)] = &[
    ("AES-256-CFB", 32, 16),
    ("AES-192-CFB", 24, 16),
    ("AES-128-CFB", 16, 16),
    ("AES-256-OFB", 32, 16),
    ("AES-192-OFB", 24, 16),
    ("AES-128-OFB", 16, 16),
    ("AES-128-SIV", 32, 16),
    ("AES-256-SIV", 64, 16),
    ("AES-256-CTR", 32, 16),
    ("AES-192-CTR", 24, 16),
    ("AES-128-CTR", 16, 16),
    ("AES-256-CTR-LE", 32, 16),
    ("AES-192-CTR-LE", 24, 16),
    ("AES-128-CTR-LE", 16, 16),
    ("AES-256-CTR-BE", 32, 16),
    ("AES-192-CTR-BE", 24, 16),
    ("AES-128-CTR-BE", 16, 16),
    ("AES-256-CBC-PKCS7", 32, 16),
    ("AES-192-CBC-PKCS7", 24, 16),
    ("AES-128-CBC-PKCS7", 16, 16),
    ("AES-256-CBC-ANSIX923", 32, 16),
    ("AES-192-CBC-ANSIX923", 24, 16),
    ("AES-128-CBC-ANSIX923", 16, 16),
    ("AES-256-CBC-ISO7816", 32, 16),
    ("AES-192-CBC-ISO7816", 24, 16),
    ("AES-128-CBC-ISO7816", 16, 16),
    ("AES-256-CBC-ISO10126", 32, 16),
    ("AES-192-CBC-ISO10126", 24, 16),
    ("AES-128-CBC-ISO10126", 16, 16),
    ("CHACHA20-POLY1305", 32, 12),
    ("XCHACHA20-POLY1305", 32, 24),
    ("XSALSA20-POLY1305", 32, 24),
];

/// parses the `* NAME (key = K bytes, iv = N bytes)` lines of a function's usage text
fn documented_algorithms(function: &str) -> Result<Vec<(String, usize, usize)>, String> {
    let f = vrlx::fns().iter().find(|f| f.identifier() == function).ok_or_else(|| format!("function {function} not in the stdlib"))?;
    let re = regex::Regex::new(r"(?m)^\s*\*\s*(?:Deprecated - )?([A-Z0-9-]+)\s+\(key = (\d+) bytes, iv = (\d+) bytes\)").unwrap();
    let mut out = Vec::new();
    for c in re.captures_iter(f.usage()) {
        out.push((c[1].to_string(), c[2].parse().unwrap(), c[3].parse().unwrap()));
    }
    Ok(out)
}

/// the harness table must be exactly the documented list of both functions
fn table_rot() -> Option<String> {
    for function in ["encrypt", "decrypt"] {
        let mut doc = match documented_algorithms(function) {
            Ok(d) => d,
            Err(e) => return Some(e),
        };
        let mut mine: Vec<(String, usize, usize)> = ALGS.iter().map(|(n, k, i)| ((*n).to_string(), *k, *i)).collect();
        doc.sort();
        mine.sort();
        if doc != mine {
            let missing: Vec<_> = doc.iter().filter(|d| !mine.contains(d)).collect();
            let extra: Vec<_> = mine.iter().filter(|m| !doc.contains(m)).collect();
            return Some(format!("C23 algorithm table differs from the documentation of `{function}`: documented but not in the table {missing:?}, in the table but not documented {extra:?}"));
        }
    }
    None
}

// ------------------------------------------------------------------------------------------
// symmetric ciphers

#[derive(Clone, Debug, Serialize, Deserialize)]
pub struct CipherCase {
    pub alg: String,
    /// the algorithm name travels in an event field instead of a literal
    pub alg_via_field: bool,
    pub plaintext: TV,
    pub key: TV,
    pub iv: TV,
}

fn bv(b: &[u8]) -> Value {
    Value::Bytes(bytes::Bytes::copy_from_slice(b))
}

fn short(b: &[u8]) -> String {
    if b.len() <= 40 {
        format!("x'{}'", hex::encode(b))
    } else {
        format!("x'{}…' ({} bytes)", hex::encode(&b[..40]), b.len())
    }
}

fn alg_family(alg: &str) -> &'static str {
    if alg.contains("CBC") {
        "block_padded"
    } else if alg.contains("POLY1305") || alg.contains("SIV") {
        "aead"
    } else {
        "stream"
    }
}

fn check_cipher(c: &CipherCase) -> V {
    let Some((_, klen, ivlen)) = ALGS.iter().find(|(n, _, _)| *n == c.alg) else { return V::discard("algorithm not in the documented list") };
    let (Some(p), Some(k), Some(iv)) = (c.plaintext.as_bytes(), c.key.as_bytes(), c.iv.as_bytes()) else { return V::discard("not bytes") };
    if k.len() != *klen || iv.len() != *ivlen {
        return V::discard("key/iv not of the documented size");
    }
    if p.len() > 65_536 {
        return V::discard("plaintext larger than the checked domain");
    }
    let mut fields: Vec<(&str, Value)> = vec![("p", bv(&p)), ("k", bv(&k)), ("iv", bv(&iv))];
    let alg_expr = if c.alg_via_field {
        fields.push(("alg", bv(c.alg.as_bytes())));
        ".alg".to_string()
    } else {
        vrlx::str_lit(&c.alg)
    };
    let src = format!("ct = encrypt!(.p, {alg_expr}, key: .k, iv: .iv); [ct, decrypt!(ct, {alg_expr}, key: .k, iv: .iv)]");
    let event = Value::Object(fields.into_iter().map(|(n, v)| (n.into(), v)).collect());
    let out = match eval_cached(&src, &event) {
        Ok(o) => o,
        Err(e) => return V::fail(format!("program `{src}` was rejected: {e}")),
    };
    let describe = || format!("alg={} plaintext={} key={} iv={}", c.alg, short(&p), short(&k), short(&iv));
    let arr = match &out.end {
        End::Ok(Value::Array(a)) if a.len() == 2 => a.clone(),
        End::Error(m) if m.contains("Invalid key size") || m.contains("Invalid iv size") => {
            return V::fail(format!("{}: a key/iv of the documented size was rejected: {m}", describe()));
        }
        other => return V::fail(format!("{}: `{src}` ended with {other:?}", describe())),
    };
    let (Some(ct), Some(back)) = (arr[0].as_bytes(), arr[1].as_bytes()) else { return V::fail(format!("{}: non-bytes result {arr:?}", describe())) };
    if back.as_ref() != p.as_slice() {
        return V::fail(format!("{}: decrypt(encrypt(p)) = {} (ciphertext {})", describe(), short(back), short(ct)));
    }
    if p.len() >= 16 && ct.as_ref() == p.as_slice() {
        return V::fail(format!("{}: ciphertext equals the plaintext", describe()));
    }
    V::pass()
        .nontrivial(!p.is_empty())
        .class(intern(format!("alg_{}", c.alg)))
        .class(alg_family(&c.alg))
        .class_if(c.alg_via_field, "alg_in_event_field")
        .class(match p.len() {
            0 => "len_0",
            n if n % 16 == 0 => "len_multiple_of_16",
            n if n % 16 == 15 || n % 16 == 1 => "len_next_to_multiple_of_16",
            1..=100 => "len_1_100",
            _ => "len_over_100",
        })
        .class_if(ct.len() > p.len(), "ciphertext_longer")
        .class_if(iv.iter().all(|b| *b == 0xff), "iv_all_ff")
        .class_if(iv.iter().all(|b| *b == 0), "iv_all_zero")
}

fn plaintext() -> impl Strategy<Value = Vec<u8>> {
    prop_oneof![
        4 => (0usize..=100).prop_flat_map(|n| proptest::collection::vec(any::<u8>(), n)),
        4 => (0usize..=8, -1i64..=1).prop_flat_map(|(m, d)| {
            let n = (m as i64 * 16 + d).max(0) as usize;
            proptest::collection::vec(any::<u8>(), n)
        }),
        2 => payload(200),
        1 => payload(4096),
    ]
}

fn cipher_case() -> impl Strategy<Value = CipherCase> {
    (0..ALGS.len(), prop::bool::weighted(0.2), plaintext()).prop_flat_map(|(i, alg_via_field, p)| {
        let (name, klen, ivlen) = ALGS[i];
        (exact(klen), exact(ivlen)).prop_map(move |(k, iv)| CipherCase {
            alg: name.to_string(),
            alg_via_field,
            plaintext: TV::bytes(&p),
            key: TV::bytes(&k),
            iv: TV::bytes(&iv),
        })
    })
}

/// one fixed case per algorithm (independent of the seed): every documented algorithm accepts
/// keys/IVs of the documented sizes and round-trips a two-block message
fn cipher_grid() -> Vec<CipherCase> {
    let mut out = Vec::new();
    for (name, klen, ivlen) in ALGS {
        for plen in [0usize, 1, 15, 16, 17, 32, 33] {
            for via in [false, true] {
                out.push(CipherCase {
                    alg: (*name).to_string(),
                    alg_via_field: via,
                    plaintext: TV::bytes(&(0..plen).map(|i| (i * 7 + 3) as u8).collect::<Vec<u8>>()),
                    key: TV::bytes(&(0..*klen).map(|i| (i * 11 + 1) as u8).collect::<Vec<u8>>()),
                    iv: TV::bytes(&(0..*ivlen).map(|i| (i * 13 + 5) as u8).collect::<Vec<u8>>()),
                });
            }
        }
    }
    out
}

// ------------------------------------------------------------------------------------------
// IP addresses

/// (mode, key bytes) — encrypt_ip / decrypt_ip documentation
pub const IP_MODES: &[(&str, usize)] = &[("aes128", 16), ("pfx", 32)];

/// switch of the known finding "IPv4-mapped IPv6 input comes back as the IPv4 address"
pub const SW_MAPPED: &str = "c23-ipv4-mapped-ipv6-input";
/// switch of the known finding "pfx mode panics on a 32-byte key whose two halves are equal"
pub const SW_PFX_KEY: &str = "c23-pfx-key-with-identical-halves";

fn halves_equal(k: &[u8]) -> bool {
    k.len() == 32 && k[..16] == k[16..]
}

/// a key of `klen` bytes; when `split_halves` is set, 32-byte keys never have equal halves
fn ip_key(klen: usize, split_halves: bool) -> impl Strategy<Value = Vec<u8>> {
    exact(klen).prop_map(move |mut k| {
        if split_halves && halves_equal(&k) {
            k[16] ^= 0x01;
        }
        k
    })
}

#[derive(Clone, Debug, Serialize, Deserialize)]
pub struct IpCase {
    pub ip: String,
    pub mode: String,
    pub key: TV,
}

fn is_mapped(ip: &IpAddr) -> bool {
    matches!(ip, IpAddr::V6(v6) if v6.to_ipv4_mapped().is_some())
}

fn canonical(ip: IpAddr) -> IpAddr {
    match ip {
        IpAddr::V6(v6) => v6.to_ipv4_mapped().map_or(ip, IpAddr::V4),
        v4 => v4,
    }
}

/// runs the round trip; returns (input address, encrypted address, decrypted address)
fn ip_roundtrip(c: &IpCase) -> Result<(IpAddr, IpAddr, IpAddr), V> {
    let Some((_, klen)) = IP_MODES.iter().find(|(m, _)| *m == c.mode) else { return Err(V::discard("undocumented mode")) };
    let Some(k) = c.key.as_bytes() else { return Err(V::discard("not bytes")) };
    if k.len() != *klen {
        return Err(V::discard("key not of the documented size"));
    }
    let Ok(want) = c.ip.parse::<IpAddr>() else { return Err(V::discard("not an IP address")) };
    let mode = vrlx::str_lit(&c.mode);
    let src = format!("e = encrypt_ip!(.ip, .k, {mode}); [e, decrypt_ip!(e, .k, {mode})]");
    let event = Value::Object([("ip".into(), bv(c.ip.as_bytes())), ("k".into(), bv(&k))].into_iter().collect());
    let out = match eval_cached(&src, &event) {
        Ok(o) => o,
        Err(e) => return Err(V::fail(format!("program `{src}` was rejected: {e}"))),
    };
    let describe = || format!("ip={} mode={} key=x'{}'", c.ip, c.mode, hex::encode(&k));
    let arr = match &out.end {
        End::Ok(Value::Array(a)) if a.len() == 2 => a.clone(),
        other => return Err(V::fail(format!("{}: `{src}` ended with {other:?}", describe()))),
    };
    let parse = |v: &Value| v.as_bytes().and_then(|b| std::str::from_utf8(b).ok().and_then(|s| s.parse::<IpAddr>().ok()));
    let (Some(enc), Some(dec)) = (parse(&arr[0]), parse(&arr[1])) else {
        return Err(V::fail(format!("{}: results are not IP addresses: {arr:?}", describe())));
    };
    Ok((want, enc, dec))
}

fn ip_classes(v: V, c: &IpCase, want: &IpAddr, enc: &IpAddr) -> V {
    v.nontrivial(true)
        .class(if c.mode == "pfx" { "mode_pfx" } else { "mode_aes128" })
        .class(if want.is_ipv4() { "input_v4" } else { "input_v6" })
        .class_if(is_mapped(want), "input_v6_ipv4_mapped")
        .class_if(want.is_ipv4() != enc.is_ipv4(), "encrypted_in_other_family")
        .class_if(c.ip != want.to_string(), "non_canonical_spelling")
        .class_if(enc == want, "encrypted_equals_input")
}

fn check_ip(c: &IpCase) -> V {
    match ip_roundtrip(c) {
        Err(v) => v,
        Ok((want, enc, dec)) => {
            if dec != want {
                return V::fail(format!("ip={} mode={} key={:?}: encrypted to {enc}, decrypted to {dec}, which is not the input address {want}", c.ip, c.mode, c.key));
            }
            ip_classes(V::pass(), c, &want, &enc)
        }
    }
}

/// weaker law that also covers IPv4-mapped IPv6 inputs while the strict check leaves them out:
/// the decrypted address denotes the same host (equal after mapping ::ffff:a.b.c.d to a.b.c.d)
fn check_ip_canonical(c: &IpCase) -> V {
    match ip_roundtrip(c) {
        Err(v) => v,
        Ok((want, enc, dec)) => {
            if canonical(dec) != canonical(want) {
                return V::fail(format!("ip={} mode={} key={:?}: encrypted to {enc}, decrypted to {dec}, a different host than {want}", c.ip, c.mode, c.key));
            }
            ip_classes(V::pass(), c, &want, &enc).class_if(dec != want, "decrypted_in_other_family")
        }
    }
}

const V4_EDGES: &[[u8; 4]] = &[
    [0, 0, 0, 0],
    [255, 255, 255, 255],
    [127, 0, 0, 1],
    [10, 0, 0, 1],
    [192, 168, 1, 1],
    [192, 168, 1, 100],
    [1, 2, 3, 4],
    [224, 0, 0, 1],
    [169, 254, 0, 1],
    [100, 64, 0, 0],
    [128, 0, 0, 0],
    [0, 0, 0, 1],
    [255, 0, 0, 0],
    [8, 8, 8, 8],
];

const V6_EDGES: &[&str] = &[
    "::",
    "::1",
    "ffff:ffff:ffff:ffff:ffff:ffff:ffff:ffff",
    "2001:db8::1",
    "fe80::1",
    "ff02::1",
    "64:ff9b::102:304",
    "::102:304",
    "2001:db8:0:0:1:0:0:1",
    "1:0:0:2:0:0:0:3",
    "1::",
    "::fffe:1.2.3.4",
    "::1:ffff:1.2.3.4",
    "8000::",
    "::fffe:ffff:ffff",
    "0:0:0:0:1:ffff::",
];

fn v4() -> impl Strategy<Value = Ipv4Addr> {
    prop_oneof![
        2 => (0..V4_EDGES.len()).prop_map(|i| Ipv4Addr::from(V4_EDGES[i])),
        3 => any::<u32>().prop_map(Ipv4Addr::from),
        1 => (any::<u32>(), 0u32..=32).prop_map(|(x, keep)| Ipv4Addr::from(if keep == 0 { 0 } else { x & (u32::MAX << (32 - keep)) })),
    ]
}

fn v6(allow_mapped: bool) -> impl Strategy<Value = Ipv6Addr> {
    let plain = prop_oneof![
        2 => (0..V6_EDGES.len()).prop_map(|i| V6_EDGES[i].parse::<Ipv6Addr>().expect("edge parses")),
        3 => any::<u128>().prop_map(Ipv6Addr::from),
        // zero-group patterns (exercise `::` compression in the textual forms)
        3 => (any::<u128>(), any::<u8>()).prop_map(|(x, mask)| {
            let mut seg = Ipv6Addr::from(x).segments();
            for (i, s) in seg.iter_mut().enumerate() { if mask & (1 << i) != 0 { *s = 0; } }
            Ipv6Addr::from(seg)
        }),
        1 => (any::<u128>(), 0u32..=128).prop_map(|(x, keep)| Ipv6Addr::from(if keep == 0 { 0 } else { x & (u128::MAX << (128 - keep)) })),
    ];
    // an address drawn at random is IPv4-mapped with probability 2^-96; the zero-group
    // pattern can produce one (segments 0..4 zero, segment 5 = ffff) with probability ~2^-21
    let plain = plain.prop_map(move |a| if !allow_mapped && a.to_ipv4_mapped().is_some() { Ipv6Addr::from(a.segments().map(|s| s ^ 0x8000)) } else { a });
    if allow_mapped {
        prop_oneof![4 => plain, 1 => v4().prop_map(|a| a.to_ipv6_mapped())].boxed()
    } else {
        plain.boxed()
    }
}

fn spell_v6(a: Ipv6Addr, form: u8) -> String {
    match form % 4 {
        0 | 1 => a.to_string(),
        2 => a.segments().iter().map(|s| format!("{s:04x}")).collect::<Vec<_>>().join(":"),
        _ => a.segments().iter().map(|s| format!("{s:X}")).collect::<Vec<_>>().join(":"),
    }
}

fn ip_case(allow_mapped: bool, split_halves: bool) -> impl Strategy<Value = IpCase> {
    let ip = prop_oneof![1 => v4().prop_map(|a| a.to_string()), 1 => (v6(allow_mapped), any::<u8>()).prop_map(|(a, f)| spell_v6(a, f))];
    (ip, 0..IP_MODES.len()).prop_flat_map(move |(ip, m)| {
        let (mode, klen) = IP_MODES[m];
        ip_key(klen, split_halves).prop_map(move |k| IpCase { ip: ip.clone(), mode: mode.to_string(), key: TV::bytes(&k) })
    })
}

fn mapped_case(split_halves: bool) -> impl Strategy<Value = IpCase> {
    (v4(), any::<u8>(), 0..IP_MODES.len()).prop_flat_map(move |(a, f, m)| {
        let (mode, klen) = IP_MODES[m];
        let ip = spell_v6(a.to_ipv6_mapped(), f);
        ip_key(klen, split_halves).prop_map(move |k| IpCase { ip: ip.clone(), mode: mode.to_string(), key: TV::bytes(&k) })
    })
}

fn ip_grid(allow_mapped: bool, split_halves: bool) -> Vec<IpCase> {
    let mut out = Vec::new();
    let mut ips: Vec<String> = V4_EDGES.iter().map(|o| Ipv4Addr::from(*o).to_string()).collect();
    ips.extend(V6_EDGES.iter().map(|s| (*s).to_string()));
    if allow_mapped {
        ips.extend(["::ffff:0.0.0.0", "::ffff:192.168.1.1", "::ffff:255.255.255.255", "0:0:0:0:0:FFFF:102:304", "0:0:0:0:0:ffff::", "::ffff:ffff:ffff"].map(String::from));
    }
    for ip in ips {
        for (mode, klen) in IP_MODES {
            for key in [vec![0u8; *klen], vec![0xff; *klen], (0..*klen).map(|i| (i * 17 + 2) as u8).collect()] {
                if split_halves && halves_equal(&key) {
                    continue;
                }
                out.push(IpCase { ip: ip.clone(), mode: (*mode).to_string(), key: TV::bytes(&key) });
            }
        }
    }
    out
}

pub fn run(r: &mut Run) {
    if !r.is_replay() {
        if let Some(msg) = table_rot() {
            r.inconclusive.push(msg);
        }
    }
    let allow_mapped = !r.excluded(SW_MAPPED);
    let split_halves = r.excluded(SW_PFX_KEY);

    r.enumerate("cipher_grid", cipher_grid(), check_cipher);
    r.sub("ciphers", 320_000, 16_000_000, cipher_case, check_cipher);
    r.enumerate("ip_grid", ip_grid(allow_mapped, split_halves), check_ip);
    r.sub("ip", 200_000, 10_000_000, move || ip_case(allow_mapped, split_halves), check_ip);
    r.sub("ip_mapped_same_host", 40_000, 2_000_000, move || mapped_case(split_halves), check_ip_canonical);
}
