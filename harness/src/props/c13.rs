//! C13 — closure parameters are scoped to the closure.

use crate::engine::Run;
use crate::gens::proggen::{Preset, ProgCase};
use crate::model::diff::Agreed;
use crate::props::progdiff;

pub const RULE: &str = "cases = generated programs that bind variables and then call for_each / filter / map_values / map_keys over literal and event-derived objects and arrays (0..4 elements), or replace_with over literal and event-derived strings with six small patterns (0..n matches, optional count) with closure parameters that often reuse the names of those variables; closure bodies succeed, fail on some iteration (typed call on an element of the wrong kind), or `return`; the call sits under `??` so the program continues and reads the variables afterwards; real compiler+runtime vs reference interpreter with save/restore semantics: every variable must hold its pre-call value after the call and parameters that were unset before must be absent from the final runtime state. Non-trivial = a closure failed or returned on some iteration and a parameter shadowed an existing outer variable. Distinct = distinct serialised (program, event) cases.";
pub const NOTE: &str = "trusts the reference interpreter (replace_with is modelled from its documentation with the regex crate); the final runtime state is read through RuntimeState::variable";

fn classify(_case: &ProgCase, a: &Agreed) -> (bool, Vec<&'static str>) {
    let mut c = Vec::new();
    if a.stats.closure_failed > 0 {
        c.push("closure_failed_on_an_iteration");
    }
    if a.stats.closure_returned > 0 {
        c.push("closure_returned_on_an_iteration");
    }
    if a.stats.closure_shadowed_outer > 0 {
        c.push("parameter_shadows_outer_variable");
    }
    if a.stats.closure_iterations > 0 {
        c.push("closure_ran");
    }
    ((a.stats.closure_failed > 0 || a.stats.closure_returned > 0) && a.stats.closure_shadowed_outer > 0, c)
}

pub fn run(r: &mut Run) {
    crate::props::pinned::run(r, pinned_cases());
    let base = progdiff::base_preset(r);
    progdiff::sub(r, "closure_scoping", Preset { closures: 12, shadowing: true, returns: 3, coalesce: 2, infallible_assign: 1, short_circuit: 1, dels: 1, ..base }, 200_000, 10_000_000, classify);
}

fn pinned_cases() -> Vec<crate::props::pinned::Pinned> {
    use crate::gens::value::TV;
    use crate::props::pinned::{case, ev};
    vec![
        case("object for_each fails: outer k restored", "k = \"outer\"\nfor_each({\"a\": 1}) -> |k, v| { to_int(.zz) } ?? null\nk", ev(&[("zz", TV::str("q"))]), "ok").value(TV::str("outer")).var("k", Some(TV::str("outer"))).var("v", None),
        case("array for_each fails: parameters removed", "for_each([1]) -> |i, v| { to_int(.zz) } ?? null\n1", ev(&[("zz", TV::str("q"))]), "ok").var("i", None).var("v", None),
        case("map_values fails midway: outer v restored", "v = 7\ny = (map_values([1, \"s\"]) -> |v| { to_int(v) } ?? [])\nv", ev(&[]), "ok").value(TV::Int(7)).var("v", Some(TV::Int(7))),
        case("map_keys fails: outer k restored", "k = 1\nx = (map_keys({\"a\": 1}) -> |k| { upcase(.zz) } ?? {})\nk", ev(&[("zz", TV::Int(5))]), "ok").value(TV::Int(1)).var("k", Some(TV::Int(1))),
        case("filter fails: parameters removed", "x = (filter([1]) -> |idx, val| { bool(val) } ?? [])\n1", ev(&[]), "ok").var("idx", None).var("val", None),
        case("success: parameters removed", "for_each({\"a\": 1}) -> |key, value| { .x = value }\n1", ev(&[]), "ok").var("key", None).var("value", None),
    ]
}
