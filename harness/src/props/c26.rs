//! C26 — protobuf encoding round-trips.
//!
//! `parse_proto!(encode_proto!(v, desc, type), desc, type) == normalise(v)` for descriptor-driven
//! message-shaped values `v`, for every message type of every `.desc` file under
//! /repo/tests/data/protobuf. The descriptor path and the message type are literal arguments.

use std::cell::RefCell;
use std::collections::BTreeMap;
use std::path::{Path, PathBuf};
use std::sync::OnceLock;

use proptest::prelude::*;
use prost_reflect::{DescriptorPool, FieldDescriptor, Kind, MessageDescriptor};
use serde::{Deserialize, Serialize};
use vrl::compiler::Program;

use crate::engine::{Run, V};
use crate::gens::value::{float, int, raw_bytes, timestamp, ustring, TV};
use crate::vrlx::{self, End};

pub const RULE: &str = "one sub-check per (descriptor file, message type) found by walking every *.desc under /repo/tests/data/protobuf with prost-reflect (synthetic map-entry messages excluded, imported google.protobuf.Timestamp included). A case is an object built by walking the MessageDescriptor to depth 3: every member is absent (20 %; 4 % in single-member messages), null (3 %) or populated; int32/sint32/sfixed32 over the i32 range, uint32 over the u32 range, int64 over i64, uint64 over 0..=i64::MAX, double over non-NaN floats incl. infinities and signed zero, float over f32-representable values, bool, strings over a Unicode stress alphabet, bytes arbitrary (often invalid UTF-8), enums by value name, repeated fields with 0-4 elements, maps with 0-4 entries (keys in canonical decimal / true|false form over the key type's full range, uint64 keys up to 2^64-1), nested messages, google.protobuf.Timestamp fields as {seconds, nanos} objects or as VRL timestamps. Expected value = the input with null members removed and, in messages without explicit presence (proto3 non-optional scalars/enums), members holding the default (0, 0.0, \"\", empty bytes, false, enum value 0) removed, empty repeated/map members removed, VRL timestamps replaced by their {seconds, nanos} message. Non-trivial = at least two populated members (counted recursively, list elements and map entries included) of which one is repeated/map/message/enum; for message types that only have plain scalar members (Integers, Floats, Bytes, Booleans, ...): min(2, number of members) populated non-default members. Distinct = distinct serialised cases.";
pub const NOTE: &str = "descriptors are read with prost-reflect (the library the implementation uses): trusted for field names, kinds, cardinality and presence, not for values. -0.0 in a double/float field without presence may come back either as absent or as -0.0 (both accepted). A VRL timestamp in a google.protobuf.Timestamp field is expected to come back as the {seconds, nanos} object of the same instant (parse_proto has no timestamp mapping), which is what the message-shaped form of the same value gives.";

const DESC_ROOT: &str = "/repo/tests/data/protobuf";

#[derive(Clone, Debug, Serialize, Deserialize)]
pub struct Case {
    /// descriptor file, relative to /repo/tests/data/protobuf
    pub desc: String,
    /// full message type name
    pub msg: String,
    pub v: TV,
}

// ------------------------------------------------------------------------------------------
// descriptor sets

fn walk(dir: &Path, out: &mut Vec<PathBuf>) {
    let Ok(rd) = std::fs::read_dir(dir) else { return };
    let mut entries: Vec<PathBuf> = rd.filter_map(|e| e.ok().map(|e| e.path())).collect();
    entries.sort();
    for p in entries {
        if p.is_dir() {
            walk(&p, out);
        } else if p.extension().is_some_and(|e| e == "desc") {
            out.push(p);
        }
    }
}

/// (relative path, pool), sorted by path
fn pools() -> &'static Vec<(String, DescriptorPool)> {
    static POOLS: OnceLock<Vec<(String, DescriptorPool)>> = OnceLock::new();
    POOLS.get_or_init(|| {
        let mut files = Vec::new();
        walk(Path::new(DESC_ROOT), &mut files);
        files
            .into_iter()
            .map(|p| {
                let bytes = std::fs::read(&p).unwrap_or_else(|e| panic!("cannot read {}: {e}", p.display()));
                let pool = DescriptorPool::decode(bytes.as_slice()).unwrap_or_else(|e| panic!("cannot decode {}: {e}", p.display()));
                let rel = p.strip_prefix(DESC_ROOT).expect("under root").to_string_lossy().to_string();
                (rel, pool)
            })
            .collect()
    })
}

fn message(desc: &str, msg: &str) -> Option<MessageDescriptor> {
    pools().iter().find(|(p, _)| p == desc).and_then(|(_, pool)| pool.get_message_by_name(msg))
}

fn all_types() -> Vec<(String, String)> {
    let mut out = Vec::new();
    for (path, pool) in pools() {
        let mut names: Vec<String> = pool.all_messages().filter(|m| !m.is_map_entry()).map(|m| m.full_name().to_string()).collect();
        names.sort();
        for n in names {
            out.push((path.clone(), n));
        }
    }
    out
}

const TIMESTAMP: &str = "google.protobuf.Timestamp";

// ------------------------------------------------------------------------------------------
// the model: what must come back

#[derive(Default)]
struct Stats {
    populated: usize,
    non_scalar: bool,
    repeated: bool,
    map: bool,
    nested: bool,
    enums: bool,
    ts_value: bool,
    default_dropped: bool,
    presence_default_kept: bool,
    empty_message: bool,
    neg_zero: bool,
    null_member: bool,
    big_map_key: bool,
    invalid_utf8_bytes: bool,
}

fn enum_default_name(kind: &Kind) -> Option<String> {
    kind.as_enum().and_then(|e| e.get_value(0)).map(|v| v.name().to_string())
}

/// is `v` the default of a scalar/enum kind? (`neg_zero_is_default` decides for -0.0)
fn is_default(kind: &Kind, v: &TV, neg_zero_is_default: bool, st: &mut Stats) -> bool {
    match (kind, v) {
        (Kind::Double | Kind::Float, TV::Float(x)) => {
            if x.0 == 0.0 && x.0.is_sign_negative() {
                st.neg_zero = true;
                neg_zero_is_default
            } else {
                x.0 == 0.0
            }
        }
        (Kind::Bool, TV::Bool(b)) => !*b,
        (Kind::String | Kind::Bytes, TV::Str(s)) => s.is_empty(),
        (Kind::Enum(_), TV::Str(s)) => enum_default_name(kind).as_deref() == Some(s.as_str()),
        (_, TV::Int(i)) => *i == 0,
        _ => false,
    }
}

/// value of a single (non-repeated) occurrence of `kind`
fn norm_single(kind: &Kind, v: &TV, nz: bool, st: &mut Stats) -> Result<TV, String> {
    match (kind, v) {
        (Kind::Message(md), TV::Ts { s, n }) if md.full_name() == TIMESTAMP => {
            st.ts_value = true;
            st.nested = true;
            let mut o = BTreeMap::new();
            if *s != 0 {
                o.insert("seconds".to_string(), TV::Int(*s));
            }
            if *n != 0 {
                o.insert("nanos".to_string(), TV::Int(i64::from(*n)));
            }
            st.populated += o.len();
            Ok(TV::Object(o))
        }
        (Kind::Message(md), TV::Object(_)) => {
            st.nested = true;
            let r = normalise(md, v, nz, st)?;
            if matches!(&r, TV::Object(o) if o.is_empty()) {
                st.empty_message = true;
            }
            Ok(r)
        }
        (Kind::Message(_), other) => Err(format!("harness: message field holds {other:?}")),
        (Kind::Enum(_), _) => {
            st.enums = true;
            Ok(v.clone())
        }
        (Kind::Bytes, TV::Bin(_)) => {
            st.invalid_utf8_bytes = true;
            Ok(v.clone())
        }
        _ => Ok(v.clone()),
    }
}

/// The object that `parse_proto(encode_proto(v))` must return for a message-shaped `v`.
fn normalise(md: &MessageDescriptor, v: &TV, nz: bool, st: &mut Stats) -> Result<TV, String> {
    let TV::Object(obj) = v else { return Err(format!("harness: message value is {v:?}")) };
    let mut out = BTreeMap::new();
    for f in md.fields() {
        let Some(fv) = obj.get(f.name()) else { continue };
        if matches!(fv, TV::Null) {
            st.null_member = true;
            continue;
        }
        let kind = f.kind();
        if f.is_list() {
            let TV::Array(items) = fv else { return Err(format!("harness: repeated field holds {fv:?}")) };
            if items.is_empty() {
                st.default_dropped = true;
                continue;
            }
            st.repeated = true;
            st.non_scalar = true;
            st.populated += 1 + items.len();
            let mut a = Vec::new();
            for it in items {
                a.push(norm_single(&kind, it, nz, st)?);
            }
            out.insert(f.name().to_string(), TV::Array(a));
        } else if f.is_map() {
            let TV::Object(entries) = fv else { return Err(format!("harness: map field holds {fv:?}")) };
            if entries.is_empty() {
                st.default_dropped = true;
                continue;
            }
            st.map = true;
            st.non_scalar = true;
            st.populated += 1 + entries.len();
            let entry = kind.as_message().ok_or("harness: map field without entry message")?;
            let vkind = entry.map_entry_value_field().kind();
            let mut o = BTreeMap::new();
            for (k, x) in entries {
                if k.parse::<u64>().is_ok_and(|u| u > i64::MAX as u64) {
                    st.big_map_key = true;
                }
                o.insert(k.clone(), norm_single(&vkind, x, nz, st)?);
            }
            out.insert(f.name().to_string(), TV::Object(o));
        } else if matches!(kind, Kind::Message(_)) {
            st.non_scalar = true;
            st.populated += 1;
            out.insert(f.name().to_string(), norm_single(&kind, fv, nz, st)?);
        } else {
            let dflt = is_default(&kind, fv, nz, st);
            if f.supports_presence() {
                if dflt {
                    st.presence_default_kept = true;
                }
            } else if dflt {
                st.default_dropped = true;
                continue;
            }
            if matches!(kind, Kind::Enum(_)) {
                st.non_scalar = true;
            }
            st.populated += 1;
            out.insert(f.name().to_string(), norm_single(&kind, fv, nz, st)?);
        }
    }
    Ok(TV::Object(out))
}

// ------------------------------------------------------------------------------------------
// the check

/// message types whose members are all plain scalars (no repeated/map/message/enum member)
fn scalar_only(md: &MessageDescriptor) -> bool {
    md.fields().all(|f| !f.is_list() && !f.is_map() && !matches!(f.kind(), Kind::Message(_) | Kind::Enum(_)))
}

fn desc_path(desc: &str) -> String {
    format!("{DESC_ROOT}/{desc}")
}

thread_local! {
    /// compiled (encode, parse) programs per (desc, msg): the sources only depend on the type
    static PROGRAMS: RefCell<BTreeMap<(String, String), Result<(Program, Program), String>>> = const { RefCell::new(BTreeMap::new()) };
}

fn sources(desc: &str, msg: &str) -> (String, String) {
    let d = vrlx::str_lit(&desc_path(desc));
    let m = vrlx::str_lit(msg);
    (format!("encode_proto!(.v, {d}, {m})"), format!("parse_proto!(.b, {d}, {m})"))
}

fn with_programs<T>(desc: &str, msg: &str, f: impl FnOnce(&Result<(Program, Program), String>) -> T) -> T {
    PROGRAMS.with(|cell| {
        let mut map = cell.borrow_mut();
        let entry = map.entry((desc.to_string(), msg.to_string())).or_insert_with(|| {
            let (e, p) = sources(desc, msg);
            let enc = vrlx::compile(&e).map_err(|d| format!("`{e}` does not compile: {}", vrlx::diag_summary(&d)))?;
            let par = vrlx::compile(&p).map_err(|d| format!("`{p}` does not compile: {}", vrlx::diag_summary(&d)))?;
            Ok((enc.program, par.program))
        });
        f(entry)
    })
}

fn check(c: &Case) -> V {
    // never hand a wrong path / type to the functions (known D33: compile-time panic)
    let Some(md) = message(&c.desc, &c.msg) else { return V::discard("unknown_descriptor_or_type") };
    let mut st = Stats::default();
    let want = match normalise(&md, &c.v, true, &mut st) {
        Ok(w) => w,
        Err(e) => return V::fail(e),
    };
    let want_alt = if st.neg_zero {
        match normalise(&md, &c.v, false, &mut Stats::default()) {
            Ok(w) => Some(w),
            Err(e) => return V::fail(e),
        }
    } else {
        None
    };
    let (esrc, psrc) = sources(&c.desc, &c.msg);
    let res = with_programs(&c.desc, &c.msg, |p| match p {
        Err(e) => Err(V::fail(e.clone())),
        Ok((enc, par)) => {
            let out = vrlx::run(enc, vrlx::event_of(&[("v", &c.v)]), vrlx::empty_object());
            let bytes = match out.end {
                End::Ok(b) => b,
                other => return Err(V::fail(format!("`{esrc}` failed on .v = {:?}: {other:?}", c.v))),
            };
            if !bytes.is_bytes() {
                return Err(V::fail(format!("`{esrc}` returned a non-bytes value {bytes}")));
            }
            let mut ev = BTreeMap::new();
            ev.insert("b".into(), bytes.clone());
            let out = vrlx::run(par, vrl::value::Value::Object(ev), vrlx::empty_object());
            match out.end {
                End::Ok(v) => Ok(v),
                other => Err(V::fail(format!("`{psrc}` failed on the output of `{esrc}` for .v = {:?} (bytes {}): {other:?}", c.v, TV::from_value(&bytes).as_bytes().map(hex::encode).unwrap_or_default()))),
            }
        }
    });
    let got = match res {
        Ok(v) => TV::from_value(&v),
        Err(v) => return v,
    };
    if got != want && want_alt.as_ref() != Some(&got) {
        return V::fail(format!("{} round trip: input {:?} came back as {got:?}, expected {want:?}", c.msg, c.v));
    }
    V::pass()
        .nontrivial(if scalar_only(&md) { st.populated >= md.fields().len().min(2) } else { st.populated >= 2 && st.non_scalar })
        .class_if(st.repeated, "has_repeated")
        .class_if(st.map, "has_map")
        .class_if(st.nested, "has_nested_message")
        .class_if(st.enums, "has_enum")
        .class_if(st.ts_value, "vrl_timestamp_value")
        .class_if(st.default_dropped, "default_or_empty_member_dropped")
        .class_if(st.presence_default_kept, "default_kept_under_explicit_presence")
        .class_if(st.empty_message, "empty_nested_message")
        .class_if(st.neg_zero, "negative_zero")
        .class_if(st.null_member, "null_member")
        .class_if(st.big_map_key, "uint64_map_key_beyond_i64")
        .class_if(st.invalid_utf8_bytes, "bytes_not_utf8")
        .class_if(st.populated == 0, "empty_after_normalisation")
}

// ------------------------------------------------------------------------------------------
// descriptor-driven generators

fn i32_val() -> impl Strategy<Value = i64> {
    prop_oneof![
        3 => prop_oneof![Just(0i64), Just(1), Just(-1), Just(i64::from(i32::MAX)), Just(i64::from(i32::MIN)), Just(127), Just(128), Just(-128), Just(-129), Just(16_383), Just(16_384), Just(2_097_152)],
        3 => -20i64..=20,
        3 => i64::from(i32::MIN)..=i64::from(i32::MAX),
    ]
}

fn u32_val() -> impl Strategy<Value = i64> {
    prop_oneof![
        3 => prop_oneof![Just(0i64), Just(1), Just(127), Just(128), Just(i64::from(i32::MAX)), Just(i64::from(i32::MAX) + 1), Just(i64::from(u32::MAX)), Just(i64::from(u32::MAX) - 1)],
        2 => 0i64..=20,
        3 => 0i64..=i64::from(u32::MAX),
    ]
}

fn u64_val() -> impl Strategy<Value = i64> {
    prop_oneof![
        3 => prop_oneof![Just(0i64), Just(1), Just(i64::MAX), Just(i64::MAX - 1), Just(i64::from(u32::MAX)), Just(i64::from(u32::MAX) + 1), Just(1i64 << 62), Just(1i64 << 56)],
        2 => 0i64..=20,
        3 => 0i64..=i64::MAX,
    ]
}

fn f32_val() -> impl Strategy<Value = f64> {
    prop_oneof![
        3 => float().prop_map(|x| f64::from(x as f32)),
        2 => any::<u32>().prop_map(|b| f64::from(f32::from_bits(b))),
        1 => prop_oneof![Just(0.0f64), Just(-0.0f64), Just(f64::from(f32::MAX)), Just(f64::from(f32::MIN_POSITIVE)), Just(f64::from(f32::from_bits(1))), Just(1.5f64), Just(f64::INFINITY), Just(f64::NEG_INFINITY)],
    ]
    .prop_filter_map("nan", |x| if x.is_nan() { None } else { Some(x) })
}

fn f64_val() -> impl Strategy<Value = f64> {
    prop_oneof![6 => float(), 1 => Just(0.0f64), 1 => Just(-0.0f64)]
}

fn scalar_strategy(kind: &Kind) -> Option<BoxedStrategy<TV>> {
    Some(match kind {
        Kind::Double => f64_val().prop_map(TV::float).boxed(),
        Kind::Float => f32_val().prop_map(TV::float).boxed(),
        Kind::Int32 | Kind::Sint32 | Kind::Sfixed32 => i32_val().prop_map(TV::Int).boxed(),
        Kind::Int64 | Kind::Sint64 | Kind::Sfixed64 => int().prop_map(TV::Int).boxed(),
        Kind::Uint32 | Kind::Fixed32 => u32_val().prop_map(TV::Int).boxed(),
        Kind::Uint64 | Kind::Fixed64 => u64_val().prop_map(TV::Int).boxed(),
        Kind::Bool => any::<bool>().prop_map(TV::Bool).boxed(),
        Kind::String => prop_oneof![6 => ustring(8).prop_map(TV::Str), 1 => Just(TV::Str(String::new()))].boxed(),
        Kind::Bytes => prop_oneof![6 => raw_bytes(10).prop_map(|b| TV::bytes(&b)), 1 => Just(TV::Str(String::new()))].boxed(),
        Kind::Enum(e) => {
            let names: Vec<String> = e.values().map(|v| v.name().to_string()).collect();
            if names.is_empty() {
                return None;
            }
            (0..names.len()).prop_map(move |i| TV::Str(names[i].clone())).boxed()
        }
        Kind::Message(_) => return None,
    })
}

fn single_strategy(kind: &Kind, depth: u32) -> BoxedStrategy<TV> {
    match kind {
        Kind::Message(md) => {
            if md.full_name() == TIMESTAMP {
                prop_oneof![
                    1 => msg_strategy(md, depth.saturating_sub(1)),
                    1 => timestamp().prop_map(|(s, n)| TV::Ts { s, n }),
                ]
                .boxed()
            } else if depth == 0 {
                Just(TV::Object(BTreeMap::new())).boxed()
            } else {
                msg_strategy(md, depth - 1)
            }
        }
        k => scalar_strategy(k).unwrap_or_else(|| Just(TV::Null).boxed()),
    }
}

fn map_key_strategy(kind: &Kind) -> BoxedStrategy<String> {
    match kind {
        Kind::Bool => any::<bool>().prop_map(|b| b.to_string()).boxed(),
        Kind::Int32 | Kind::Sint32 | Kind::Sfixed32 => i32_val().prop_map(|i| i.to_string()).boxed(),
        Kind::Int64 | Kind::Sint64 | Kind::Sfixed64 => int().prop_map(|i| i.to_string()).boxed(),
        Kind::Uint32 | Kind::Fixed32 => u32_val().prop_map(|i| i.to_string()).boxed(),
        Kind::Uint64 | Kind::Fixed64 => prop_oneof![
            3 => u64_val().prop_map(|i| i.to_string()),
            2 => any::<u64>().prop_map(|u| u.to_string()),
            1 => prop_oneof![Just(u64::MAX.to_string()), Just((1u64 << 63).to_string()), Just(((1u64 << 63) + 1).to_string())],
        ]
        .boxed(),
        _ => prop_oneof![6 => ustring(6), 1 => Just(String::new())].boxed(),
    }
}

fn field_strategy(f: &FieldDescriptor, depth: u32, only_field: bool) -> BoxedStrategy<Option<TV>> {
    let kind = f.kind();
    let present: BoxedStrategy<TV> = if f.is_list() {
        prop_oneof![
            1 => Just(TV::Array(Vec::new())),
            12 => proptest::collection::vec(single_strategy(&kind, depth), 1..=4).prop_map(TV::Array),
        ]
        .boxed()
    } else if f.is_map() {
        let entry = kind.as_message().expect("map entry").clone();
        let k = map_key_strategy(&entry.map_entry_key_field().kind());
        let v = single_strategy(&entry.map_entry_value_field().kind(), depth);
        prop_oneof![
            1 => Just(TV::Object(BTreeMap::new())),
            12 => proptest::collection::btree_map(k, v, 1..=4).prop_map(TV::Object),
        ]
        .boxed()
    } else {
        single_strategy(&kind, depth)
    };
    // a message with a single member is rarely left empty
    let (absent, null) = if only_field { (4, 2) } else { (20, 3) };
    prop_oneof![
        absent => Just(None),
        null => Just(Some(TV::Null)),
        100 - absent - null => present.prop_map(Some),
    ]
    .boxed()
}

fn msg_strategy(md: &MessageDescriptor, depth: u32) -> BoxedStrategy<TV> {
    let names: Vec<String> = md.fields().map(|f| f.name().to_string()).collect();
    let only = names.len() == 1;
    let strats: Vec<BoxedStrategy<Option<TV>>> = md.fields().map(|f| field_strategy(&f, depth, only)).collect();
    strats
        .prop_map(move |vals| TV::Object(names.iter().zip(vals).filter_map(|(n, v)| v.map(|v| (n.clone(), v))).collect()))
        .boxed()
}

fn case_strategy(desc: String, msg: String) -> BoxedStrategy<Case> {
    let md = message(&desc, &msg).expect("listed type exists");
    msg_strategy(&md, 3).prop_map(move |v| Case { desc: desc.clone(), msg: msg.clone(), v }).boxed()
}

pub fn run(r: &mut Run) {
    for (desc, msg) in all_types() {
        // sub-check name: "<descriptor dir>:<message type>"
        let dir = desc.split('/').next().unwrap_or("").to_string();
        let name = format!("{dir}:{msg}");
        let (d, m) = (desc.clone(), msg.clone());
        r.sub(&name, 15_000, 1_000_000, move || case_strategy(d.clone(), m.clone()), check);
    }
}
