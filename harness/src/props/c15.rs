//! C15 — read-only paths are never modified.

use serde::{Deserialize, Serialize};
use vrl::compiler::state::ExternalEnv;
use vrl::compiler::CompileConfig;

use crate::engine::{Run, V};
use crate::gens::mutprog::{self, known_classes, Cfg, MutCase, MutKind, RoPath};
use crate::gens::path::{to_target_path, Seg};
use crate::gens::prog::{any_node, program_src, E};
use crate::gens::value::TV;
use crate::model::targets::{Access, LogTarget, Op};
use crate::model::vpath;
use crate::vrlx;

pub const RULE: &str = "cases = (1-4 read-only paths: event or metadata, recursive or not, 1-3 field/index segments, two thirds of them chosen among the locations that exist in the generated event) x (a program of 1-4 statement groups, each a write `p = v`, `p = {..}` followed by `p |= {..}`, `ok, err = <fallible>` with target paths, `del(p)`, `del(p, compact: true)`, placed at top level or inside if/else branches, for_each/map_values/filter/map_keys closure bodies, blocks on right-hand sides, right operands of `||`/`&&`/`??`; the mutated paths are derived from the read-only paths: the path itself, parent, child, grandchild, sibling field, other index of the same array (positive, negative, aliasing), sibling of the other segment kind, root, other prefix, or random over the same vocabulary) x (event and metadata with scalars, objects, arrays of length 0-4, nested to depth 2). The program is compiled with CompileConfig::set_read_only_path for every path. Rejected programs (E315) are counted as class `rejected_read_only` and are trivial. Accepted programs run on a logging Target wrapper; afterwards, for every read-only path P: recursive => the subtree at P is deeply equal to the one before (absent stays absent); non-recursive => the value at P is the same scalar / still absent / still a container of the same kind. Values are read with the harness's own path model (model/vpath.rs). Non-trivial = accepted and the run performed at least one target insert or remove whose path shares its first segment (and prefix) with a read-only path (or the read-only path is a root). Distinct = distinct serialised cases. Three quarters of the candidate mutations the documented rule would reject are re-drawn so that about half of the programs are accepted.";
pub const NOTE: &str = "trusts model/vpath.rs for reading values at paths (checked against the real implementation by C18) and TargetValue as the event store; only the default `TargetValue` target semantics are exercised (embedders' targets may differ); open known findings remove, by construction, the mutation classes listed in known_findings.json (negative-index aliasing, writes below a non-recursive read-only non-container, compacting deletes, index-shifting deletes, sibling writes of the other segment kind, index padding)";

#[derive(Clone, Debug, Serialize, Deserialize)]
pub struct SrcCase {
    pub name: String,
    pub ro: Vec<RoPath>,
    pub src: String,
    pub event: TV,
    #[serde(default = "empty_obj")]
    pub meta: TV,
    /// "accepted" | "rejected" | "any"
    #[serde(default = "any_str")]
    pub expect: String,
}

fn empty_obj() -> TV {
    TV::Object(Default::default())
}
fn any_str() -> String {
    "any".to_string()
}

fn shares_prefix(a: &Access, r: &RoPath) -> bool {
    a.meta == r.meta && (r.path.is_empty() || a.path.is_empty() || a.path[0] == r.path[0])
}

fn kind_name(v: Option<&TV>) -> &'static str {
    match v {
        None => "absent",
        Some(TV::Object(_)) => "object",
        Some(TV::Array(_)) => "array",
        Some(_) => "scalar",
    }
}

/// the oracle on source level
pub fn check_src(ro: &[RoPath], src: &str, event: &TV, meta: &TV, expect: &str) -> V {
    let mut cfg = CompileConfig::default();
    for r in ro {
        cfg.set_read_only_path(to_target_path(r.meta, &r.path), r.recursive);
    }
    let res = match vrlx::compile_cfg(src, &ExternalEnv::default(), cfg) {
        Ok(r) => r,
        Err(d) => {
            let codes = vrlx::diag_codes(&d);
            // `del` reports its read-only diagnostic wrapped in E610 (function compilation error)
            let read_only = codes.contains(&315) || d.iter().any(|x| x.code == 610 && x.message.contains("error[E315]"));
            if read_only {
                if expect == "accepted" {
                    return V::fail(format!("expected the program to be accepted, got {}\n{src}", vrlx::diag_summary(&d)));
                }
                return V::pass().class("rejected_read_only").class(if codes.contains(&315) { "rejected_assignment" } else { "rejected_del" });
            }
            if expect != "any" {
                return V::fail(format!("expected `{expect}`, got an unrelated rejection {}\n{src}", vrlx::diag_summary(&d)));
            }
            let code = codes.first().copied().unwrap_or(0);
            if let Ok(want) = std::env::var("VCHECK_DUMP") {
                if want == format!("E{code}") {
                    eprintln!("=== {}\n{src}", vrlx::diag_summary(&d));
                }
            }
            return V::discard(match code {
                642 => "rejected_E642_parent_kind",
                103 => "rejected_E103",
                100 => "rejected_E100",
                110 => "rejected_E110",
                652 => "rejected_E652_merge",
                104 => "rejected_E104",
                651 => "rejected_E651",
                _ => crate::props::c22::intern(format!("rejected_E{code}")),
            });
        }
    };
    if expect == "rejected" {
        return V::fail(format!("the program must be rejected (it mutates a read-only path) but was accepted\n{src}"));
    }
    let mut target = LogTarget::new(event.to_value(), meta.to_value());
    let (end, _state) = vrlx::run_on(&res.program, &mut target, &vrlx::utc());
    let log = target.accesses();
    let after_event = TV::from_value(&target.inner.value);
    let after_meta = TV::from_value(&target.inner.metadata);

    // classes of the mutations that were performed (labels failures; never excuses them)
    let mut classes: Vec<&'static str> = Vec::new();
    for a in &log {
        let kind = match (a.op, a.compact) {
            (Op::Insert, _) => MutKind::Write,
            (Op::Remove, false) => MutKind::Del,
            (Op::Remove, true) => MutKind::DelCompact,
            _ => continue,
        };
        for c in known_classes(ro, event, meta, a.meta, &a.path, kind) {
            if !classes.contains(&c) {
                classes.push(c);
            }
        }
    }
    classes.sort_unstable();

    for r in ro {
        let (before_root, after_root) = if r.meta { (meta, &after_meta) } else { (event, &after_event) };
        let before = vpath::get(before_root, &r.path);
        let after = vpath::get(after_root, &r.path);
        let ok = if r.recursive {
            before == after
        } else {
            match (before, after) {
                (Some(TV::Object(_)), Some(TV::Object(_))) | (Some(TV::Array(_)), Some(TV::Array(_))) => true,
                (Some(TV::Object(_) | TV::Array(_)), _) | (_, Some(TV::Object(_) | TV::Array(_))) => false,
                (b, a) => b == a,
            }
        };
        if !ok {
            let muts: Vec<String> = log.iter().filter(|a| matches!(a.op, Op::Insert | Op::Remove)).map(Access::render).collect();
            let sig = if classes.is_empty() { "c15:unexplained".to_string() } else { format!("c15:{}", classes.join("+")) };
            return V::fail_sig(
                sig,
                format!(
                    "read-only path {} changed: before {} ({}), after {} ({})\n--- accepted program:\n{src}--- read-only: {}\n--- event: {}\n--- metadata: {}\n--- target mutations performed: {}\n--- run ended with {:?}",
                    r.render(),
                    before.map_or("<absent>".to_string(), |v| v.to_value().to_string()),
                    kind_name(before),
                    after.map_or("<absent>".to_string(), |v| v.to_value().to_string()),
                    kind_name(after),
                    ro.iter().map(RoPath::render).collect::<Vec<_>>().join(", "),
                    event.to_value(),
                    meta.to_value(),
                    muts.join(" "),
                    end.class(),
                ),
            );
        }
    }

    // generator health
    let near: Vec<&Access> = log.iter().filter(|a| matches!(a.op, Op::Insert | Op::Remove) && ro.iter().any(|r| shares_prefix(a, r))).collect();
    let mut v = V::pass().nontrivial(!near.is_empty()).class("accepted").class(end.class());
    v = v.class_if(ro.iter().any(|r| r.recursive), "has_recursive_path").class_if(ro.iter().any(|r| !r.recursive), "has_non_recursive_path");
    v = v.class_if(ro.iter().any(|r| r.meta), "has_metadata_path").class_if(ro.iter().any(|r| r.path.iter().any(|s| matches!(s, Seg::I(_)))), "read_only_path_with_index");
    for a in &near {
        for r in ro.iter().filter(|r| r.meta == a.meta) {
            let k = r.path.iter().zip(a.path.iter()).take_while(|(x, y)| x == y).count();
            let ins = a.op == Op::Insert;
            if k == r.path.len() && a.path.len() > k {
                v = v.class(if ins { "write_to_descendant_of_non_recursive" } else { "del_descendant_of_non_recursive" });
            } else if k < r.path.len() && k < a.path.len() && k + 1 == r.path.len().min(a.path.len()) {
                v = v.class(if ins { "write_to_sibling" } else { "del_sibling" });
                if let (Seg::I(x), Seg::I(_)) = (&a.path[k], &r.path[k]) {
                    v = v.class(if *x < 0 { "mutation_via_negative_index_of_same_array" } else { "mutation_via_other_index_of_same_array" });
                }
            } else if k >= 1 {
                v = v.class("mutation_shares_prefix");
            }
        }
        v = v.class_if(a.compact, "del_with_compact");
    }
    v
}

fn check(c: &MutCase) -> V {
    let src = program_src(&c.prog);
    let mut v = check_src(&c.ro, &src, &c.event, &c.meta, "any");
    if !v.is_fail() {
        v = v
            .class_if(any_node(&c.prog, &|e| matches!(e, E::Call { closure: Some(_), .. })), "program_with_closure")
            .class_if(any_node(&c.prog, &|e| matches!(e, E::If { .. })), "program_with_branch");
        for k in c.avoided.keys() {
            v = v.class(crate::props::c22::intern(format!("avoided:{k}")));
        }
    }
    v
}

fn check_source_case(c: &SrcCase) -> V {
    let v = check_src(&c.ro, &c.src, &c.event, &c.meta, &c.expect);
    if v.is_fail() {
        v
    } else {
        v.nontrivial(true)
    }
}

fn ro(meta: bool, path: &[Seg], recursive: bool) -> RoPath {
    RoPath { meta, path: path.to_vec(), recursive }
}
fn fld(s: &str) -> Seg {
    Seg::F(s.to_string())
}

fn source_cases(r: &Run) -> Vec<SrcCase> {
    use crate::props::pinned::ev;
    let arr = |v: &[i64]| TV::Array(v.iter().map(|i| TV::Int(*i)).collect());
    let mut out = Vec::new();
    let mut push = |name: &str, ros: Vec<RoPath>, src: &str, event: TV, meta: TV, expect: &str| {
        out.push(SrcCase { name: name.into(), ro: ros, src: src.into(), event, meta, expect: expect.into() });
    };
    let a5 = ev(&[("a", TV::Int(5))]);
    let ab = ev(&[("a", ev(&[("b", TV::Int(1))]))]);
    // what the compiler must reject (positive controls of the mechanism)
    push("assignment to the path", vec![ro(false, &[fld("a")], false)], ".a = 1", a5.clone(), empty_obj(), "rejected");
    push("assignment to the parent (root)", vec![ro(false, &[fld("a"), fld("b")], true)], ". = {}", ab.clone(), empty_obj(), "rejected");
    push("assignment to the parent", vec![ro(false, &[fld("a"), fld("b")], false)], ".a = 1", ab.clone(), empty_obj(), "rejected");
    push("assignment below a recursive path", vec![ro(false, &[fld("a")], true)], ".a.b.c = 1", ab.clone(), empty_obj(), "rejected");
    push("del of the path", vec![ro(false, &[fld("a")], false)], "del(.a)", a5.clone(), empty_obj(), "rejected");
    push("del of the parent", vec![ro(false, &[fld("a"), fld("b")], true)], "del(.a)", ab.clone(), empty_obj(), "rejected");
    push("del below a recursive path", vec![ro(false, &[fld("a")], true)], "del(.a.b)", ab.clone(), empty_obj(), "rejected");
    push("metadata assignment", vec![ro(true, &[fld("m")], true)], "%m = 1", a5.clone(), ev(&[("m", TV::Int(1))]), "rejected");
    push("metadata root assignment", vec![ro(true, &[fld("m")], true)], "% = {}", a5.clone(), ev(&[("m", TV::Int(1))]), "rejected");
    push("metadata del", vec![ro(true, &[fld("m")], false)], "del(%m)", a5.clone(), ev(&[("m", TV::Int(1))]), "rejected");
    push("err target of the infallible form", vec![ro(false, &[fld("a")], true)], "x, .a = to_int(.s)", a5.clone(), empty_obj(), "rejected");
    push("ok target of the infallible form", vec![ro(false, &[fld("a")], true)], ".a, err = to_int(.s)", a5.clone(), empty_obj(), "rejected");
    push("merge assignment", vec![ro(false, &[fld("a")], true)], ".b = {}\n.b |= {\"x\": 1}\n.a = {}\n.a |= {\"x\": 1}", a5.clone(), empty_obj(), "rejected");
    push("assignment inside a closure", vec![ro(false, &[fld("a")], true)], "for_each([1]) -> |_i, v| { .a = v }", a5.clone(), empty_obj(), "rejected");
    push("assignment in a dead branch", vec![ro(false, &[fld("a")], true)], "if false { .a = 1 }", a5.clone(), empty_obj(), "rejected");
    push("index path", vec![ro(false, &[fld("arr"), Seg::I(0)], true)], ".arr[0] = 9", ev(&[("arr", arr(&[1, 2]))]), empty_obj(), "rejected");
    // what is accepted and harmless
    push("sibling field", vec![ro(false, &[fld("a"), fld("b")], true)], ".a.c = 1\ndel(.a.d)", ab.clone(), empty_obj(), "accepted");
    push("other prefix", vec![ro(true, &[fld("a")], true)], ".a = 1\ndel(.a)", a5.clone(), ev(&[("a", TV::Int(1))]), "accepted");
    push("child of a non-recursive object", vec![ro(false, &[fld("a")], false)], ".a.c = 1\ndel(.a.b)", ab.clone(), empty_obj(), "accepted");
    push("higher index of the same array", vec![ro(false, &[fld("arr"), Seg::I(0)], true)], ".arr[1] = 9\n.arr[3] = 1\ndel(.arr[2])", ev(&[("arr", arr(&[1, 2]))]), empty_obj(), "accepted");
    // the shapes of the open known findings: listed here once the finding is no longer open
    // (while it is open they live in the pinned replays only)
    let kf: Vec<(&str, SrcCase)> = known_shapes();
    for (sw, c) in kf {
        if !r.known.iter().any(|k| k.status == "open" && k.excluded_by.as_deref() == Some(sw)) {
            out.push(c);
        }
    }
    out
}

/// minimal programs of the known defect classes (also written to replays/C15-*.json)
pub fn known_shapes() -> Vec<(&'static str, SrcCase)> {
    use crate::props::pinned::ev;
    let arr = |v: &[i64]| TV::Array(v.iter().map(|i| TV::Int(*i)).collect());
    let mk = |name: &str, ros: Vec<RoPath>, src: &str, event: TV| SrcCase { name: name.into(), ro: ros, src: src.into(), event, meta: empty_obj(), expect: "any".into() };
    vec![
        (mutprog::SW_NEG_INDEX, mk("D21 negative index aliases read-only .arr[0]", vec![ro(false, &[fld("arr"), Seg::I(0)], false)], ".arr[-1] = 9", ev(&[("arr", arr(&[1]))]))),
        (mutprog::SW_NEG_INDEX, mk("D21 front padding shifts read-only .arr[0]", vec![ro(false, &[fld("arr"), Seg::I(0)], true)], ".arr[-3] = 9", ev(&[("arr", arr(&[1, 2]))]))),
        (mutprog::SW_BELOW_NONREC, mk("D22 write below a non-recursive read-only scalar", vec![ro(false, &[fld("a")], false)], ".a.b = 1", ev(&[("a", TV::Int(5))]))),
        (mutprog::SW_COMPACT_DEL, mk("D22 compacting delete removes the non-recursive read-only path", vec![ro(false, &[fld("a")], false)], "del(.a.b, compact: true)", ev(&[("a", ev(&[("b", TV::Int(1))]))]))),
        (mutprog::SW_DEL_SHIFT, mk("delete of a lower index shifts the read-only element", vec![ro(false, &[fld("arr"), Seg::I(1)], true)], "del(.arr[0])", ev(&[("arr", arr(&[1, 2, 3]))]))),
        (mutprog::SW_KIND_MISMATCH, mk("field write into the array that holds a read-only index", vec![ro(false, &[fld("arr"), Seg::I(0)], true)], ".arr.x = 1", ev(&[("arr", arr(&[1, 2]))]))),
        (mutprog::SW_PADDING, mk("index padding creates the absent read-only index", vec![ro(false, &[fld("arr"), Seg::I(1)], true)], ".arr[3] = 1", ev(&[("arr", arr(&[1]))]))),
    ]
}

fn cfg_for(r: &Run) -> Cfg {
    Cfg {
        read_only: true,
        extras: false,
        unnest: false,
        no_final_roots: false,
        no_neg_index: r.excluded(mutprog::SW_NEG_INDEX),
        no_below_nonrec: r.excluded(mutprog::SW_BELOW_NONREC),
        no_compact_del: r.excluded(mutprog::SW_COMPACT_DEL),
        no_del_shift: r.excluded(mutprog::SW_DEL_SHIFT),
        no_kind_mismatch: r.excluded(mutprog::SW_KIND_MISMATCH),
        no_padding: r.excluded(mutprog::SW_PADDING),
    }
}

pub fn run(r: &mut Run) {
    if let Ok(dir) = std::env::var("VCHECK_EMIT_C15_REPLAYS") {
        for (sw, c) in known_shapes() {
            let slug: String = c.name.chars().map(|ch| if ch.is_ascii_alphanumeric() { ch.to_ascii_lowercase() } else { '-' }).collect();
            let rf = crate::engine::ReplayFile { property: "C15".into(), sub: "source_cases".into(), case: serde_json::to_value(&c).unwrap(), note: Some(format!("{} [{sw}]", c.name)) };
            let _ = std::fs::write(format!("{dir}/C15-{}.json", slug.trim_matches('-').replace("--", "-")), serde_json::to_string_pretty(&rf).unwrap());
        }
    }
    let cases = source_cases(r);
    r.enumerate("source_cases", cases, check_source_case);
    let cfg = cfg_for(r);
    r.sub("read_only_preserved", 150_000, 8_000_000, move || mutprog::strategy(cfg), check);
}
