//! C27 — digest and checksum functions match reference algorithms.
//!
//! Oracles (all independent of the crates vrl links):
//! * MD5 / SHA-1 / SHA-2 / SHA-3 / HMAC: `python3` `hashlib` / `hmac`, one long-lived helper
//!   process per worker thread (`harness/oracles/digest_oracle.py`), one request per case.
//! * CRC: a bit-at-a-time Rocksoft-model register parameterised from `crc-catalog`'s constants,
//!   validated against every catalogue `check` value before use; the name -> parameter mapping is
//!   this module's own list.
//! * xxHash: `twox-hash` (vrl uses `xxhash-rust`).
//! * SeaHash: a transcription of the reference algorithm, validated against the published vector.

use std::cell::RefCell;
use std::io::{BufRead, BufReader, Write};
use std::path::PathBuf;
use std::process::{Child, ChildStdin, ChildStdout, Command, Stdio};
use std::sync::OnceLock;

use proptest::prelude::*;
use serde::{Deserialize, Serialize};
use vrl::compiler::Program;
use vrl::value::Value;

use crate::engine::{verif_root, Run, V};
use crate::vrlx::{self, End};

pub const RULE: &str = "cases = byte strings of 0..4200 bytes (lengths at and around the block/padding/stripe boundaries 55/56/63/64/65, 71/72, 103/104, 111/112, 119/120, 127/128, 135/136, 143/144, 239/240/241, 1023/1024/1025, 2047/2048 always present; random, constant, arithmetic-progression and printable contents; often invalid UTF-8) plus, for hmac, keys of 0..200 bytes (empty, shorter than, equal to and longer than the 64/128-byte block). Every case is pushed through EVERY variant of its family in one go: sub-check sha_family = md5, sha1, sha2 (default + 6 variants), sha3 (default + 4 variants), hmac (default + 5 algorithms as literals, one algorithm passed dynamically in either letter case, plus the documented encode_base16/encode_base64 wrappings); sub-check crc = the default and all 112 documented algorithm names, each both as a literal argument and as a runtime value; sub-check xxhash_seahash = xxhash default + 4 variants (literal and runtime), seahash. The VRL result must equal the reference digest in the documented encoding (lower-case hex string, raw bytes for hmac, decimal string for crc and XXH3-128, integer wrapped to i64 for XXH32/XXH64/XXH3-64/seahash). Non-trivial = input length >= 1. Distinct = distinct serialised cases; since a case covers all variants of its family, the per-variant count equals the evaluation count of the sub-check.";
pub const NOTE: &str = "trusts CPython hashlib/hmac (OpenSSL), the twox-hash crate and the parameter records of the crc-catalog crate (the CRC arithmetic itself is the harness's own bit-serial routine, checked against all 112 catalogue check values at start-up; the SeaHash transcription and twox-hash are checked against published vectors at start-up); a missing python3 or a failed self-check ends the run as a harness error (exit 2), never as a violation";

// ------------------------------------------------------------------------------------------
// harness errors

fn harness_error(msg: &str) -> ! {
    eprintln!("harness error: C27: {msg}");
    println!("INCONCLUSIVE property=C27 {msg}");
    std::process::exit(2);
}

// ------------------------------------------------------------------------------------------
// python helper

const PY_NAMES: [&str; 17] = [
    "md5",
    "sha1",
    "sha224",
    "sha256",
    "sha384",
    "sha512",
    "sha512_224",
    "sha512_256",
    "sha3_224",
    "sha3_256",
    "sha3_384",
    "sha3_512",
    "hmac_sha1",
    "hmac_sha224",
    "hmac_sha256",
    "hmac_sha384",
    "hmac_sha512",
];

struct Helper {
    child: Child,
    stdin: ChildStdin,
    stdout: BufReader<ChildStdout>,
}

impl Drop for Helper {
    fn drop(&mut self) {
        let _ = self.child.kill();
        let _ = self.child.wait();
    }
}

fn oracle_script() -> PathBuf {
    let mut cands: Vec<PathBuf> = Vec::new();
    if let Ok(exe) = std::env::current_exe() {
        // <harness>/target/release/vcheck -> <harness>/oracles
        if let Some(h) = exe.parent().and_then(|p| p.parent()).and_then(|p| p.parent()) {
            cands.push(h.join("oracles").join("digest_oracle.py"));
        }
    }
    cands.push(verif_root().join("harness").join("oracles").join("digest_oracle.py"));
    cands.push(PathBuf::from("/verif/harness/oracles/digest_oracle.py"));
    for c in &cands {
        if c.is_file() {
            return c.clone();
        }
    }
    harness_error(&format!("digest_oracle.py not found (looked at {cands:?})"));
}

/// Starts `interp script` and waits for its READY line.
fn try_spawn(interp: &str, script: &std::path::Path) -> Result<Helper, String> {
    let mut child = Command::new(interp).arg(script).stdin(Stdio::piped()).stdout(Stdio::piped()).stderr(Stdio::null()).spawn().map_err(|e| format!("cannot start {interp}: {e}"))?;
    let stdin = child.stdin.take().ok_or("no stdin")?;
    let mut stdout = BufReader::new(child.stdout.take().ok_or("no stdout")?);
    let mut line = String::new();
    let ok = stdout.read_line(&mut line).is_ok() && line.starts_with("READY ");
    let helper = Helper { child, stdin, stdout };
    if !ok {
        return Err(format!("{interp} {} did not start properly: {:?}", script.display(), line.trim()));
    }
    let names: Vec<&str> = line.split_whitespace().skip(1).collect();
    if names != PY_NAMES {
        return Err(format!("{interp}: helper announces digests {names:?}, expected {PY_NAMES:?}"));
    }
    Ok(helper)
}

/// The interpreter is chosen once: `$VCHECK_PYTHON`, else the first of `/usr/bin/python3`,
/// `python3` (PATH) that starts the helper and has every digest. (`python3` on PATH may be a
/// slow version-manager shim; the system interpreter is preferred for start-up time only.)
fn spawn_helper() -> Helper {
    static INTERP: OnceLock<String> = OnceLock::new();
    let script = oracle_script();
    if let Some(i) = INTERP.get() {
        return try_spawn(i, &script).unwrap_or_else(|e| harness_error(&e));
    }
    let cands: Vec<String> = match std::env::var("VCHECK_PYTHON") {
        Ok(p) if !p.is_empty() => vec![p],
        _ => vec!["/usr/bin/python3".to_string(), "python3".to_string()],
    };
    let mut errs = Vec::new();
    for c in &cands {
        match try_spawn(c, &script) {
            Ok(h) => {
                let _ = INTERP.set(c.clone());
                return h;
            }
            Err(e) => errs.push(e),
        }
    }
    harness_error(&format!("no usable python3 for the digest oracle: {}", errs.join("; ")));
}

thread_local! {
    static HELPER: RefCell<Option<Helper>> = const { RefCell::new(None) };
}

/// Reference digests (lower-case hex, order of `PY_NAMES`) of `data` (and HMACs under `key`).
/// A pure function of its arguments; the helper process is only a cache-free calculator.
fn py_digests(data_hex: &str, key_hex: &str) -> Vec<String> {
    HELPER.with(|h| {
        let mut slot = h.borrow_mut();
        if slot.is_none() {
            *slot = Some(spawn_helper());
        }
        let hp = slot.as_mut().expect("helper");
        let d = if data_hex.is_empty() { "-" } else { data_hex };
        let k = if key_hex.is_empty() { "-" } else { key_hex };
        if writeln!(hp.stdin, "{d} {k}").and_then(|()| hp.stdin.flush()).is_err() {
            harness_error("cannot write to the python helper");
        }
        let mut line = String::new();
        match hp.stdout.read_line(&mut line) {
            Ok(n) if n > 0 => {}
            _ => harness_error("python helper closed its output"),
        }
        if line.starts_with("ERROR") {
            harness_error(&format!("python helper: {}", line.trim()));
        }
        let out: Vec<String> = line.split_whitespace().map(str::to_string).collect();
        if out.len() != PY_NAMES.len() {
            harness_error(&format!("python helper answered {} fields", out.len()));
        }
        out
    })
}

fn py(d: &[String], name: &str) -> String {
    let i = PY_NAMES.iter().position(|n| *n == name).expect("known digest name");
    d[i].clone()
}

// ------------------------------------------------------------------------------------------
// CRC reference

#[derive(Clone, Copy, Debug)]
struct CrcParams {
    name: &'static str,
    width: u8,
    poly: u128,
    init: u128,
    refin: bool,
    refout: bool,
    xorout: u128,
    check: u128,
}

fn params<W: crc_catalog::Width + Copy + Into<u128>>(name: &'static str, a: &crc_catalog::Algorithm<W>) -> CrcParams {
    CrcParams { name, width: a.width, poly: a.poly.into(), init: a.init.into(), refin: a.refin, refout: a.refout, xorout: a.xorout.into(), check: a.check.into() }
}

/// The algorithm names documented by the `crc` function (src/stdlib/crc.rs, `enum_variants`), each
/// mapped to the catalogue entry of the same name ("CRC_16_KERMIT" is CRC-16/KERMIT, ...).
macro_rules! crc_table {
    ($($name:ident),* $(,)?) => { vec![$( params(stringify!($name), &crc_catalog::$name) ),*] };
}

fn crc_algorithms() -> &'static [CrcParams] {
    static T: OnceLock<Vec<CrcParams>> = OnceLock::new();
    T.get_or_init(|| {
        crc_table![
            CRC_3_GSM, CRC_3_ROHC, CRC_4_G_704, CRC_4_INTERLAKEN, CRC_5_EPC_C1G2, CRC_5_G_704, CRC_5_USB, CRC_6_CDMA2000_A,
            CRC_6_CDMA2000_B, CRC_6_DARC, CRC_6_GSM, CRC_6_G_704, CRC_7_MMC, CRC_7_ROHC, CRC_7_UMTS, CRC_8_AUTOSAR, CRC_8_BLUETOOTH,
            CRC_8_CDMA2000, CRC_8_DARC, CRC_8_DVB_S2, CRC_8_GSM_A, CRC_8_GSM_B, CRC_8_HITAG, CRC_8_I_432_1, CRC_8_I_CODE, CRC_8_LTE,
            CRC_8_MAXIM_DOW, CRC_8_MIFARE_MAD, CRC_8_NRSC_5, CRC_8_OPENSAFETY, CRC_8_ROHC, CRC_8_SAE_J1850, CRC_8_SMBUS,
            CRC_8_TECH_3250, CRC_8_WCDMA, CRC_10_ATM, CRC_10_CDMA2000, CRC_10_GSM, CRC_11_FLEXRAY, CRC_11_UMTS, CRC_12_CDMA2000,
            CRC_12_DECT, CRC_12_GSM, CRC_12_UMTS, CRC_13_BBC, CRC_14_DARC, CRC_14_GSM, CRC_15_CAN, CRC_15_MPT1327, CRC_16_ARC,
            CRC_16_CDMA2000, CRC_16_CMS, CRC_16_DDS_110, CRC_16_DECT_R, CRC_16_DECT_X, CRC_16_DNP, CRC_16_EN_13757, CRC_16_GENIBUS,
            CRC_16_GSM, CRC_16_IBM_3740, CRC_16_IBM_SDLC, CRC_16_ISO_IEC_14443_3_A, CRC_16_KERMIT, CRC_16_LJ1200, CRC_16_M17,
            CRC_16_MAXIM_DOW, CRC_16_MCRF4XX, CRC_16_MODBUS, CRC_16_NRSC_5, CRC_16_OPENSAFETY_A, CRC_16_OPENSAFETY_B,
            CRC_16_PROFIBUS, CRC_16_RIELLO, CRC_16_SPI_FUJITSU, CRC_16_T10_DIF, CRC_16_TELEDISK, CRC_16_TMS37157, CRC_16_UMTS,
            CRC_16_USB, CRC_16_XMODEM, CRC_17_CAN_FD, CRC_21_CAN_FD, CRC_24_BLE, CRC_24_FLEXRAY_A, CRC_24_FLEXRAY_B,
            CRC_24_INTERLAKEN, CRC_24_LTE_A, CRC_24_LTE_B, CRC_24_OPENPGP, CRC_24_OS_9, CRC_30_CDMA, CRC_31_PHILIPS, CRC_32_AIXM,
            CRC_32_AUTOSAR, CRC_32_BASE91_D, CRC_32_BZIP2, CRC_32_CD_ROM_EDC, CRC_32_CKSUM, CRC_32_ISCSI, CRC_32_ISO_HDLC,
            CRC_32_JAMCRC, CRC_32_MEF, CRC_32_MPEG_2, CRC_32_XFER, CRC_40_GSM, CRC_64_ECMA_182, CRC_64_GO_ISO, CRC_64_MS,
            CRC_64_REDIS, CRC_64_WE, CRC_64_XZ, CRC_82_DARC,
        ]
    })
}

const CRC_DEFAULT: &str = "CRC_32_ISO_HDLC";

fn reflect(v: u128, width: u8) -> u128 {
    let mut r = 0u128;
    for i in 0..u32::from(width) {
        if (v >> i) & 1 == 1 {
            r |= 1u128 << (u32::from(width) - 1 - i);
        }
    }
    r
}

/// Rocksoft-model CRC, one message bit per step (no tables, no byte-wise shortcuts).
fn crc_bitwise(p: &CrcParams, data: &[u8]) -> u128 {
    let w = u32::from(p.width);
    let mask = if w == 128 { u128::MAX } else { (1u128 << w) - 1 };
    let top = 1u128 << (w - 1);
    let mut reg = p.init & mask;
    for &byte in data {
        let b = if p.refin { byte.reverse_bits() } else { byte };
        for i in (0..8).rev() {
            let inbit = (b >> i) & 1 == 1;
            let outbit = reg & top != 0;
            reg = (reg << 1) & mask;
            if inbit != outbit {
                reg ^= p.poly;
            }
        }
    }
    if p.refout {
        reg = reflect(reg, p.width);
    }
    (reg ^ p.xorout) & mask
}

// ------------------------------------------------------------------------------------------
// SeaHash reference (transcribed from the specification in the seahash documentation)

fn sea_diffuse(mut x: u64) -> u64 {
    const P: u64 = 0x6eed_0e9d_a4d9_4a4f;
    x = x.wrapping_mul(P);
    x ^= (x >> 32) >> (x >> 60);
    x.wrapping_mul(P)
}

fn seahash_ref(buf: &[u8]) -> u64 {
    let mut st: [u64; 4] = [0x16f1_1fe8_9b0d_677c, 0xb480_a793_d8e6_c86c, 0x6fe2_e5aa_f078_ebc9, 0x14f9_94a4_c525_9381];
    for chunk in buf.chunks(8) {
        // little-endian block, the last one padded with zero bytes
        let mut n = 0u64;
        for (i, b) in chunk.iter().enumerate() {
            n |= u64::from(*b) << (8 * i);
        }
        let mixed = sea_diffuse(st[0] ^ n);
        st = [st[1], st[2], st[3], mixed];
    }
    sea_diffuse(st[0] ^ st[1] ^ st[2] ^ st[3] ^ buf.len() as u64)
}

// ------------------------------------------------------------------------------------------
// base64 (standard alphabet, padded) for the documented `encode_base64(hmac(..))` form

fn base64(data: &[u8]) -> String {
    const T: &[u8; 64] = b"ABCDEFGHIJKLMNOPQRSTUVWXYZabcdefghijklmnopqrstuvwxyz0123456789+/";
    let mut o = String::new();
    for c in data.chunks(3) {
        let n = (u32::from(c[0]) << 16) | (u32::from(*c.get(1).unwrap_or(&0)) << 8) | u32::from(*c.get(2).unwrap_or(&0));
        o.push(T[(n >> 18) as usize & 63] as char);
        o.push(T[(n >> 12) as usize & 63] as char);
        o.push(if c.len() > 1 { T[(n >> 6) as usize & 63] as char } else { '=' });
        o.push(if c.len() > 2 { T[n as usize & 63] as char } else { '=' });
    }
    o
}

// ------------------------------------------------------------------------------------------
// start-up validation of every oracle (failure = harness error)

fn self_check() {
    // CRC routine against every catalogue check value
    let algs = crc_algorithms();
    if algs.len() != 112 {
        harness_error(&format!("crc table has {} entries, expected 112", algs.len()));
    }
    for p in algs {
        let got = crc_bitwise(p, b"123456789");
        if got != p.check {
            harness_error(&format!("own CRC routine gives {got:#x} for {} on \"123456789\", catalogue check value is {:#x}", p.name, p.check));
        }
    }
    // SeaHash transcription
    for (x, y) in [(94_203_824_938u64, 17_289_265_692_384_716_055u64), (0xDEAD_BEEF, 12_110_756_357_096_144_265), (0, 0), (1, 15_197_155_197_312_260_123), (2, 1_571_904_453_004_118_546), (3, 16_467_633_989_910_088_880)] {
        if sea_diffuse(x) != y {
            harness_error("SeaHash diffuse transcription fails its published vectors");
        }
    }
    if seahash_ref(b"to be or not to be") != 1_988_685_042_348_123_509 {
        harness_error("SeaHash transcription fails the published vector for \"to be or not to be\"");
    }
    // twox-hash against the vectors of the xxHash specification (empty input, seed 0)
    if twox_hash::XxHash32::oneshot(0, b"") != 0x02CC_5D05
        || twox_hash::XxHash64::oneshot(0, b"") != 0xEF46_DB37_51D8_E999
        || twox_hash::XxHash3_64::oneshot(b"") != 0x2D06_8005_38D3_94C2
        || twox_hash::XxHash3_128::oneshot(b"") != 0x99AA_06D3_0147_98D8_6001_C324_468D_497F
    {
        harness_error("twox-hash does not reproduce the xxHash specification vectors for the empty input");
    }
    // python helper against published vectors ("abc"; RFC 2202 / RFC 4231 test case 2)
    let d = py_digests(&hex::encode("abc"), "");
    let want = [
        ("md5", "900150983cd24fb0d6963f7d28e17f72"),
        ("sha1", "a9993e364706816aba3e25717850c26c9cd0d89d"),
        ("sha224", "23097d223405d8228642a477bda255b32aadbce4bda0b3f7e36c9da7"),
        ("sha256", "ba7816bf8f01cfea414140de5dae2223b00361a396177a9cb410ff61f20015ad"),
        ("sha512_224", "4634270f707b6a54daae7530460842e20e37ed265ceee9a43e8924aa"),
        ("sha512_256", "53048e2681941ef99b2e29b76b4c7dabe4c2d0c634fc6d46e0e2f13107e7af23"),
        ("sha3_224", "e642824c3f8cf24ad09234ee7d3c766fc9a3a5168d0c94ad73b46fdf"),
        ("sha3_256", "3a985da74fe225b2045c172d6bd390bd855f086e3e9d525b46bfe24511431532"),
    ];
    for (n, w) in want {
        if py(&d, n) != w {
            harness_error(&format!("python helper: {n}(\"abc\") = {}, published value is {w}", py(&d, n)));
        }
    }
    let d = py_digests(&hex::encode("what do ya want for nothing?"), &hex::encode("Jefe"));
    let want = [
        ("hmac_sha1", "effcdf6ae5eb2fa2d27416d5f184df9c259a7c79"),
        ("hmac_sha224", "a30e01098bc6dbbf45690f3a7e9e6d0f8bbea2a39e6148008fd05e44"),
        ("hmac_sha256", "5bdcc146bf60754e6a042426089575c75a003f089d2739839dec58b964ec3843"),
    ];
    for (n, w) in want {
        if py(&d, n) != w {
            harness_error(&format!("python helper: {n} RFC test case 2 = {}, published value is {w}", py(&d, n)));
        }
    }
}

// ------------------------------------------------------------------------------------------
// cases

#[derive(Clone, Debug, Serialize, Deserialize)]
pub struct ShaCase {
    /// input bytes, hex
    pub data: String,
    /// hmac key bytes, hex
    pub key: String,
    /// which hmac algorithm is passed as a runtime value (index into HMAC_ALGS)
    pub dyn_alg: u8,
    /// pass the runtime algorithm name in lower case (the function upper-cases it)
    pub lower: bool,
}

#[derive(Clone, Debug, Serialize, Deserialize)]
pub struct DataCase {
    /// input bytes, hex
    pub data: String,
}

/// (documented name, python digest name)
const SHA2_VARIANTS: [(&str, &str); 6] =
    [("SHA-224", "sha224"), ("SHA-256", "sha256"), ("SHA-384", "sha384"), ("SHA-512", "sha512"), ("SHA-512/224", "sha512_224"), ("SHA-512/256", "sha512_256")];
const SHA2_DEFAULT: &str = "sha512_256";
const SHA3_VARIANTS: [(&str, &str); 4] = [("SHA3-224", "sha3_224"), ("SHA3-256", "sha3_256"), ("SHA3-384", "sha3_384"), ("SHA3-512", "sha3_512")];
const SHA3_DEFAULT: &str = "sha3_512";
const HMAC_ALGS: [(&str, &str); 5] =
    [("SHA1", "hmac_sha1"), ("SHA-224", "hmac_sha224"), ("SHA-256", "hmac_sha256"), ("SHA-384", "hmac_sha384"), ("SHA-512", "hmac_sha512")];
const HMAC_DEFAULT: &str = "hmac_sha256";
const XX_VARIANTS: [&str; 4] = ["XXH32", "XXH64", "XXH3-64", "XXH3-128"];

#[derive(Clone, Copy, PartialEq)]
enum Enc {
    /// result is the lower-case hex text of the digest
    HexText,
    /// result is the raw digest
    Raw,
    /// result is the standard base64 text of the digest
    B64Text,
}

struct Compiled {
    program: Program,
    /// (label, python digest name, encoding) per array element of the program's result
    items: Vec<(String, &'static str, Enc)>,
}

fn proto_event(fields: &[&str]) -> Value {
    Value::Object(fields.iter().map(|f| ((*f).into(), Value::from(""))).collect())
}

fn compile_or_die(src: &str, proto: &Value) -> Program {
    match vrlx::compile_exact(src, proto) {
        Ok(r) => r.program,
        Err(d) => harness_error(&format!("the checking program does not compile: {} :: {src}", vrlx::diag_summary(&d))),
    }
}

fn sha_program() -> &'static Compiled {
    static P: OnceLock<Compiled> = OnceLock::new();
    P.get_or_init(|| {
        let mut parts: Vec<String> = Vec::new();
        let mut items: Vec<(String, &'static str, Enc)> = Vec::new();
        let mut add = |src: String, py: &'static str, enc: Enc| {
            items.push((src.clone(), py, enc));
            parts.push(src);
        };
        add("md5(.d)".into(), "md5", Enc::HexText);
        add("sha1(.d)".into(), "sha1", Enc::HexText);
        add("sha2(.d)".into(), SHA2_DEFAULT, Enc::HexText);
        for (i, (v, p)) in SHA2_VARIANTS.iter().enumerate() {
            // alternate keyword and positional argument forms
            let src = if i % 2 == 0 { format!("sha2(.d, variant: \"{v}\")") } else { format!("sha2(.d, \"{v}\")") };
            add(src, p, Enc::HexText);
        }
        add("sha3(.d)".into(), SHA3_DEFAULT, Enc::HexText);
        for (i, (v, p)) in SHA3_VARIANTS.iter().enumerate() {
            let src = if i % 2 == 0 { format!("sha3(.d, variant: \"{v}\")") } else { format!("sha3(.d, \"{v}\")") };
            add(src, p, Enc::HexText);
        }
        add("hmac(.d, .k)".into(), HMAC_DEFAULT, Enc::Raw);
        for (v, p) in HMAC_ALGS {
            add(format!("hmac(.d, .k, algorithm: \"{v}\")"), p, Enc::Raw);
        }
        add("encode_base16(hmac(.d, .k))".into(), HMAC_DEFAULT, Enc::HexText);
        add("encode_base64(hmac(.d, .k, algorithm: \"SHA1\"))".into(), "hmac_sha1", Enc::B64Text);
        add("encode_base64(hmac(.d, .k, \"SHA-512\"))".into(), "hmac_sha512", Enc::B64Text);
        let src = format!("[{}]", parts.join(", "));
        Compiled { program: compile_or_die(&src, &proto_event(&["d", "k"])), items }
    })
}

fn hmac_dyn_program() -> &'static Program {
    static P: OnceLock<Program> = OnceLock::new();
    P.get_or_init(|| compile_or_die("hmac!(.d, .k, algorithm: .alg)", &proto_event(&["d", "k", "alg"])))
}

fn unhex(h: &str) -> Option<Vec<u8>> {
    hex::decode(h).ok()
}

fn bytes_value(b: &[u8]) -> Value {
    Value::Bytes(bytes::Bytes::copy_from_slice(b))
}

fn event(fields: &[(&str, Value)]) -> Value {
    Value::Object(fields.iter().map(|(k, v)| ((*k).into(), v.clone())).collect())
}

fn run_array(p: &Program, ev: Value, n: usize) -> Result<Vec<Value>, String> {
    match vrlx::run(p, ev, vrlx::empty_object()).end {
        End::Ok(Value::Array(a)) if a.len() == n => Ok(a),
        other => Err(format!("checking program ended with {other:?}")),
    }
}

fn show(v: &Value) -> String {
    match v {
        Value::Bytes(b) => match std::str::from_utf8(b) {
            Ok(s) if s.chars().all(|c| c.is_ascii_graphic()) => format!("\"{s}\""),
            _ => format!("x'{}'", hex::encode(b)),
        },
        other => other.to_string(),
    }
}

fn len_classes(v: V, n: usize) -> V {
    v.class(match n {
        0 => "len_0",
        1..=55 => "len_1_55",
        56..=64 => "len_56_64",
        65..=144 => "len_65_144",
        145..=256 => "len_145_256",
        257..=1024 => "len_257_1024",
        1025..=2048 => "len_1025_2048",
        _ => "len_gt_2048",
    })
    .class_if(EDGE_LENS.contains(&n), "len_at_block_or_padding_edge")
}

fn check_sha(c: &ShaCase) -> V {
    let (Some(data), Some(key)) = (unhex(&c.data), unhex(&c.key)) else {
        return V::discard("malformed hex in case");
    };
    let want = py_digests(&c.data, &c.key);
    let prog = sha_program();
    let ev = event(&[("d", bytes_value(&data)), ("k", bytes_value(&key))]);
    let got = match run_array(&prog.program, ev, prog.items.len()) {
        Ok(a) => a,
        Err(e) => return V::fail(e),
    };
    for ((label, pyname, enc), g) in prog.items.iter().zip(&got) {
        let w_hex = py(&want, pyname);
        let w_raw = unhex(&w_hex).unwrap_or_default();
        let expect = match enc {
            Enc::HexText => bytes_value(w_hex.as_bytes()),
            Enc::Raw => bytes_value(&w_raw),
            Enc::B64Text => bytes_value(base64(&w_raw).as_bytes()),
        };
        if *g != expect {
            return V::fail_sig(
                format!("{label} mismatch"),
                format!("`{label}` on {} data bytes / {} key bytes: vrl gives {}, the reference ({pyname}) gives {}", data.len(), key.len(), show(g), show(&expect)),
            );
        }
    }
    // one algorithm passed as a runtime value, optionally lower-cased
    let (aname, pyname) = HMAC_ALGS[usize::from(c.dyn_alg) % HMAC_ALGS.len()];
    let alg = if c.lower { aname.to_lowercase() } else { aname.to_string() };
    let ev = event(&[("d", bytes_value(&data)), ("k", bytes_value(&key)), ("alg", Value::from(alg.as_str()))]);
    let expect = bytes_value(&unhex(&py(&want, pyname)).unwrap_or_default());
    match vrlx::run(hmac_dyn_program(), ev, vrlx::empty_object()).end {
        End::Ok(v) if v == expect => {}
        other => {
            return V::fail(format!("`hmac!(.d, .k, algorithm: .alg)` with .alg = {alg:?}: vrl gives {other:?}, the reference ({pyname}) gives {}", show(&expect)));
        }
    }
    let block = |n: usize| match n {
        0 => "key_empty",
        1..=63 => "key_lt_64",
        64 => "key_eq_64",
        65..=127 => "key_65_127",
        128 => "key_eq_128",
        _ => "key_gt_128",
    };
    len_classes(V::pass(), data.len())
        .nontrivial(!data.is_empty())
        .class(block(key.len()))
        .class_if(std::str::from_utf8(&data).is_err(), "data_invalid_utf8")
        .class_if(c.lower, "dynamic_algorithm_lower_case")
}

// --- crc

struct CrcProgs {
    literal: Program,
    dynamic: Program,
}

fn crc_programs() -> &'static CrcProgs {
    static P: OnceLock<CrcProgs> = OnceLock::new();
    P.get_or_init(|| {
        let mut parts = vec!["crc(.d)".to_string()];
        for (i, a) in crc_algorithms().iter().enumerate() {
            parts.push(if i % 2 == 0 { format!("crc(.d, algorithm: \"{}\")", a.name) } else { format!("crc(.d, \"{}\")", a.name) });
        }
        let src = format!("[{}]", parts.join(", "));
        CrcProgs { literal: compile_or_die(&src, &proto_event(&["d"])), dynamic: compile_or_die("crc!(.d, algorithm: .a)", &proto_event(&["d", "a"])) }
    })
}

fn check_crc(c: &DataCase) -> V {
    let Some(data) = unhex(&c.data) else {
        return V::discard("malformed hex in case");
    };
    let algs = crc_algorithms();
    let progs = crc_programs();
    let got = match run_array(&progs.literal, event(&[("d", bytes_value(&data))]), algs.len() + 1) {
        Ok(a) => a,
        Err(e) => return V::fail(e),
    };
    let default = algs.iter().find(|a| a.name == CRC_DEFAULT).expect("default algorithm in table");
    let expect_default = bytes_value(crc_bitwise(default, &data).to_string().as_bytes());
    if got[0] != expect_default {
        return V::fail_sig(
            "crc default mismatch",
            format!("`crc(.d)` on {} bytes: vrl gives {}, {CRC_DEFAULT} (the documented default) is {}", data.len(), show(&got[0]), show(&expect_default)),
        );
    }
    for (a, g) in algs.iter().zip(&got[1..]) {
        let expect = bytes_value(crc_bitwise(a, &data).to_string().as_bytes());
        if *g != expect {
            return V::fail_sig(
                format!("crc {} mismatch", a.name),
                format!("`crc(.d, algorithm: \"{}\")` on {} bytes: vrl gives {}, the reference gives {}", a.name, data.len(), show(g), show(&expect)),
            );
        }
        let ev = event(&[("d", bytes_value(&data)), ("a", Value::from(a.name))]);
        match vrlx::run(&progs.dynamic, ev, vrlx::empty_object()).end {
            End::Ok(v) if v == expect => {}
            other => {
                return V::fail_sig(
                    format!("crc {} mismatch (runtime algorithm)", a.name),
                    format!("`crc!(.d, algorithm: .a)` with .a = {:?} on {} bytes: vrl gives {other:?}, the reference gives {}", a.name, data.len(), show(&expect)),
                );
            }
        }
    }
    len_classes(V::pass(), data.len()).nontrivial(!data.is_empty()).class_if(std::str::from_utf8(&data).is_err(), "data_invalid_utf8")
}

// --- xxhash / seahash

struct XxProgs {
    literal: Program,
    dynamic: Program,
}

fn xx_programs() -> &'static XxProgs {
    static P: OnceLock<XxProgs> = OnceLock::new();
    P.get_or_init(|| {
        let src = "[xxhash(.d), xxhash(.d, \"XXH32\"), xxhash(.d, variant: \"XXH64\"), xxhash(.d, \"XXH3-64\"), xxhash(.d, variant: \"XXH3-128\"), seahash(.d)]";
        XxProgs { literal: compile_or_die(src, &proto_event(&["d"])), dynamic: compile_or_die("xxhash!(.d, .v)", &proto_event(&["d", "v"])) }
    })
}

fn xx_expected(variant: &str, data: &[u8]) -> Value {
    match variant {
        "XXH32" => Value::Integer(i64::from(twox_hash::XxHash32::oneshot(0, data))),
        // documented by example (`xxhash("foo", "XXH3-64")` is negative): the unsigned 64-bit
        // result is delivered as the two's-complement i64 with the same bits
        "XXH64" => Value::Integer(i64::from_ne_bytes(twox_hash::XxHash64::oneshot(0, data).to_ne_bytes())),
        "XXH3-64" => Value::Integer(i64::from_ne_bytes(twox_hash::XxHash3_64::oneshot(data).to_ne_bytes())),
        "XXH3-128" => bytes_value(twox_hash::XxHash3_128::oneshot(data).to_string().as_bytes()),
        _ => unreachable!("variant list is fixed"),
    }
}

fn check_xx(c: &DataCase) -> V {
    let Some(data) = unhex(&c.data) else {
        return V::discard("malformed hex in case");
    };
    let progs = xx_programs();
    let got = match run_array(&progs.literal, event(&[("d", bytes_value(&data))]), 6) {
        Ok(a) => a,
        Err(e) => return V::fail(e),
    };
    let labels = ["xxhash(.d)", "xxhash(.d, \"XXH32\")", "xxhash(.d, variant: \"XXH64\")", "xxhash(.d, \"XXH3-64\")", "xxhash(.d, variant: \"XXH3-128\")"];
    let variants = ["XXH32", "XXH32", "XXH64", "XXH3-64", "XXH3-128"];
    for i in 0..5 {
        let expect = xx_expected(variants[i], &data);
        if got[i] != expect {
            return V::fail_sig(
                format!("{} mismatch", labels[i]),
                format!("`{}` on {} bytes: vrl gives {}, the reference ({}) gives {}", labels[i], data.len(), show(&got[i]), variants[i], show(&expect)),
            );
        }
    }
    let sea = Value::Integer(i64::from_ne_bytes(seahash_ref(&data).to_ne_bytes()));
    if got[5] != sea {
        return V::fail_sig("seahash mismatch", format!("`seahash(.d)` on {} bytes: vrl gives {}, the reference gives {}", data.len(), show(&got[5]), show(&sea)));
    }
    for v in XX_VARIANTS {
        let expect = xx_expected(v, &data);
        let ev = event(&[("d", bytes_value(&data)), ("v", Value::from(v))]);
        match vrlx::run(&progs.dynamic, ev, vrlx::empty_object()).end {
            End::Ok(x) if x == expect => {}
            other => {
                return V::fail_sig(
                    format!("xxhash {v} mismatch (runtime variant)"),
                    format!("`xxhash!(.d, .v)` with .v = {v:?} on {} bytes: vrl gives {other:?}, the reference gives {}", data.len(), show(&expect)),
                );
            }
        }
    }
    let neg = matches!(sea, Value::Integer(i) if i < 0);
    len_classes(V::pass(), data.len())
        .nontrivial(!data.is_empty())
        .class_if(std::str::from_utf8(&data).is_err(), "data_invalid_utf8")
        .class_if(neg, "seahash_wraps_negative")
        .class_if(matches!(xx_expected("XXH64", &data), Value::Integer(i) if i < 0), "xxh64_wraps_negative")
}

// ------------------------------------------------------------------------------------------
// documented variants must all be covered by the reference tables

fn documented_variants(func: &str, param: &str) -> Vec<String> {
    vrlx::fns()
        .iter()
        .find(|f| f.identifier() == func)
        .and_then(|f| f.parameters().iter().find(|p| p.keyword == param).copied())
        .and_then(|p| p.enum_variants)
        .map(|vs| vs.iter().map(|v| v.value.to_string()).collect())
        .unwrap_or_default()
}

fn coverage_of_documented_variants(r: &mut Run) {
    let mut missing: Vec<String> = Vec::new();
    let mut diff = |func: &str, param: &str, ours: Vec<&str>| {
        let theirs = documented_variants(func, param);
        for t in &theirs {
            if !ours.contains(&t.as_str()) {
                missing.push(format!("{func}({param}: {t:?}) is documented but has no reference mapping"));
            }
        }
        for o in &ours {
            if !theirs.is_empty() && !theirs.iter().any(|t| t == o) {
                missing.push(format!("{func}({param}: {o:?}) is in the reference table but no longer documented"));
            }
        }
    };
    diff("sha2", "variant", SHA2_VARIANTS.iter().map(|x| x.0).collect());
    diff("sha3", "variant", SHA3_VARIANTS.iter().map(|x| x.0).collect());
    diff("hmac", "algorithm", HMAC_ALGS.iter().map(|x| x.0).collect());
    diff("crc", "algorithm", crc_algorithms().iter().map(|a| a.name).collect());
    for m in missing {
        r.inconclusive.push(m);
    }
}

// ------------------------------------------------------------------------------------------
// generators

const EDGE_LENS: &[usize] = &[
    0, 1, 2, 3, 4, 5, 7, 8, 9, 15, 16, 17, 31, 32, 33, 55, 56, 57, 63, 64, 65, 71, 72, 73, 103, 104, 105, 111, 112, 113, 119, 120, 121, 127, 128, 129, 135, 136,
    137, 143, 144, 145, 239, 240, 241, 255, 256, 257, 1023, 1024, 1025, 2047, 2048, 2049,
];

fn data() -> BoxedStrategy<Vec<u8>> {
    let len = prop_oneof![
        5 => (0..EDGE_LENS.len()).prop_map(|i| EDGE_LENS[i]),
        4 => 0usize..=300,
        2 => 0usize..=2100,
        1 => 2040usize..=4200,
    ];
    len.prop_flat_map(|n| {
        prop_oneof![
            6 => proptest::collection::vec(any::<u8>(), n),
            1 => any::<u8>().prop_map(move |b| vec![b; n]),
            1 => proptest::collection::vec(0x20u8..0x7f, n),
            1 => (any::<u8>(), any::<u8>()).prop_map(move |(a, s)| (0..n).map(|i| a.wrapping_add((i as u8).wrapping_mul(s))).collect::<Vec<u8>>()),
        ]
    })
    .boxed()
}

fn key() -> BoxedStrategy<Vec<u8>> {
    let len = prop_oneof![
        4 => prop_oneof![Just(0usize), Just(1), Just(20), Just(32), Just(63), Just(64), Just(65), Just(127), Just(128), Just(129), Just(200)],
        4 => 0usize..=200,
    ];
    len.prop_flat_map(|n| prop_oneof![4 => proptest::collection::vec(any::<u8>(), n), 1 => proptest::collection::vec(0x20u8..0x7f, n), 1 => any::<u8>().prop_map(move |b| vec![b; n])])
        .boxed()
}

fn sha_case() -> impl Strategy<Value = ShaCase> {
    (data(), key(), 0u8..5, any::<bool>()).prop_map(|(d, k, dyn_alg, lower)| ShaCase { data: hex::encode(d), key: hex::encode(k), dyn_alg, lower })
}

fn data_case() -> impl Strategy<Value = DataCase> {
    data().prop_map(|d| DataCase { data: hex::encode(d) })
}

pub fn run(r: &mut Run) {
    self_check();
    if !r.is_replay() {
        coverage_of_documented_variants(r);
        r.extra.insert(
            "variants_per_case".into(),
            serde_json::json!({
                "sha_family": sha_program().items.iter().map(|i| i.0.clone()).chain(std::iter::once("hmac!(.d, .k, algorithm: .alg) [one of 5, either letter case]".to_string())).collect::<Vec<_>>(),
                "crc": format!("crc(.d) + {} algorithm names x (literal, runtime)", crc_algorithms().len()),
                "xxhash_seahash": "xxhash default + XXH32/XXH64/XXH3-64/XXH3-128 x (literal, runtime), seahash",
            }),
        );
    }
    r.sub("sha_family", 24_000, 1_600_000, sha_case, check_sha);
    r.sub("crc", 3_000, 200_000, data_case, check_crc);
    r.sub("xxhash_seahash", 40_000, 3_000_000, data_case, check_xx);
}
