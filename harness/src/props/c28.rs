//! C28 — string and collection functions obey their algebraic laws.

use std::collections::BTreeMap;
use std::sync::OnceLock;

use proptest::prelude::*;
use serde::{Deserialize, Serialize};
use vrl::compiler::Program;
use vrl::value::kind::{Collection, Field};
use vrl::value::{Kind, Value};

use crate::engine::{Run, V};
use crate::gens::value::{pick, TV};
use crate::vrlx::{self, End};

pub const RULE: &str = "one sub-check per law, each with its own generator over a shared stress alphabet (ASCII letters/digits/separators, case-unstable letters such as ß ẞ İ ı ǆ ǅ Ǆ ς σ Σ K(Kelvin) Å(Angstrom) ſ ŉ ǰ ﬁ µ Ⱥ ⱥ 𐐀, combining marks, all 25 Unicode White_Space characters, look-alikes that are NOT White_Space (U+200B, U+FEFF, U+180E, U+2060, U+001C..U+001F), CJK and 4-byte characters): casing_idempotent = f(f(s)) == f(s) for upcase/downcase/camelcase/pascalcase/snakecase/kebabcase/screamingsnakecase on word-like and arbitrary strings; strip_whitespace = own model (maximal White_Space prefix/suffix removed, explicit code point list); split_join = join!(split(s, d), d) == s for string delimiters (1..3 chars, half of them substrings of s, also \"\"), with and without limit >= 1, pieces compared with a naive leftmost non-overlapping scan; substring_predicates = starts_with/ends_with/contains/find against a naive byte scan (case-sensitive) and against char-wise lower-casing (case_sensitive: false; only asserted where char-wise lower-casing and upper-then-lower-casing agree and every character has 1:1 case mappings, plus monotonicity: a case-sensitive match is also a case-insensitive match); truncate_strlen = truncate model (first n scalar values + suffix), strlen = number of scalar values, length = bytes; slice = positional model with negative indices on strings and arrays; unique = first-occurrence subsequence without duplicates; compact = 15-line recursive filter model over all 3^6 option combinations (each option absent/true/false); keys_values_length = lengths agree and keys/values pair up with the entries; merge = b wins on shared keys, recursive on object/object pairs when deep. Non-trivial per law: function changed the input or it holds non-ASCII / removable whitespace at an edge / delimiter occurs / needle occurs or differs only in case / string longer than the limit / negative or clamped index / a duplicate exists / something is removed / object non-empty / objects share a key. Distinct = distinct serialised cases.";
pub const NOTE: &str = "trusts Rust's char::to_lowercase/to_uppercase tables only to delimit where case-insensitive matching is unambiguous (the expected value there is the char-wise lower-cased naive search); positions reported by find and used by slice on strings are accepted in either byte or scalar-value units where the two differ (the documentation does not say which); out-of-range slice arguments and negative truncate limits are outside the asserted domain";

// ------------------------------------------------------------------------------------------
// small helpers

fn obj_kind(fields: &[(&str, Kind)]) -> Kind {
    let mut c = Collection::<Field>::empty();
    for (k, v) in fields {
        c = c.with_known(*k, v.clone());
    }
    Kind::object(c)
}

fn compile_with(src: &str, fields: &[(&str, Kind)]) -> Result<Program, String> {
    vrlx::compile_ext(src, obj_kind(fields), Kind::object(Collection::any())).map(|r| r.program).map_err(|d| format!("`{src}` rejected: {}", vrlx::diag_summary(&d)))
}

fn must_compile(src: &str, fields: &[(&str, Kind)]) -> Program {
    match compile_with(src, fields) {
        Ok(p) => p,
        Err(e) => {
            eprintln!("harness error: C28: checking program does not compile: {e}");
            std::process::exit(2);
        }
    }
}

fn any_array() -> Kind {
    Kind::array(Collection::any())
}

fn any_object() -> Kind {
    Kind::object(Collection::any())
}

fn ev(fields: &[(&str, Value)]) -> Value {
    Value::Object(fields.iter().map(|(k, v)| ((*k).into(), v.clone())).collect())
}

fn s(v: &str) -> Value {
    Value::from(v)
}

fn run_ok(p: &Program, event: Value) -> Result<Value, String> {
    match vrlx::run(p, event, vrlx::empty_object()).end {
        End::Ok(v) => Ok(v),
        other => Err(format!("program ended with {other:?}")),
    }
}

fn run_arr(p: &Program, event: Value, n: usize) -> Result<Vec<Value>, String> {
    match run_ok(p, event)? {
        Value::Array(a) if a.len() == n => Ok(a),
        other => Err(format!("program returned {other}, expected an array of {n}")),
    }
}

fn as_text(v: &Value) -> Option<String> {
    match v {
        Value::Bytes(b) => String::from_utf8(b.to_vec()).ok(),
        _ => None,
    }
}

/// The 25 code points with the Unicode White_Space property (PropList.txt).
const WHITE_SPACE: &[char] = &[
    '\u{9}', '\u{a}', '\u{b}', '\u{c}', '\u{d}', '\u{20}', '\u{85}', '\u{a0}', '\u{1680}', '\u{2000}', '\u{2001}', '\u{2002}', '\u{2003}', '\u{2004}', '\u{2005}',
    '\u{2006}', '\u{2007}', '\u{2008}', '\u{2009}', '\u{200a}', '\u{2028}', '\u{2029}', '\u{202f}', '\u{205f}', '\u{3000}',
];
/// look-alikes that do NOT have the property
const NOT_WHITE_SPACE: &[char] = &['\u{200b}', '\u{feff}', '\u{180e}', '\u{2060}', '\u{1c}', '\u{1d}', '\u{1e}', '\u{1f}', '\u{0}', '\u{200c}', '\u{200d}', '\u{2800}'];

fn is_ws(c: char) -> bool {
    WHITE_SPACE.contains(&c)
}

const ASCII_WORD: &[char] = &['a', 'b', 'c', 'x', 'y', 'z', 'A', 'B', 'C', 'X', 'Z', '0', '1', '9', '_', '-', ' ', '.', ',', ':', '/'];
/// letters whose case mappings are 1:1 in both directions and keep the UTF-8 width
const SIMPLE_CASED: &[char] = &['é', 'É', 'ü', 'Ü', 'ж', 'Ж', 'σ', 'ς', 'ı', 'ſ', 'µ', 'å', 'Å', 'k', 'K', 's', 'S', 'i', 'I', 'ⱥ', '𐐀', '𐐨'];
/// 1:1 letters whose lower-case form has another UTF-8 width (Kelvin, Angstrom, Ⱥ, ẞ), and Σ
/// (lower-cased context dependently by `str::to_lowercase`)
const WIDTH_OR_SIGMA: &[char] = &['\u{212a}', '\u{212b}', 'Ⱥ', 'ẞ', 'Σ'];
/// letters with a 1:n or context dependent mapping somewhere
const SPECIAL_CASED: &[char] = &['ß', 'İ', 'ǆ', 'ǅ', 'Ǆ', 'ŉ', 'ǰ', 'ﬁ', 'ΐ', '\u{301}', '\u{307}', '\u{345}'];
const OTHER: &[char] = &['日', '本', '😀', '𝒜', '\u{10ffff}', '"', '\\', '{', '%', '\u{7f}'];

fn from_set(set: &'static [char]) -> impl Strategy<Value = char> {
    (0..set.len()).prop_map(move |i| set[i])
}

fn uchar() -> impl Strategy<Value = char> {
    prop_oneof![
        8 => from_set(ASCII_WORD),
        3 => from_set(SIMPLE_CASED),
        1 => from_set(WIDTH_OR_SIGMA),
        3 => from_set(SPECIAL_CASED),
        3 => from_set(WHITE_SPACE),
        2 => from_set(NOT_WHITE_SPACE),
        2 => from_set(OTHER),
        2 => proptest::char::range('a', 'z'),
        1 => any::<char>(),
    ]
}

fn ustr(max: usize) -> impl Strategy<Value = String> {
    proptest::collection::vec(uchar(), 0..=max).prop_map(|v| v.into_iter().collect())
}

/// characters with 1:1 case mappings only, no `any::<char>()` (for case-insensitive matching)
fn fold_char() -> impl Strategy<Value = char> {
    prop_oneof![12 => from_set(ASCII_WORD), 10 => from_set(SIMPLE_CASED), 1 => from_set(WIDTH_OR_SIGMA), 2 => from_set(SPECIAL_CASED), 2 => from_set(OTHER), 2 => from_set(WHITE_SPACE)]
}

fn fold_str(max: usize) -> impl Strategy<Value = String> {
    proptest::collection::vec(fold_char(), 0..=max).prop_map(|v| v.into_iter().collect())
}

fn has_interesting(st: &str) -> bool {
    st.chars().any(|c| !c.is_ascii() || is_ws(c))
}

// ------------------------------------------------------------------------------------------
// 1. casing idempotence

const CASING_FNS: [&str; 7] = ["upcase", "downcase", "camelcase", "pascalcase", "snakecase", "kebabcase", "screamingsnakecase"];

#[derive(Clone, Debug, Serialize, Deserialize)]
pub struct CasingCase {
    /// index into CASING_FNS
    pub func: u8,
    pub s: String,
}

fn casing_programs() -> &'static Vec<Program> {
    static P: OnceLock<Vec<Program>> = OnceLock::new();
    P.get_or_init(|| CASING_FNS.iter().map(|f| must_compile(&format!("[{f}(.s), {f}({f}(.s))]"), &[("s", Kind::bytes())])).collect())
}

/// D31: the input class on which camelcase/pascalcase are known not to be idempotent, stated on
/// the FIRST result `y = f(s)` for ASCII-only `y`. camelCase/PascalCase text marks a word start
/// only by a capital after a lower-case letter or digit (or `AAa`, read as `A|Aa`), so `y` is
/// re-read differently — and the capital in question comes back in lower case — exactly when it
/// holds a capital at position >= 1 that is preceded by a non-alphanumeric character (`._a` ->
/// `.A` -> `.a`) or preceded by another capital and not followed by a lower-case letter (a
/// one-letter word before a word that is not "capital + lower-case": `a_b_c` -> `aBC` -> `aBc`,
/// `a_b` -> `AB` -> `Ab`, `a_b_1` -> `aB1`...). For ASCII `y` this is an exact characterisation
/// derived from the splitting rules (lower|upper, upper|upper-lower, letter|digit, digit|letter);
/// for non-ASCII `y` every non-idempotent case is attributed to the same known finding (case
/// mappings that are not 1:1, e.g. `ŉ` -> `ʼN` -> `ʼn`, add further ways for a re-read to differ).
fn d31_ascii_class(y: &str) -> bool {
    let b = y.as_bytes();
    (1..b.len()).any(|i| b[i].is_ascii_uppercase() && (!b[i - 1].is_ascii_alphanumeric() || (b[i - 1].is_ascii_uppercase() && !b.get(i + 1).is_some_and(u8::is_ascii_lowercase))))
}

/// Characters that are neither upper- nor lower-case by property but are changed by a case
/// conversion (the titlecase digraphs ǅ ǈ ǋ ǲ and the Greek titlecase forms), plus U+0345
/// COMBINING GREEK YPOGEGRAMMENI, the one combining mark with case mappings.
fn odd_case_char(ch: char) -> bool {
    ch == '\u{345}' || (!ch.is_uppercase() && !ch.is_lowercase() && (ch.to_uppercase().next() != Some(ch) || ch.to_lowercase().next() != Some(ch)))
}

fn check_casing(c: &CasingCase, excl_odd: bool) -> V {
    let f = CASING_FNS[usize::from(c.func) % CASING_FNS.len()];
    let p = &casing_programs()[usize::from(c.func) % CASING_FNS.len()];
    if excl_odd && matches!(f, "snakecase" | "kebabcase" | "screamingsnakecase") && c.s.chars().any(odd_case_char) {
        return V::excluded("separator_casing_titlecase_or_ypogegrammeni");
    }
    let got = match run_arr(p, ev(&[("s", s(&c.s))]), 2) {
        Ok(a) => a,
        Err(e) => return V::fail(format!("{f}: {e}")),
    };
    if got[0] != got[1] {
        let y = as_text(&got[0]).unwrap_or_default();
        let msg = format!("{f}({:?}) = {}, but {f} of that = {}", c.s, got[0], got[1]);
        if (f == "camelcase" || f == "pascalcase") && y.is_ascii() && !d31_ascii_class(&y) {
            return V::fail_sig(format!("{f} non-idempotent outside the characterised ASCII class"), msg);
        }
        return V::fail_sig(format!("{f} non-idempotent"), msg);
    }
    let changed = as_text(&got[0]).is_some_and(|y| y != c.s);
    V::pass()
        .nontrivial(changed || has_interesting(&c.s))
        .class(match usize::from(c.func) % CASING_FNS.len() {
            0 => "upcase",
            1 => "downcase",
            2 => "camelcase",
            3 => "pascalcase",
            4 => "snakecase",
            5 => "kebabcase",
            _ => "screamingsnakecase",
        })
        .class_if(changed, "function_changed_input")
        .class_if(!c.s.is_ascii(), "non_ascii")
}

fn wordy() -> impl Strategy<Value = String> {
    let word = prop_oneof![
        4 => "[a-z]{1,5}",
        2 => "[A-Z][a-z]{0,4}",
        2 => "[A-Z]{1,4}",
        1 => "[a-z]{1,3}[0-9]{1,2}",
        1 => "[0-9]{1,3}",
        1 => "[a-zA-Z]",
        2 => proptest::collection::vec(prop_oneof![4 => from_set(SIMPLE_CASED), 1 => from_set(WIDTH_OR_SIGMA), 3 => from_set(SPECIAL_CASED), 4 => proptest::char::range('a', 'z')], 1..=4).prop_map(|v| v.into_iter().collect::<String>()),
    ];
    let sep = prop_oneof![3 => Just("_"), 3 => Just("-"), 2 => Just(" "), 3 => Just(""), 1 => Just("__"), 1 => Just("."), 1 => Just("\u{a0}")];
    proptest::collection::vec((word, sep), 0..=5).prop_map(|ws| {
        let mut o = String::new();
        for (w, sp) in ws {
            o.push_str(&w);
            o.push_str(sp);
        }
        o
    })
}

fn casing_case() -> impl Strategy<Value = CasingCase> {
    (0u8..7, prop_oneof![3 => wordy(), 2 => ustr(10), 1 => "[a-zA-Z0-9_ -]{0,12}"]).prop_map(|(func, s)| CasingCase { func, s })
}

// ------------------------------------------------------------------------------------------
// 2. strip_whitespace

#[derive(Clone, Debug, Serialize, Deserialize)]
pub struct StrCase {
    pub s: String,
}

fn strip_program() -> &'static Program {
    static P: OnceLock<Program> = OnceLock::new();
    P.get_or_init(|| must_compile("strip_whitespace(.s)", &[("s", Kind::bytes())]))
}

fn check_strip(c: &StrCase) -> V {
    let chars: Vec<char> = c.s.chars().collect();
    let mut a = 0;
    let mut b = chars.len();
    while a < b && is_ws(chars[a]) {
        a += 1;
    }
    while b > a && is_ws(chars[b - 1]) {
        b -= 1;
    }
    let want: String = chars[a..b].iter().collect();
    match run_ok(strip_program(), ev(&[("s", s(&c.s))])) {
        Ok(v) if as_text(&v).as_deref() == Some(want.as_str()) => {}
        other => return V::fail_sig("strip_whitespace mismatch", format!("strip_whitespace({:?}) gave {other:?}, model (White_Space prefix/suffix removed) gives {want:?}", c.s)),
    }
    let removed = a > 0 || b < chars.len();
    let lookalike_edge = chars.get(a).is_some_and(|ch| NOT_WHITE_SPACE.contains(ch)) || (b > a && NOT_WHITE_SPACE.contains(&chars[b - 1]));
    V::pass()
        .nontrivial(removed || lookalike_edge)
        .class_if(removed, "whitespace_removed")
        .class_if(a > 0 && b < chars.len(), "both_ends")
        .class_if(lookalike_edge, "non_whitespace_lookalike_at_edge")
        .class_if(chars[a..b].iter().any(|ch| is_ws(*ch)), "inner_whitespace_kept")
        .class_if(a == b && !chars.is_empty(), "all_whitespace")
        .class_if(chars[..a].iter().chain(&chars[b..]).any(|ch| !ch.is_ascii()), "non_ascii_whitespace_removed")
}

fn strip_case() -> impl Strategy<Value = StrCase> {
    let edge = || proptest::collection::vec(prop_oneof![6 => from_set(WHITE_SPACE), 1 => from_set(NOT_WHITE_SPACE)], 0..=3).prop_map(|v| v.into_iter().collect::<String>());
    prop_oneof![
        5 => (edge(), ustr(6), edge()).prop_map(|(a, m, b)| format!("{a}{m}{b}")),
        1 => edge(),
        1 => ustr(8),
    ]
    .prop_map(|s| StrCase { s })
}

// ------------------------------------------------------------------------------------------
// 3. split / join

#[derive(Clone, Debug, Serialize, Deserialize)]
pub struct SplitCase {
    pub s: String,
    pub d: String,
    /// `limit` argument (>= 1) if any
    pub limit: Option<i64>,
}

struct SplitProgs {
    plain: Program,
    limited: Program,
}

fn split_programs() -> &'static SplitProgs {
    static P: OnceLock<SplitProgs> = OnceLock::new();
    P.get_or_init(|| SplitProgs {
        plain: must_compile("p = split(.s, .d); [p, join!(p, .d)]", &[("s", Kind::bytes()), ("d", Kind::bytes())]),
        limited: must_compile("p = split(.s, .d, limit: .n); [p, join!(p, separator: .d)]", &[("s", Kind::bytes()), ("d", Kind::bytes()), ("n", Kind::integer())]),
    })
}

fn model_split(st: &str, d: &str, limit: Option<usize>) -> Vec<String> {
    let (sb, db) = (st.as_bytes(), d.as_bytes());
    let mut out = Vec::new();
    let (mut start, mut i) = (0usize, 0usize);
    while i + db.len() <= sb.len() {
        if limit.is_some_and(|n| out.len() + 1 >= n) {
            break;
        }
        if &sb[i..i + db.len()] == db {
            out.push(st[start..i].to_string());
            i += db.len();
            start = i;
        } else {
            i += 1;
        }
    }
    out.push(st[start..].to_string());
    out
}

fn check_split(c: &SplitCase) -> V {
    let progs = split_programs();
    let res = match c.limit {
        None => run_arr(&progs.plain, ev(&[("s", s(&c.s)), ("d", s(&c.d))]), 2),
        Some(n) => run_arr(&progs.limited, ev(&[("s", s(&c.s)), ("d", s(&c.d)), ("n", Value::Integer(n))]), 2),
    };
    let got = match res {
        Ok(a) => a,
        Err(e) => return V::fail(format!("split/join on {c:?}: {e}")),
    };
    let joined = as_text(&got[1]);
    if joined.as_deref() != Some(c.s.as_str()) {
        return V::fail_sig("split_join mismatch", format!("join!(split({:?}, {:?}{}), {:?}) = {} (pieces {}), expected the subject back", c.s, c.d, c.limit.map(|n| format!(", limit: {n}")).unwrap_or_default(), c.d, got[1], got[0]));
    }
    let pieces: Vec<String> = match &got[0] {
        Value::Array(a) => a.iter().map(|x| as_text(x).unwrap_or_else(|| "<non-text>".into())).collect(),
        _ => return V::fail("split did not return an array"),
    };
    if let Some(n) = c.limit {
        if pieces.len() as i64 > n {
            return V::fail_sig("split limit exceeded", format!("split({:?}, {:?}, limit: {n}) returned {} pieces", c.s, c.d, pieces.len()));
        }
    }
    if !c.d.is_empty() {
        let want = model_split(&c.s, &c.d, c.limit.map(|n| n as usize));
        if pieces != want {
            return V::fail_sig("split pieces mismatch", format!("split({:?}, {:?}{}) = {pieces:?}, naive scan gives {want:?}", c.s, c.d, c.limit.map(|n| format!(", limit: {n}")).unwrap_or_default()));
        }
    }
    let occurs = if c.d.is_empty() { !c.s.is_empty() } else { c.s.contains(c.d.as_str()) };
    V::pass()
        .nontrivial(occurs)
        .class_if(occurs, "delimiter_occurs")
        .class_if(c.d.is_empty(), "empty_delimiter")
        .class_if(c.limit.is_some(), "with_limit")
        .class_if(c.limit.is_some_and(|n| occurs && !c.d.is_empty() && (model_split(&c.s, &c.d, None).len() as i64) > n), "limit_cuts")
        .class_if(!c.d.is_ascii(), "non_ascii_delimiter")
        .class_if(pieces.iter().any(String::is_empty) && !c.d.is_empty(), "empty_piece")
}

fn split_case() -> impl Strategy<Value = SplitCase> {
    let delim = || prop_oneof![4 => proptest::collection::vec(uchar(), 1..=3).prop_map(|v| v.into_iter().collect::<String>()), 2 => "[a,;: ]{1,2}", 1 => Just(String::new())];
    let limit = prop_oneof![3 => Just(None), 2 => (1i64..=4).prop_map(Some), 1 => prop_oneof![Just(1i64), Just(1000), Just(i64::MAX)].prop_map(Some)];
    let built = (proptest::collection::vec(ustr(3), 1..=5), delim()).prop_map(|(ws, d)| (ws.join(&d), d));
    let sub = (ustr(10), any::<u16>(), 1usize..=3).prop_map(|(st, at, n)| {
        let chars: Vec<char> = st.chars().collect();
        if chars.is_empty() {
            return (st, "a".to_string());
        }
        let i = (at as usize) % chars.len();
        let d: String = chars[i..(i + n).min(chars.len())].iter().collect();
        (st, d)
    });
    let overlap = ("[ab]{0,8}", "[ab]{1,3}").prop_map(|(a, b)| (a, b));
    (prop_oneof![4 => built, 3 => sub, 1 => overlap, 2 => (ustr(8), delim())], limit).prop_map(|((s, d), limit)| SplitCase { s, d, limit })
}

// ------------------------------------------------------------------------------------------
// 4. starts_with / ends_with / contains / find

#[derive(Clone, Debug, Serialize, Deserialize)]
pub struct SubstrCase {
    pub s: String,
    pub t: String,
    /// `case_sensitive` argument; None = omitted (documented default: true)
    pub cs: Option<bool>,
    /// `from` argument of find; None = omitted
    pub from: Option<i64>,
}

struct SubstrProgs {
    default: Program,
    with_cs: Program,
    find_from: Program,
}

fn substr_programs() -> &'static SubstrProgs {
    static P: OnceLock<SubstrProgs> = OnceLock::new();
    let k = [("s", Kind::bytes()), ("t", Kind::bytes()), ("cs", Kind::boolean()), ("n", Kind::integer())];
    P.get_or_init(|| SubstrProgs {
        default: must_compile("[starts_with(.s, .t), ends_with(.s, .t), contains(.s, .t), find(.s, .t)]", &k),
        with_cs: must_compile("[starts_with(.s, .t, case_sensitive: .cs), ends_with(.s, .t, .cs), contains(.s, .t, case_sensitive: .cs), find(.s, .t)]", &k),
        find_from: must_compile("find(.s, .t, from: .n)", &k),
    })
}

fn occurrences(hay: &[u8], needle: &[u8]) -> Vec<usize> {
    if needle.len() > hay.len() {
        return Vec::new();
    }
    (0..=hay.len() - needle.len()).filter(|&i| &hay[i..i + needle.len()] == needle).collect()
}

fn occurrences_chars(hay: &[char], needle: &[char]) -> Vec<usize> {
    if needle.len() > hay.len() {
        return Vec::new();
    }
    (0..=hay.len() - needle.len()).filter(|&i| &hay[i..i + needle.len()] == needle).collect()
}

/// [starts, ends, contains] of a char sequence
fn three(hay: &[char], needle: &[char]) -> [bool; 3] {
    let occ = occurrences_chars(hay, needle);
    [occ.contains(&0), needle.len() <= hay.len() && occ.contains(&(hay.len() - needle.len())), !occ.is_empty()]
}

fn fine_fold(st: &str) -> Vec<char> {
    st.chars().flat_map(char::to_lowercase).collect()
}

fn coarse_fold(st: &str) -> Vec<char> {
    st.chars().flat_map(char::to_uppercase).flat_map(char::to_lowercase).collect()
}

fn simple_cased(st: &str) -> bool {
    st.chars().all(|c| c.to_lowercase().count() == 1 && c.to_uppercase().count() == 1 && c.to_lowercase().flat_map(char::to_uppercase).count() == 1 && c.to_uppercase().flat_map(char::to_lowercase).count() == 1)
}

/// Does lower-casing change the UTF-8 length of any character of `st`?
fn fold_changes_width(st: &str) -> bool {
    st.chars().any(|c| c.to_lowercase().map(char::len_utf8).sum::<usize>() != c.len_utf8())
}

const PRED: [&str; 3] = ["starts_with", "ends_with", "contains"];

fn check_substr(c: &SubstrCase, excl_width: bool, excl_sigma: bool) -> V {
    let progs = substr_programs();
    let base = ev(&[("s", s(&c.s)), ("t", s(&c.t)), ("cs", Value::Boolean(c.cs.unwrap_or(true))), ("n", Value::Integer(c.from.unwrap_or(0)))]);
    let got = match run_arr(if c.cs.is_some() { &progs.with_cs } else { &progs.default }, base.clone(), 4) {
        Ok(a) => a,
        Err(e) => return V::fail(format!("substring predicates on {c:?}: {e}")),
    };
    let (sb, tb) = (c.s.as_bytes(), c.t.as_bytes());
    let occ = occurrences(sb, tb);
    let sens = [occ.contains(&0), tb.len() <= sb.len() && occ.contains(&(sb.len() - tb.len())), !occ.is_empty()];
    let insensitive = c.cs == Some(false);
    let mut v = V::pass();
    let mut ambiguous = false;
    let mut case_only = false;
    let mut skipped: Option<&'static str> = None;
    let width_class = fold_changes_width(&c.s) || fold_changes_width(&c.t);
    let sigma_class = c.s.contains('Σ') || c.t.contains('Σ');
    let (fine3, coarse3, simple) = if insensitive {
        (three(&fine_fold(&c.s), &fine_fold(&c.t)), three(&coarse_fold(&c.s), &coarse_fold(&c.t)), simple_cased(&c.s) && simple_cased(&c.t))
    } else {
        ([false; 3], [false; 3], false)
    };
    for i in 0..3 {
        let Value::Boolean(g) = got[i] else {
            return V::fail(format!("{} returned {}", PRED[i], got[i]));
        };
        let want = if insensitive {
            let (fine, coarse) = (fine3[i], coarse3[i]);
            if sens[i] {
                Some(true)
            } else if fine == coarse && simple {
                case_only |= fine;
                Some(fine)
            } else {
                ambiguous = true;
                None
            }
        } else {
            Some(sens[i])
        };
        // input classes switched off while a known finding is open (decided from the input alone)
        if insensitive && i == 0 && excl_width && width_class {
            skipped = Some("starts_with_ci_width_changing_fold");
            continue;
        }
        if insensitive && i != 0 && excl_sigma && sigma_class {
            skipped = Some("ci_capital_sigma");
            continue;
        }
        if let Some(w) = want {
            if g != w {
                let why = if insensitive {
                    if sens[i] { "a case-sensitive match must also match case-insensitively" } else { "char-wise lower-cased naive search" }
                } else {
                    "naive byte search"
                };
                return V::fail_sig(
                    format!("{} mismatch{}", PRED[i], if insensitive { " (case-insensitive)" } else { "" }),
                    format!("{}({:?}, {:?}{}) = {g}, expected {w} ({why})", PRED[i], c.s, c.t, c.cs.map(|b| format!(", case_sensitive: {b}")).unwrap_or_default()),
                );
            }
        }
    }
    // find: null iff no occurrence, else the first occurrence (byte offset; the scalar-value
    // index of the same occurrence is accepted too because the docs do not name the unit)
    let first = occ.first().copied();
    let first_char = first.map(|b| c.s[..b].chars().count());
    let ok = match (&got[3], first) {
        (Value::Null, None) => true,
        (Value::Integer(p), Some(b)) => *p == b as i64 || Some(*p) == first_char.map(|x| x as i64),
        _ => false,
    };
    if !ok {
        return V::fail_sig("find mismatch", format!("find({:?}, {:?}) = {}, naive search finds the first occurrence at byte {first:?} (scalar index {first_char:?})", c.s, c.t, got[3]));
    }
    // cross-check with the predicates as the statement words it
    if !insensitive {
        let found0 = matches!(got[3], Value::Integer(0));
        if found0 != sens[0] {
            return V::fail_sig("find/starts_with disagree", format!("find({:?}, {:?}) = {} but starts_with = {}", c.s, c.t, got[3], sens[0]));
        }
    }
    if let Some(n) = c.from {
        // only asserted where byte and scalar positions coincide and the offset is in 0..=len
        if c.s.is_ascii() && c.t.is_ascii() && n >= 0 {
            let want = occ.iter().copied().find(|p| *p as i64 >= n);
            let got_from = match run_ok(&progs.find_from, base) {
                Ok(x) => x,
                Err(e) => return V::fail(format!("find with from on {c:?}: {e}")),
            };
            let ok = match (&got_from, want) {
                (Value::Null, None) => true,
                (Value::Integer(p), Some(w)) => *p == w as i64,
                _ => false,
            };
            if !ok {
                return V::fail_sig("find from mismatch", format!("find({:?}, {:?}, from: {n}) = {got_from}, naive search gives {want:?}", c.s, c.t));
            }
            v = v.class("find_from_checked");
        } else {
            v = v.class("find_from_not_asserted");
        }
    }
    if let Some(sw) = skipped {
        // everything that is not switched off held; count the case under the switch
        return V::excluded(sw);
    }
    let any_occ = !occ.is_empty();
    v.nontrivial((any_occ && !c.t.is_empty()) || case_only)
        .class_if(any_occ && !c.t.is_empty(), "needle_occurs")
        .class_if(sens[0] && !c.t.is_empty(), "is_prefix")
        .class_if(sens[1] && !c.t.is_empty(), "is_suffix")
        .class_if(any_occ && !sens[0] && !sens[1], "inner_only")
        .class_if(c.t.is_empty(), "empty_needle")
        .class_if(insensitive, "case_insensitive")
        .class_if(insensitive && case_only, "case_insensitive_match_by_folding")
        .class_if(ambiguous, "fold_ambiguous_not_asserted")
        .class_if(!c.s.is_ascii(), "non_ascii_subject")
        .class_if(c.t.len() > c.s.len(), "needle_longer")
}

fn flip_case(st: &str, mask: u32) -> String {
    st.chars()
        .enumerate()
        .map(|(i, ch)| {
            if mask >> (i % 32) & 1 == 0 {
                return ch;
            }
            let up: Vec<char> = ch.to_uppercase().collect();
            let lo: Vec<char> = ch.to_lowercase().collect();
            if up.len() == 1 && up[0] != ch {
                up[0]
            } else if lo.len() == 1 {
                lo[0]
            } else {
                ch
            }
        })
        .collect()
}

fn substr_case() -> impl Strategy<Value = SubstrCase> {
    let pair = prop_oneof![
        // needle cut out of the subject (prefix / suffix / inner), optionally case-flipped
        6 => (fold_str(8), any::<u16>(), any::<u16>(), 0u8..4, prop_oneof![2 => Just(0u32), 1 => any::<u32>()]).prop_map(|(st, a, b, mode, mask)| {
            let chars: Vec<char> = st.chars().collect();
            let n = chars.len();
            let (i, j) = match mode {
                0 => (0, (a as usize) % (n + 1)),
                1 => ((a as usize) % (n + 1), n),
                _ => {
                    let i = (a as usize) % (n + 1);
                    (i, i + (b as usize) % (n - i + 1))
                }
            };
            // mostly non-empty needles
            let (i, j) = if i == j && n > 0 && a % 8 != 0 { (i.min(n - 1), i.min(n - 1) + 1) } else { (i, j) };
            let t: String = chars[i..j].iter().collect();
            (st, flip_case(&t, mask))
        }),
        // subject built around a needle
        2 => (fold_str(3), proptest::collection::vec(fold_char(), 1..=3).prop_map(|v| v.into_iter().collect::<String>()), fold_str(3), any::<u32>()).prop_map(|(a, t, b, mask)| (format!("{a}{}{b}", flip_case(&t, mask)), t)),
        2 => (fold_str(6), proptest::collection::vec(fold_char(), 1..=3).prop_map(|v| v.into_iter().collect::<String>())),
        1 => (ustr(6), ustr(2)),
        1 => ("[ab]{0,6}", "[ab]{1,3}").prop_map(|(a, b)| (a, b)),
    ];
    let cs = prop_oneof![2 => Just(None), 1 => Just(Some(true)), 4 => Just(Some(false))];
    let from = prop_oneof![3 => Just(None), 2 => (0i64..=10).prop_map(Some)];
    (pair, cs, from).prop_map(|((s, t), cs, from)| SubstrCase { s, t, cs, from })
}

// ------------------------------------------------------------------------------------------
// 5. truncate / strlen / length

#[derive(Clone, Debug, Serialize, Deserialize)]
pub struct TruncCase {
    pub s: String,
    /// limit, >= 0
    pub n: i64,
    pub suffix: Option<String>,
}

struct TruncProgs {
    plain: Program,
    suffix: Program,
}

fn trunc_programs() -> &'static TruncProgs {
    static P: OnceLock<TruncProgs> = OnceLock::new();
    let k = [("s", Kind::bytes()), ("n", Kind::integer()), ("x", Kind::bytes())];
    P.get_or_init(|| TruncProgs {
        plain: must_compile("t = truncate(.s, .n); [t, strlen(t), strlen(.s), length(.s)]", &k),
        suffix: must_compile("t = truncate(.s, limit: .n, suffix: .x); [t, strlen(t), strlen(.s), length(.s)]", &k),
    })
}

/// number of Unicode scalar values = number of bytes that are not UTF-8 continuation bytes
fn scalar_count(st: &str) -> i64 {
    st.bytes().filter(|b| b & 0xC0 != 0x80).count() as i64
}

fn check_trunc(c: &TruncCase) -> V {
    if c.n < 0 {
        return V::discard("negative limit");
    }
    let progs = trunc_programs();
    let event = ev(&[("s", s(&c.s)), ("n", Value::Integer(c.n)), ("x", s(c.suffix.as_deref().unwrap_or("")))]);
    let got = match run_arr(if c.suffix.is_some() { &progs.suffix } else { &progs.plain }, event, 4) {
        Ok(a) => a,
        Err(e) => return V::fail(format!("truncate on {c:?}: {e}")),
    };
    let total = scalar_count(&c.s);
    if got[2] != Value::Integer(total) {
        return V::fail_sig("strlen mismatch", format!("strlen({:?}) = {}, the string has {total} Unicode scalar values", c.s, got[2]));
    }
    if got[3] != Value::Integer(c.s.len() as i64) {
        return V::fail_sig("length mismatch", format!("length({:?}) = {}, the string has {} bytes", c.s, got[3], c.s.len()));
    }
    let suffix = c.suffix.clone().unwrap_or_default();
    let cut = total > c.n;
    let want = if cut {
        let mut p: String = c.s.chars().take(c.n as usize).collect();
        p.push_str(&suffix);
        p
    } else {
        c.s.clone()
    };
    let Some(t) = as_text(&got[0]) else {
        return V::fail(format!("truncate returned {}", got[0]));
    };
    let Value::Integer(tl) = got[1] else {
        return V::fail(format!("strlen returned {}", got[1]));
    };
    // the statement's law first, then the documented model
    if tl > c.n.saturating_add(scalar_count(&suffix)) {
        return V::fail_sig("truncate too long", format!("strlen(truncate({:?}, {}{})) = {tl} exceeds limit + suffix length", c.s, c.n, c.suffix.as_ref().map(|x| format!(", suffix: {x:?}")).unwrap_or_default()));
    }
    if t != want {
        return V::fail_sig("truncate mismatch", format!("truncate({:?}, {}{}) = {t:?}, model (first n scalar values + suffix when cut) gives {want:?}", c.s, c.n, c.suffix.as_ref().map(|x| format!(", suffix: {x:?}")).unwrap_or_default()));
    }
    V::pass()
        .nontrivial(cut || !c.s.is_ascii())
        .class_if(cut, "string_cut")
        .class_if(cut && !c.s.is_ascii(), "non_ascii_cut")
        .class_if(total == c.n, "length_equals_limit")
        .class_if(c.n == 0, "limit_zero")
        .class_if(c.suffix.is_some(), "with_suffix")
        .class_if(c.s.chars().any(|ch| ch.len_utf8() == 4), "has_4_byte_char")
}

fn trunc_case() -> impl Strategy<Value = TruncCase> {
    (ustr(12), prop_oneof![6 => 0i64..=14, 1 => Just(i64::MAX), 1 => 0i64..=1000], prop_oneof![2 => Just(None), 1 => Just(Some("...".to_string())), 1 => ustr(3).prop_map(Some), 1 => Just(Some(String::new()))])
        .prop_map(|(s, n, suffix)| TruncCase { s, n, suffix })
}

// ------------------------------------------------------------------------------------------
// 6. slice

#[derive(Clone, Debug, Serialize, Deserialize)]
pub struct SliceCase {
    /// TV::Str or TV::Array
    pub v: TV,
    pub start: i64,
    pub end: Option<i64>,
}

struct SliceProgs {
    open: Program,
    closed: Program,
}

fn slice_programs() -> &'static SliceProgs {
    static P: OnceLock<SliceProgs> = OnceLock::new();
    let k = [("v", Kind::bytes().or_array(Collection::any())), ("a", Kind::integer()), ("b", Kind::integer())];
    P.get_or_init(|| SliceProgs { open: must_compile("slice!(.v, .a)", &k), closed: must_compile("slice!(.v, start: .a, end: .b)", &k) })
}

/// documented range: start in -len..=len, end (default len) not before start; end beyond len clamps
fn slice_range(len: i64, start: i64, end: Option<i64>) -> Option<(usize, usize)> {
    let st = if start < 0 { start.checked_add(len)? } else { start };
    let en = match end {
        Some(e) if e < 0 => e.checked_add(len)?,
        Some(e) => e,
        None => len,
    };
    if st < 0 || st > len || en < st {
        return None;
    }
    Some((st as usize, en.min(len) as usize))
}

fn check_slice(c: &SliceCase) -> V {
    let progs = slice_programs();
    let event = ev(&[("v", c.v.to_value()), ("a", Value::Integer(c.start)), ("b", Value::Integer(c.end.unwrap_or(0)))]);
    let end = vrlx::run(if c.end.is_some() { &progs.closed } else { &progs.open }, event, vrlx::empty_object()).end;
    // candidate expectations (strings: byte units and scalar-value units)
    let mut wants: Vec<Option<Value>> = Vec::new();
    let units;
    match &c.v {
        TV::Array(a) => {
            units = "elements";
            wants.push(slice_range(a.len() as i64, c.start, c.end).map(|(i, j)| Value::Array(a[i..j].iter().map(TV::to_value).collect())));
        }
        TV::Str(st) => {
            units = "bytes/scalars";
            wants.push(slice_range(st.len() as i64, c.start, c.end).map(|(i, j)| Value::Bytes(bytes::Bytes::copy_from_slice(&st.as_bytes()[i..j]))));
            if !st.is_ascii() {
                let chars: Vec<char> = st.chars().collect();
                wants.push(slice_range(chars.len() as i64, c.start, c.end).map(|(i, j)| Value::from(chars[i..j].iter().collect::<String>())));
            }
        }
        _ => return V::discard("slice subject is neither string nor array"),
    }
    let in_range_all = wants.iter().all(Option::is_some);
    match &end {
        End::Ok(g) => {
            let specified: Vec<&Value> = wants.iter().flatten().collect();
            if !specified.is_empty() && !specified.iter().any(|w| *w == g) {
                return V::fail_sig("slice mismatch", format!("slice!({:?}, {}{}) = {g}, positional model ({units}) gives {specified:?}", c.v, c.start, c.end.map(|e| format!(", {e}")).unwrap_or_default()));
            }
        }
        End::Error(m) => {
            if in_range_all {
                return V::fail_sig("slice error in range", format!("slice!({:?}, {}{}) failed ({m}) although the range is within the documented bounds", c.v, c.start, c.end.map(|e| format!(", {e}")).unwrap_or_default()));
            }
        }
        other => return V::fail(format!("slice ended with {other:?}")),
    }
    let len = match &c.v {
        TV::Array(a) => a.len() as i64,
        TV::Str(st) => st.len() as i64,
        _ => 0,
    };
    let neg = c.start < 0 || c.end.is_some_and(|e| e < 0);
    let clamped = c.end.is_some_and(|e| e > len);
    V::pass()
        .nontrivial(in_range_all && (neg || clamped || c.start > 0))
        .class_if(matches!(c.v, TV::Array(_)), "array")
        .class_if(matches!(c.v, TV::Str(_)), "string")
        .class_if(matches!(&c.v, TV::Str(st) if !st.is_ascii()), "non_ascii_string_units_not_asserted")
        .class_if(in_range_all && neg, "negative_index")
        .class_if(in_range_all && clamped, "end_clamped")
        .class_if(!in_range_all, "out_of_documented_range_no_panic_only")
        .class_if(c.end.is_none(), "open_end")
        .class_if(matches!(end, End::Error(_)), "error_result")
}

fn small_scalar() -> impl Strategy<Value = TV> {
    prop_oneof![
        2 => Just(TV::Null),
        2 => any::<bool>().prop_map(TV::Bool),
        4 => (-2i64..=3).prop_map(TV::Int),
        2 => prop_oneof![Just(0.0f64), Just(-0.0f64), Just(1.0f64), Just(1.5f64), Just(f64::INFINITY)].prop_map(TV::float),
        4 => prop_oneof![Just(""), Just("a"), Just("A"), Just("b"), Just("-"), Just(" "), Just("é")].prop_map(TV::str),
        1 => Just(TV::Ts { s: 0, n: 0 }),
        1 => Just(TV::Ts { s: 0, n: 1 }),
    ]
}

fn small_value(depth: u32) -> BoxedStrategy<TV> {
    small_scalar()
        .prop_recursive(depth, 24, 4, |inner| {
            prop_oneof![
                1 => proptest::collection::vec(inner.clone(), 0..=3).prop_map(TV::Array),
                1 => proptest::collection::btree_map(prop_oneof![Just("a".to_string()), Just("b".to_string()), Just("k".to_string())], inner, 0..=3).prop_map(TV::Object),
            ]
        })
        .boxed()
}

fn slice_case() -> impl Strategy<Value = SliceCase> {
    let subject = prop_oneof![
        3 => "[a-z]{0,8}".prop_map(TV::Str),
        2 => ustr(6).prop_map(TV::Str),
        4 => proptest::collection::vec(small_value(1), 0..=6).prop_map(TV::Array),
    ];
    let wild = || prop_oneof![8 => -9i64..=9, 1 => prop_oneof![Just(i64::MIN), Just(i64::MAX), Just(i64::MIN + 1), Just(100i64), Just(-100i64)]];
    // 3 of 4 cases: indices placed inside the documented range of the subject (either sign,
    // end sometimes beyond the length); the rest: anything
    (subject, any::<u16>(), any::<u16>(), 0u8..16, wild(), prop_oneof![1 => Just(None), 2 => wild().prop_map(Some)]).prop_map(|(v, a, b, mode, ws, we)| {
        let len = match &v {
            TV::Str(st) => st.len() as i64,
            TV::Array(x) => x.len() as i64,
            _ => 0,
        };
        if mode >= 12 {
            return SliceCase { v, start: ws, end: we };
        }
        let st = i64::from(a) % (len + 1);
        let en = st + i64::from(b) % (len - st + 1) + if mode & 8 != 0 { i64::from(b % 3) } else { 0 };
        let start = if mode & 1 != 0 && st < len { st - len } else { st };
        let end = match mode & 6 {
            0 => None,
            2 if en < len => Some(en - len),
            _ => Some(en),
        };
        SliceCase { v, start, end }
    })
}

// ------------------------------------------------------------------------------------------
// 7. unique

#[derive(Clone, Debug, Serialize, Deserialize)]
pub struct ArrCase {
    pub a: Vec<TV>,
}

fn unique_program() -> &'static Program {
    static P: OnceLock<Program> = OnceLock::new();
    P.get_or_init(|| must_compile("unique(.a)", &[("a", any_array())]))
}

/// equality that identifies 0.0 and -0.0 (numeric float equality), structural otherwise
fn loose_eq(a: &TV, b: &TV) -> bool {
    match (a, b) {
        (TV::Float(x), TV::Float(y)) => x.0 == y.0,
        (TV::Array(x), TV::Array(y)) => x.len() == y.len() && x.iter().zip(y).all(|(p, q)| loose_eq(p, q)),
        (TV::Object(x), TV::Object(y)) => x.len() == y.len() && x.iter().zip(y).all(|((k1, p), (k2, q))| k1 == k2 && loose_eq(p, q)),
        _ => a == b,
    }
}

fn first_occurrences(a: &[TV], eq: fn(&TV, &TV) -> bool) -> Vec<TV> {
    let mut out: Vec<TV> = Vec::new();
    for x in a {
        if !out.iter().any(|y| eq(x, y)) {
            out.push(x.clone());
        }
    }
    out
}

fn check_unique(c: &ArrCase) -> V {
    let got = match run_ok(unique_program(), ev(&[("a", TV::Array(c.a.clone()).to_value())])) {
        Ok(Value::Array(a)) => a.iter().map(TV::from_value).collect::<Vec<TV>>(),
        other => return V::fail(format!("unique({:?}) gave {other:?}", c.a)),
    };
    let strict = first_occurrences(&c.a, |x, y| x == y);
    let loose = first_occurrences(&c.a, loose_eq);
    if got != strict && got != loose {
        return V::fail_sig("unique mismatch", format!("unique({:?}) = {got:?}, first-occurrence subsequence is {strict:?}{}", c.a, if strict != loose { format!(" (or {loose:?} when 0.0 and -0.0 count as equal)") } else { String::new() }));
    }
    for (i, x) in got.iter().enumerate() {
        if got[..i].iter().any(|y| y == x) {
            return V::fail_sig("unique keeps duplicate", format!("unique({:?}) = {got:?} still holds {x:?} twice", c.a));
        }
    }
    let dups = strict.len() < c.a.len();
    V::pass()
        .nontrivial(dups)
        .class_if(dups, "has_duplicates")
        .class_if(strict != loose, "signed_zero_pair")
        .class_if(c.a.iter().any(TV::is_container) && dups, "container_elements")
        .class_if(c.a.iter().any(|x| matches!(x, TV::Int(1))) && c.a.iter().any(|x| matches!(x, TV::Float(f) if f.0 == 1.0)), "int_and_equal_float_kept_apart")
        .class_if(c.a.is_empty(), "empty_array")
}

fn arr_case() -> impl Strategy<Value = ArrCase> {
    prop_oneof![
        3 => proptest::collection::vec(small_value(2), 0..=8),
        // fixed pool around the equality corner cases (signed zeros, 1 vs 1.0, letter case)
        2 => proptest::collection::vec(any::<u16>(), 0..=8).prop_map(|idx| {
            let pool = [TV::float(0.0), TV::float(-0.0), TV::Int(1), TV::float(1.0), TV::Int(0), TV::str("a"), TV::str("A"), TV::Null, TV::Bool(false), TV::Array(vec![]), TV::Array(vec![TV::float(0.0)]), TV::Array(vec![TV::float(-0.0)]), TV::Object(BTreeMap::new())];
            idx.into_iter().map(|i| pick(&pool, i)).collect::<Vec<TV>>()
        }),
        // pool-based: many repeats, interleaved
        3 => (proptest::collection::vec(small_value(2), 1..=4), proptest::collection::vec(any::<u16>(), 0..=10)).prop_map(|(pool, idx)| idx.into_iter().map(|i| pick(&pool, i)).collect::<Vec<TV>>()),
    ]
    .prop_map(|a| ArrCase { a })
}

// ------------------------------------------------------------------------------------------
// 8. compact

#[derive(Clone, Debug, Serialize, Deserialize)]
pub struct CompactCase {
    /// TV::Array or TV::Object
    pub v: TV,
    /// recursive, null, string, object, array, nullish — None = argument omitted
    pub opts: [Option<bool>; 6],
}

const COMPACT_OPTS: [&str; 6] = ["recursive", "null", "string", "object", "array", "nullish"];
/// documented defaults
const COMPACT_DEFAULTS: [bool; 6] = [true, true, true, true, true, false];

fn nullish(v: &TV) -> bool {
    match v {
        TV::Null => true,
        TV::Str(st) => st.is_empty() || st == "-" || st.chars().all(is_ws),
        _ => false,
    }
}

fn compact_empty(o: &[bool; 6], v: &TV) -> bool {
    if o[5] && nullish(v) {
        return true;
    }
    match v {
        TV::Null => o[1],
        TV::Str(st) => o[2] && st.is_empty(),
        TV::Object(m) => o[3] && m.is_empty(),
        TV::Array(a) => o[4] && a.is_empty(),
        _ => false,
    }
}

fn compact_model(o: &[bool; 6], v: &TV, root: bool) -> TV {
    if !root && !o[0] {
        return v.clone();
    }
    match v {
        TV::Array(a) => TV::Array(a.iter().map(|x| compact_model(o, x, false)).filter(|x| !compact_empty(o, x)).collect()),
        TV::Object(m) => TV::Object(m.iter().map(|(k, x)| (k.clone(), compact_model(o, x, false))).filter(|(_, x)| !compact_empty(o, x)).collect()),
        other => other.clone(),
    }
}

fn check_compact(c: &CompactCase) -> V {
    if !c.v.is_container() {
        return V::discard("compact subject is not a container");
    }
    let mut src = "compact(.v".to_string();
    let mut o = COMPACT_DEFAULTS;
    for i in 0..6 {
        if let Some(b) = c.opts[i] {
            src.push_str(&format!(", {}: {b}", COMPACT_OPTS[i]));
            o[i] = b;
        }
    }
    src.push(')');
    let kind = if matches!(c.v, TV::Array(_)) { any_array() } else { any_object() };
    let p = match compile_with(&src, &[("v", kind)]) {
        Ok(p) => p,
        Err(e) => return V::fail(e),
    };
    let want = compact_model(&o, &c.v, true);
    match run_ok(&p, ev(&[("v", c.v.to_value())])) {
        Ok(g) if TV::from_value(&g) == want => {}
        other => return V::fail_sig("compact mismatch", format!("`{src}` on {:?} gave {other:?}, model gives {want:?}", c.v)),
    }
    let removed = want != c.v;
    V::pass()
        .nontrivial(removed)
        .class_if(removed, "something_removed")
        .class_if(c.opts.iter().all(Option::is_none), "all_defaults")
        .class_if(o[5], "nullish_on")
        .class_if(!o[0], "non_recursive")
        .class_if(removed && c.v.depth() > want.depth(), "emptied_container_removed")
        .class_if(matches!(c.v, TV::Object(_)), "object_subject")
        .class_if(matches!(c.v, TV::Array(_)), "array_subject")
        .class_if((1..5).any(|i| c.opts[i] == Some(false)), "some_kind_kept")
}

fn compact_leaf() -> impl Strategy<Value = TV> {
    prop_oneof![
        3 => Just(TV::Null),
        3 => prop_oneof![Just(""), Just("-"), Just(" "), Just("\n\t "), Just("a"), Just(" a "), Just("--")].prop_map(TV::str),
        2 => Just(TV::Array(vec![])),
        2 => Just(TV::Object(BTreeMap::new())),
        1 => (0i64..3).prop_map(TV::Int),
        1 => any::<bool>().prop_map(TV::Bool),
        1 => Just(TV::float(0.0)),
    ]
}

fn compact_value() -> BoxedStrategy<TV> {
    compact_leaf()
        .prop_recursive(3, 24, 4, |inner| {
            prop_oneof![
                1 => proptest::collection::vec(inner.clone(), 0..=4).prop_map(TV::Array),
                1 => proptest::collection::btree_map(prop_oneof![Just("a".to_string()), Just("b".to_string()), Just("c".to_string()), Just("".to_string())], inner, 0..=4).prop_map(TV::Object),
            ]
        })
        .boxed()
}

fn compact_case() -> impl Strategy<Value = CompactCase> {
    let root = prop_oneof![
        1 => proptest::collection::vec(compact_value(), 0..=5).prop_map(TV::Array),
        1 => proptest::collection::btree_map(prop_oneof![Just("a".to_string()), Just("b".to_string()), Just("c".to_string()), Just("d".to_string())], compact_value(), 0..=4).prop_map(TV::Object),
    ];
    let opt = || prop_oneof![2 => Just(None), 1 => Just(Some(true)), 1 => Just(Some(false))];
    let opts = prop_oneof![1 => Just([None; 6]), 5 => [opt(), opt(), opt(), opt(), opt(), opt()]];
    (root, opts).prop_map(|(v, opts)| CompactCase { v, opts })
}

// ------------------------------------------------------------------------------------------
// 9. keys / values / length

#[derive(Clone, Debug, Serialize, Deserialize)]
pub struct ObjCase {
    pub o: BTreeMap<String, TV>,
    /// an array and a string for `length`
    pub arr: Vec<TV>,
    pub text: String,
}

fn kvl_program() -> &'static Program {
    static P: OnceLock<Program> = OnceLock::new();
    P.get_or_init(|| must_compile("[keys(.o), values(.o), length(.o), length(keys(.o)), length(values(.o)), length(.arr), length(.text)]", &[("o", any_object()), ("arr", any_array()), ("text", Kind::bytes())]))
}

fn check_kvl(c: &ObjCase) -> V {
    let event = ev(&[("o", TV::Object(c.o.clone()).to_value()), ("arr", TV::Array(c.arr.clone()).to_value()), ("text", s(&c.text))]);
    let got = match run_arr(kvl_program(), event, 7) {
        Ok(a) => a,
        Err(e) => return V::fail(format!("keys/values/length on {c:?}: {e}")),
    };
    let n = c.o.len() as i64;
    for (i, what) in [(2usize, "length(o)"), (3, "length(keys(o))"), (4, "length(values(o))")] {
        if got[i] != Value::Integer(n) {
            return V::fail_sig("keys/values/length count mismatch", format!("{what} = {} for an object with {n} entries: {:?}", got[i], c.o));
        }
    }
    if got[5] != Value::Integer(c.arr.len() as i64) {
        return V::fail_sig("length(array) mismatch", format!("length({:?}) = {}", c.arr, got[5]));
    }
    if got[6] != Value::Integer(c.text.len() as i64) {
        return V::fail_sig("length(string) mismatch", format!("length({:?}) = {}, the string has {} bytes", c.text, got[6], c.text.len()));
    }
    let (Value::Array(ks), Value::Array(vs)) = (&got[0], &got[1]) else {
        return V::fail("keys/values did not return arrays");
    };
    if ks.len() != c.o.len() || vs.len() != c.o.len() {
        return V::fail_sig("keys/values count mismatch", format!("keys = {}, values = {} for {:?}", got[0], got[1], c.o));
    }
    let mut seen: Vec<String> = Vec::new();
    for (k, v) in ks.iter().zip(vs) {
        let Some(key) = as_text(k) else {
            return V::fail(format!("keys returned a non-string element {k}"));
        };
        match c.o.get(&key) {
            Some(x) if x.to_value() == *v => {}
            _ => return V::fail_sig("keys/values do not pair up", format!("keys = {}, values = {}: position of key {key:?} does not hold the object's value; object {:?}", got[0], got[1], c.o)),
        }
        if seen.contains(&key) {
            return V::fail_sig("keys repeats a key", format!("keys = {} for {:?}", got[0], c.o));
        }
        seen.push(key);
    }
    V::pass()
        .nontrivial(!c.o.is_empty())
        .class_if(c.o.is_empty(), "empty_object")
        .class_if(c.o.len() >= 3, "three_or_more_entries")
        .class_if(c.o.values().any(TV::is_container), "nested_values")
        .class_if(c.o.keys().any(|k| !k.is_ascii() || k.is_empty()), "odd_keys")
        .class_if(!c.text.is_ascii(), "non_ascii_text_length_in_bytes")
}

fn key_name() -> impl Strategy<Value = String> {
    prop_oneof![6 => prop_oneof![Just("a"), Just("b"), Just("c"), Just("k"), Just("x y"), Just("")].prop_map(str::to_string), 2 => ustr(3), 1 => "[a-z]{1,4}"]
}

fn small_object(depth: u32) -> impl Strategy<Value = BTreeMap<String, TV>> {
    proptest::collection::btree_map(key_name(), small_value(depth), 0..=5)
}

fn obj_case() -> impl Strategy<Value = ObjCase> {
    (small_object(2), proptest::collection::vec(small_value(1), 0..=5), ustr(6)).prop_map(|(o, arr, text)| ObjCase { o, arr, text })
}

// ------------------------------------------------------------------------------------------
// 10. merge

#[derive(Clone, Debug, Serialize, Deserialize)]
pub struct MergeCase {
    pub a: BTreeMap<String, TV>,
    pub b: BTreeMap<String, TV>,
    /// None = argument omitted (documented default: false)
    pub deep: Option<bool>,
}

fn merge_programs() -> &'static [Program; 3] {
    static P: OnceLock<[Program; 3]> = OnceLock::new();
    let k = [("a", any_object()), ("b", any_object())];
    P.get_or_init(|| [must_compile("merge(.a, .b)", &k), must_compile("merge(.a, .b, deep: false)", &k), must_compile("merge(.a, .b, deep: true)", &k)])
}

fn merge_model(a: &BTreeMap<String, TV>, b: &BTreeMap<String, TV>, deep: bool) -> BTreeMap<String, TV> {
    let mut out = a.clone();
    for (k, vb) in b {
        let merged = match (deep, out.get(k), vb) {
            (true, Some(TV::Object(x)), TV::Object(y)) => TV::Object(merge_model(x, y, true)),
            _ => vb.clone(),
        };
        out.insert(k.clone(), merged);
    }
    out
}

fn shares_nested(a: &BTreeMap<String, TV>, b: &BTreeMap<String, TV>) -> bool {
    a.iter().any(|(k, x)| matches!((x, b.get(k)), (TV::Object(_), Some(TV::Object(_)))))
}

fn check_merge(c: &MergeCase) -> V {
    let p = &merge_programs()[match c.deep {
        None => 0,
        Some(false) => 1,
        Some(true) => 2,
    }];
    let deep = c.deep.unwrap_or(false);
    let want = TV::Object(merge_model(&c.a, &c.b, deep));
    let got = match run_ok(p, ev(&[("a", TV::Object(c.a.clone()).to_value()), ("b", TV::Object(c.b.clone()).to_value())])) {
        Ok(g) => TV::from_value(&g),
        Err(e) => return V::fail(format!("merge on {c:?}: {e}")),
    };
    if got != want {
        return V::fail_sig("merge mismatch", format!("merge({:?}, {:?}{}) = {got:?}, documented rules give {want:?}", c.a, c.b, c.deep.map(|d| format!(", deep: {d}")).unwrap_or_default()));
    }
    let shared = c.a.keys().any(|k| c.b.contains_key(k));
    let nested = shares_nested(&c.a, &c.b);
    V::pass()
        .nontrivial(shared)
        .class_if(shared, "shared_key")
        .class_if(nested, "shared_key_object_object")
        .class_if(nested && deep, "deep_merge_recurses")
        .class_if(nested && !deep, "shallow_replaces_object")
        .class_if(c.deep.is_none(), "deep_omitted")
        .class_if(c.a.keys().any(|k| !c.b.contains_key(k)), "key_only_in_a")
}

fn merge_obj(depth: u32) -> BoxedStrategy<BTreeMap<String, TV>> {
    let key = || prop_oneof![Just("a".to_string()), Just("b".to_string()), Just("c".to_string()), Just("k".to_string())];
    let leaf = small_scalar();
    let val = leaf
        .prop_recursive(depth, 24, 4, move |inner| {
            prop_oneof![
                3 => proptest::collection::btree_map(prop_oneof![Just("a".to_string()), Just("b".to_string()), Just("c".to_string()), Just("k".to_string())], inner.clone(), 0..=3).prop_map(TV::Object),
                1 => proptest::collection::vec(inner, 0..=2).prop_map(TV::Array),
            ]
        })
        .boxed();
    proptest::collection::btree_map(key(), val, 0..=4).boxed()
}

fn merge_case() -> impl Strategy<Value = MergeCase> {
    (merge_obj(3), merge_obj(3), prop_oneof![1 => Just(None), 1 => Just(Some(false)), 2 => Just(Some(true))]).prop_map(|(a, b, deep)| MergeCase { a, b, deep })
}

// ------------------------------------------------------------------------------------------

pub fn run(r: &mut Run) {
    // replays of the pinned findings must see the unfiltered oracle
    let excl_width = r.excluded("starts_with_ci_width_changing_fold") && !r.is_replay();
    let excl_sigma = r.excluded("ci_capital_sigma") && !r.is_replay();
    let excl_odd = r.excluded("separator_casing_titlecase_or_ypogegrammeni") && !r.is_replay();
    r.sub("casing_idempotent", 400_000, 20_000_000, casing_case, move |c| check_casing(c, excl_odd));
    r.sub("strip_whitespace", 200_000, 10_000_000, strip_case, check_strip);
    r.sub("split_join", 200_000, 10_000_000, split_case, check_split);
    r.sub("substring_predicates", 300_000, 15_000_000, substr_case, move |c| check_substr(c, excl_width, excl_sigma));
    r.sub("truncate_strlen", 200_000, 10_000_000, trunc_case, check_trunc);
    r.sub("slice", 200_000, 10_000_000, slice_case, check_slice);
    r.sub("unique", 150_000, 8_000_000, arr_case, check_unique);
    r.sub("compact", 100_000, 6_000_000, compact_case, check_compact);
    r.sub("keys_values_length", 100_000, 6_000_000, obj_case, check_kvl);
    r.sub("merge", 150_000, 8_000_000, merge_case, check_merge);
}
