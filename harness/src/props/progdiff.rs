//! Shared driver for the properties decided by differential execution against the reference
//! interpreter (C06, C07, C08, C09, C13).

use crate::engine::{Run, V};
use crate::gens::proggen::{self, Preset, ProgCase};
use crate::model::diff::{differential, Agreed, Diff};

pub fn check_with(case: &ProgCase, classify: &dyn Fn(&ProgCase, &Agreed) -> (bool, Vec<&'static str>)) -> V {
    if let Ok(f) = std::env::var("VCHECK_TRACE_FILE") {
        let _ = std::fs::write(format!("{f}.{:?}", std::thread::current().id()), format!("{}\n# event: {}", crate::gens::prog::program_src(&case.prog), case.event.to_value()));
    }
    match differential(case) {
        Diff::Rejected(why) => {
            if let Ok(want) = std::env::var("VCHECK_DUMP") {
                if why.starts_with(&want) {
                    eprintln!("=== {why}\n{}", crate::gens::prog::program_src(&case.prog));
                }
            }
            // generator health: which diagnostics reject generated programs
            let code = why.split_whitespace().next().unwrap_or("E?");
            let label: &'static str = match code {
                "E103" => "rejected_E103_unhandled_fallible_assignment",
                "E100" => "rejected_E100_unhandled_error",
                "E110" => "rejected_E110_fallible_argument",
                "E651" => "rejected_E651_unnecessary_coalesce",
                "E104" => "rejected_E104_unnecessary_error_assignment",
                "E701" => "rejected_E701_undefined_variable",
                "E620" => "rejected_E620_abort_infallible",
                "E102" => "rejected_E102_non_boolean_predicate",
                "E660" => "rejected_E660_non_boolean_negation",
                "E631" => "rejected_E631",
                "E900" => "rejected_E900",
                other => crate::props::c22::intern(format!("rejected_{other}")),
            };
            V::discard(label)
        }
        Diff::Unsupported(_) => V::discard("reference_unsupported"),
        Diff::Mismatch(m) => V::fail(m),
        Diff::Agree(a) => {
            let (nontrivial, classes) = classify(case, &a);
            let mut v = V::pass().nontrivial(nontrivial);
            for c in classes {
                v = v.class(c);
            }
            v = v.class_if(a.src.contains("replace_with("), "replace_with_closure");
            v.class(match a.end {
                crate::model::interp::RefEnd::Ok(_) => "end_ok",
                crate::model::interp::RefEnd::Return(_) => "end_return",
                crate::model::interp::RefEnd::Error => "end_error",
                crate::model::interp::RefEnd::Abort(_) => "end_abort",
                crate::model::interp::RefEnd::Unsupported(_) => "end_unsupported",
            })
        }
    }
}

pub fn sub(
    r: &mut Run,
    name: &str,
    preset: Preset,
    quick: u64,
    thorough: u64,
    classify: fn(&ProgCase, &Agreed) -> (bool, Vec<&'static str>),
) {
    r.sub(name, quick, thorough, move || proggen::strategy(preset), move |c: &ProgCase| check_with(c, &classify));
}

/// presets shared by several properties: switches derived from open known findings
pub fn base_preset(r: &Run) -> Preset {
    Preset {
        no_del_on_variable_paths: r.excluded("del-on-variable-path"),
        no_effects_in_call_args: r.excluded("effects-in-call-arguments"),
        no_closure_outer_assign: r.excluded("closure-assigns-outer-variable"),
        avoid_kind_findings: r.excluded("kind-level-known-findings"),
        ..proggen::BASE
    }
}
