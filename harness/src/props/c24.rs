//! C24 — key-value, logfmt and CSV encoders round-trip.

use std::cell::RefCell;
use std::collections::{BTreeMap, HashMap};

use proptest::prelude::*;
use serde::{Deserialize, Serialize};
use vrl::compiler::Program;
use vrl::value::Value;

use crate::engine::{Run, V};
use crate::gens::value::{raw_bytes, ustring, TV};
use crate::vrlx::{self, End};

pub const RULE: &str = "cases = (a) flat objects of 0..6 entries whose keys and values are non-empty UTF-8 strings over an alphabet of letters, digits, space, tab, CR, LF, other Unicode white space, `\"`, `'`, `\\`, `=`, `:`, `,`, `;`, `|`, `.`, control and non-ASCII characters (plus templates: quoted-looking text, text around a delimiter, leading/trailing backslash or quote) x delimiter choice (defaults omitted; explicit `=`/` `; `:`/`,`; `=`/`|`; `: `/`; `) x optional fields_ordering, evaluated by one compiled VRL program `e = encode_key_value(o, ..); parse_key_value(e, ..)` with matching delimiters; (b) the same objects through encode_logfmt/parse_logfmt; (c) lists of 0..6 strings (empty strings, quotes, delimiters, CR/LF, leading/trailing blanks, non-UTF-8 bytes) x CSV delimiter (default, `;`, tab, `|`, space) through parse_csv!(encode_csv!(l)). The oracle is plain equality of the parsed result with the input (same keys, every value the same string; same list). Input classes that hit an open known finding are recognised syntactically after generation and counted as excluded (see known_findings.json: a line feed anywhere; a backslash, a leading single quote with a closing one in reach, or the active delimiter in a string the encoder leaves unquoted; the empty object; a CSV row whose first item starts with a UTF-8 BOM); everything else is searched, and a pinned replay always goes through the oracle. Non-trivial = at least one key or value (CSV: item) containing a character outside [A-Za-z0-9_] (CSV: or an empty item). Distinct = distinct serialised cases.";
pub const NOTE: &str = "the oracle is the statement itself (parse(encode(x)) == x); the only model is the one-line `would the encoder quote this string` predicate (white space, `\"`, `=`), which is used for class labels and for delimiting the excluded known-finding classes, never for the verdict; options other than the delimiters and fields_ordering keep their defaults";

// open known-finding switches (excluded_by in known_findings.json)
pub const SW_NEWLINE: &str = "c24_newline_in_string";
pub const SW_BACKSLASH: &str = "c24_backslash_in_unquoted_string";
pub const SW_SQUOTE: &str = "c24_leading_single_quote_in_unquoted_string";
pub const SW_DELIM: &str = "c24_active_delimiter_in_unquoted_string";
pub const SW_EMPTY: &str = "c24_empty_object";
pub const SW_CSV_BOM: &str = "c24_csv_leading_bom";

#[derive(Clone, Debug, Serialize, Deserialize)]
pub struct KvCase {
    pub o: BTreeMap<String, String>,
    /// None = argument omitted (the function's default)
    pub kvd: Option<String>,
    pub fd: Option<String>,
    /// optional `fields_ordering` argument (a permutation / subset of the keys)
    #[serde(default)]
    pub order: Option<Vec<String>>,
}

#[derive(Clone, Debug, Serialize, Deserialize)]
pub struct LogfmtCase {
    pub o: BTreeMap<String, String>,
}

#[derive(Clone, Debug, Serialize, Deserialize)]
pub struct CsvCase {
    /// TV::Str or TV::Bin items
    pub l: Vec<TV>,
    pub delim: Option<String>,
}

// ------------------------------------------------------------------------------------------
// program cache (programs differ only in the literal delimiters)

thread_local! {
    static CACHE: RefCell<HashMap<String, Program>> = RefCell::new(HashMap::new());
}

fn run_cached(src: &str, event: Value) -> Result<vrlx::RunOut, String> {
    CACHE.with(|c| {
        let mut c = c.borrow_mut();
        if !c.contains_key(src) {
            match vrlx::compile(src) {
                Ok(res) => {
                    c.insert(src.to_string(), res.program);
                }
                Err(d) => return Err(format!("program `{src}` rejected: {}", vrlx::diag_summary(&d))),
            }
        }
        Ok(vrlx::run(&c[src], event, vrlx::empty_object()))
    })
}

fn obj_tv(o: &BTreeMap<String, String>) -> TV {
    TV::Object(o.iter().map(|(k, v)| (k.clone(), TV::Str(v.clone()))).collect())
}

/// `[parsed, err, encoded]` -> verdict pieces
fn unpack(out: &vrlx::RunOut) -> Result<(Value, String), String> {
    match &out.end {
        End::Ok(Value::Array(a)) if a.len() == 3 => {
            let text = a[2].as_bytes().map(|b| String::from_utf8_lossy(b).into_owned()).ok_or("encoder did not return a string")?;
            if !a[1].is_null() {
                return Err(format!("the parser rejected the encoder's output {text:?}: {}", a[1]));
            }
            Ok((a[0].clone(), text))
        }
        End::Error(m) => Err(format!("program failed: {m}")),
        other => Err(format!("program ended with {other:?}")),
    }
}

fn same_object(want: &BTreeMap<String, String>, got: &Value) -> Result<(), String> {
    let Some(g) = got.as_object() else { return Err(format!("parser returned a non-object {got}")) };
    for (k, v) in want {
        match g.get(k.as_str()) {
            None => return Err(format!("key {k:?} is missing from the parsed result {got}")),
            Some(Value::Bytes(b)) if b.as_ref() == v.as_bytes() => {}
            Some(x) => return Err(format!("key {k:?}: value {v:?} came back as {x}")),
        }
    }
    if g.len() != want.len() {
        let extra: Vec<&str> = g.keys().map(|k| k.as_str()).filter(|k| !want.contains_key(*k)).collect();
        return Err(format!("parsed result has extra keys {extra:?}: {got}"));
    }
    Ok(())
}

// ------------------------------------------------------------------------------------------
// shape predicates (class labels and the syntactic known-finding classes; never the verdict)

/// the strings `encode_key_value` wraps in double quotes: white space, `"` or `=` present
pub fn quoted(s: &str) -> bool {
    s.chars().any(|c| c.is_whitespace() || c == '"' || c == '=')
}

fn strings(o: &BTreeMap<String, String>) -> impl Iterator<Item = (bool, &str)> {
    o.iter().flat_map(|(k, v)| [(true, k.as_str()), (false, v.as_str())])
}

/// Class of D19c: a string the encoder leaves unquoted starts with `'` and a closing `'` is in
/// reach of the parser's single-quote rule — either the next `'` of the same string is its last
/// character, or the string has no further `'` and another key/value of the object has one.
/// (`'a'b`, where the next quote is followed by more text of the same string, is not in the class.)
fn squote_class(o: &BTreeMap<String, String>) -> bool {
    let all: Vec<&str> = strings(o).map(|(_, s)| s).collect();
    for (i, s) in all.iter().enumerate() {
        if quoted(s) || !s.starts_with('\'') {
            continue;
        }
        match s[1..].find('\'') {
            Some(p) => {
                if p + 2 == s.len() {
                    return true;
                }
            }
            None => {
                if all.iter().enumerate().any(|(j, t)| j != i && t.contains('\'')) {
                    return true;
                }
            }
        }
    }
    false
}

#[derive(Clone, Copy, Default)]
pub struct Switches {
    newline: bool,
    backslash: bool,
    squote: bool,
    delim: bool,
    empty: bool,
    /// false in replay mode: a pinned case always goes through the oracle
    active: bool,
}

impl Switches {
    fn read(r: &Run) -> Switches {
        Switches {
            newline: r.excluded(SW_NEWLINE),
            backslash: r.excluded(SW_BACKSLASH),
            squote: r.excluded(SW_SQUOTE),
            delim: r.excluded(SW_DELIM),
            empty: r.excluded(SW_EMPTY),
            active: !r.is_replay(),
        }
    }
    fn on(&self, sw: &str) -> bool {
        self.active
            && match sw {
                SW_NEWLINE => self.newline,
                SW_BACKSLASH => self.backslash,
                SW_SQUOTE => self.squote,
                SW_DELIM => self.delim,
                SW_EMPTY => self.empty,
                _ => false,
            }
    }
    /// the switched-off class this object falls into, if any
    fn gate(&self, o: &BTreeMap<String, String>, kvd: &str, fd: &str) -> Option<&'static str> {
        if !self.active {
            return None;
        }
        // every class is tested on its own so that a case in two classes is excluded when either
        // switch is on
        let empty = o.is_empty();
        let nl = strings(o).any(|(_, s)| s.contains('\n'));
        let bs = strings(o).any(|(_, s)| !quoted(s) && s.contains('\\'));
        let sq = squote_class(o);
        let dl = strings(o).any(|(is_key, s)| !quoted(s) && (s.contains(fd) || (is_key && s.contains(kvd))));
        if empty && self.empty {
            Some(SW_EMPTY)
        } else if nl && self.newline {
            Some(SW_NEWLINE)
        } else if bs && self.backslash {
            Some(SW_BACKSLASH)
        } else if sq && self.squote {
            Some(SW_SQUOTE)
        } else if dl && self.delim {
            Some(SW_DELIM)
        } else {
            None
        }
    }
}

fn plain(s: &str) -> bool {
    s.chars().all(|c| c.is_ascii_alphanumeric() || c == '_')
}

fn label(v: V, o: &BTreeMap<String, String>, kvd: &str, fd: &str) -> V {
    let any = |key: bool, f: &dyn Fn(&str) -> bool| strings(o).any(|(k, s)| k == key && f(s));
    let mut v = v.nontrivial(strings(o).any(|(_, s)| !plain(s)));
    macro_rules! both {
        ($kname:literal, $vname:literal, $f:expr) => {
            v = v.class_if(any(true, &$f), $kname).class_if(any(false, &$f), $vname);
        };
    }
    both!("key_space", "val_space", |s: &str| s.contains(' '));
    both!("key_tab_cr", "val_tab_cr", |s: &str| s.contains('\t') || s.contains('\r'));
    both!("key_other_whitespace", "val_other_whitespace", |s: &str| s.chars().any(|c| c.is_whitespace() && !c.is_ascii()));
    both!("key_newline", "val_newline", |s: &str| s.contains('\n'));
    both!("key_dquote", "val_dquote", |s: &str| s.contains('"'));
    both!("key_squote", "val_squote", |s: &str| s.contains('\''));
    both!("key_backslash", "val_backslash", |s: &str| s.contains('\\'));
    both!("key_eq", "val_eq", |s: &str| s.contains('='));
    both!("key_colon", "val_colon", |s: &str| s.contains(':'));
    both!("key_comma_semicolon_pipe", "val_comma_semicolon_pipe", |s: &str| s.contains(',') || s.contains(';') || s.contains('|'));
    both!("key_dot", "val_dot", |s: &str| s.contains('.'));
    both!("key_non_ascii", "val_non_ascii", |s: &str| !s.is_ascii());
    both!("key_control", "val_control", |s: &str| s.chars().any(|c| c.is_control() && !c.is_whitespace()));
    both!("key_quoted_by_encoder", "val_quoted_by_encoder", |s: &str| quoted(s));
    both!("key_active_field_delim", "val_active_field_delim", |s: &str| s.contains(fd));
    both!("key_active_kv_delim", "val_active_kv_delim", |s: &str| s.contains(kvd));
    both!("key_quoted_backslash", "val_quoted_backslash", |s: &str| quoted(s) && s.contains('\\'));
    both!("key_quoted_leading_squote", "val_quoted_leading_squote", |s: &str| quoted(s) && s.starts_with('\''));
    v.class(match o.len() {
        0 => "entries_0",
        1 => "entries_1",
        2 | 3 => "entries_2_3",
        _ => "entries_4+",
    })
}

// ------------------------------------------------------------------------------------------
// oracles

fn in_domain(o: &BTreeMap<String, String>) -> bool {
    o.iter().all(|(k, v)| !k.is_empty() && !v.is_empty())
}

fn kv_source(c: &KvCase) -> String {
    let mut args = String::new();
    if let Some(k) = &c.kvd {
        args += &format!(", key_value_delimiter: {}", vrlx::str_lit(k));
    }
    if let Some(f) = &c.fd {
        args += &format!(", field_delimiter: {}", vrlx::str_lit(f));
    }
    let enc = if c.order.is_some() {
        format!("encode_key_value!(object!(.o), fields_ordering: array!(.order){args})")
    } else {
        format!("encode_key_value(object!(.o){args})")
    };
    format!("e = {enc}\np, err = parse_key_value(e{args})\n[p, err, e]")
}

fn check_kv_with(c: &KvCase, sw: Switches) -> V {
    if !in_domain(&c.o) {
        return V::discard("empty key or value");
    }
    let (kvd, fd) = (c.kvd.as_deref().unwrap_or("="), c.fd.as_deref().unwrap_or(" "));
    if let Some(s) = sw.gate(&c.o, kvd, fd) {
        return V::excluded(s);
    }
    let src = kv_source(c);
    let mut fields: Vec<(&str, TV)> = vec![("o", obj_tv(&c.o))];
    if let Some(ord) = &c.order {
        fields.push(("order", TV::Array(ord.iter().map(|s| TV::Str(s.clone())).collect())));
    }
    let refs: Vec<(&str, &TV)> = fields.iter().map(|(k, v)| (*k, v)).collect();
    let out = match run_cached(&src, vrlx::event_of(&refs)) {
        Ok(o) => o,
        Err(e) => return V::fail(e),
    };
    let (parsed, text) = match unpack(&out) {
        Ok(x) => x,
        Err(e) => return V::fail(format!("key_value [{kvd:?} {fd:?}] {:?}: {e}", c.o)),
    };
    if let Err(e) = same_object(&c.o, &parsed) {
        return V::fail(format!("key_value [{kvd:?} {fd:?}] {:?} encoded as {text:?}: {e}", c.o));
    }
    label(V::pass(), &c.o, kvd, fd)
        .class(match (c.kvd.as_deref(), c.fd.as_deref()) {
            (None, None) => "delims_default_omitted",
            (Some("="), Some(" ")) => "delims_eq_space_explicit",
            (Some(":"), Some(",")) => "delims_colon_comma",
            (Some("="), Some("|")) => "delims_eq_pipe",
            (Some(": "), Some("; ")) => "delims_colonsp_semisp",
            _ => "delims_other",
        })
        .class_if(c.order.is_some(), "with_fields_ordering")
}

const LOGFMT_SRC: &str = "e = encode_logfmt(object!(.o))\np, err = parse_logfmt(e)\n[p, err, e]";

fn check_logfmt_with(c: &LogfmtCase, sw: Switches) -> V {
    if !in_domain(&c.o) {
        return V::discard("empty key or value");
    }
    if let Some(s) = sw.gate(&c.o, "=", " ") {
        return V::excluded(s);
    }
    let out = match run_cached(LOGFMT_SRC, vrlx::event_of(&[("o", &obj_tv(&c.o))])) {
        Ok(o) => o,
        Err(e) => return V::fail(e),
    };
    let (parsed, text) = match unpack(&out) {
        Ok(x) => x,
        Err(e) => return V::fail(format!("logfmt {:?}: {e}", c.o)),
    };
    if let Err(e) = same_object(&c.o, &parsed) {
        return V::fail(format!("logfmt {:?} encoded as {text:?}: {e}", c.o));
    }
    label(V::pass(), &c.o, "=", " ")
}

fn check_csv_with(c: &CsvCase, bom_excluded: bool) -> V {
    let mut items: Vec<Vec<u8>> = Vec::with_capacity(c.l.len());
    for it in &c.l {
        match it.as_bytes() {
            Some(b) => items.push(b),
            None => return V::discard("CSV item is not a string"),
        }
    }
    if bom_excluded && items.first().is_some_and(|i| i.starts_with(&[0xef, 0xbb, 0xbf])) {
        return V::excluded(SW_CSV_BOM);
    }
    let arg = c.delim.as_ref().map(|d| format!(", delimiter: {}", vrlx::str_lit(d))).unwrap_or_default();
    let src = format!("e = encode_csv!(.l{arg})\np, err = parse_csv(e{arg})\n[p, err, e]");
    let l = TV::Array(c.l.clone());
    let out = match run_cached(&src, vrlx::event_of(&[("l", &l)])) {
        Ok(o) => o,
        Err(e) => return V::fail(e),
    };
    let (parsed, text) = match unpack(&out) {
        Ok(x) => x,
        Err(e) => return V::fail(format!("csv [{:?}] {:?}: {e}", c.delim, c.l)),
    };
    let Some(arr) = parsed.as_array() else { return V::fail(format!("parse_csv returned a non-array {parsed}")) };
    let got: Option<Vec<&[u8]>> = arr.iter().map(|x| x.as_bytes().map(|b| b.as_ref())).collect();
    let Some(got) = got else { return V::fail(format!("parse_csv returned non-string items: {parsed}")) };
    if got.len() != items.len() || got.iter().zip(&items).any(|(g, w)| *g != w.as_slice()) {
        return V::fail(format!("csv [{:?}] {:?} encoded as {text:?} came back as {parsed}", c.delim, c.l));
    }
    let d = c.delim.as_deref().unwrap_or(",").as_bytes()[0];
    let has = |f: &dyn Fn(&[u8]) -> bool| items.iter().any(|i| f(i));
    let is_plain = |i: &[u8]| !i.is_empty() && i.iter().all(|b| b.is_ascii_alphanumeric() || *b == b'_');
    V::pass()
        .nontrivial(items.iter().any(|i| !is_plain(i)))
        .class_if(has(&|i| i.is_empty()), "empty_item")
        .class_if(has(&|i| i.contains(&b'"')), "item_dquote")
        .class_if(has(&|i| i.contains(&d)), "item_active_delimiter")
        .class_if(has(&|i| i.contains(&b'\n') || i.contains(&b'\r')), "item_cr_lf")
        .class_if(has(&|i| i.first() == Some(&b' ') || i.last() == Some(&b' ')), "item_edge_blank")
        .class_if(has(&|i| std::str::from_utf8(i).is_err()), "item_invalid_utf8")
        .class_if(has(&|i| !i.is_ascii()), "item_non_ascii")
        .class(match items.len() {
            0 => "items_0",
            1 => "items_1",
            _ => "items_2+",
        })
        .class(match c.delim.as_deref() {
            None => "delim_default_omitted",
            Some(",") => "delim_comma_explicit",
            Some(";") => "delim_semicolon",
            Some("\t") => "delim_tab",
            Some("|") => "delim_pipe",
            Some(" ") => "delim_space",
            _ => "delim_other",
        })
}

// ------------------------------------------------------------------------------------------
// generators

const KV_CHARS: &[(u32, char)] = &[
    (4, 'a'), (3, 'b'), (2, 'c'), (2, 'A'), (1, 'Z'), (2, '0'), (2, '1'), (1, '9'), (1, '_'), (1, '-'),
    (5, ' '), (2, '\t'), (2, '\n'), (1, '\r'),
    (5, '"'), (4, '\''), (5, '\\'), (4, '='), (4, ':'), (4, ','), (3, ';'), (3, '|'), (2, '.'),
    (1, '#'), (1, '/'), (1, '{'), (1, '}'), (1, '['), (1, ']'), (1, 'n'), (1, 't'),
    (1, 'é'), (1, '日'), (1, '😀'), (1, '\u{a0}'), (1, '\u{2028}'), (1, '\u{85}'), (1, '\u{3000}'), (1, '\u{200b}'), (1, '\u{feff}'),
    (1, '\0'), (1, '\u{7f}'), (1, '\u{1b}'),
];

fn kv_char() -> BoxedStrategy<char> {
    proptest::strategy::Union::new_weighted(KV_CHARS.iter().map(|(w, c)| (*w, Just(*c).boxed())).collect::<Vec<_>>()).boxed()
}

fn word() -> impl Strategy<Value = String> {
    prop_oneof![3 => "[a-z]{1,5}", 1 => "[a-zA-Z0-9_]{1,8}"]
}

/// non-empty string over the key-value alphabet
pub fn kv_string() -> impl Strategy<Value = String> {
    prop_oneof![
        5 => word(),
        10 => proptest::collection::vec(kv_char(), 1..=6).prop_map(|v| v.into_iter().collect::<String>()),
        // two words around one separator-like character
        4 => (word(), kv_char(), word()).prop_map(|(a, c, b)| format!("{a}{c}{b}")),
        // templates around quoting and escaping
        3 => (word(), word(), 0u8..14).prop_map(|(a, b, t)| match t {
            0 => format!("'{a}'"),
            1 => format!("\"{a}\""),
            2 => format!("'{a} {b}'"),
            3 => format!("{a}\\"),
            4 => format!("\\{a}"),
            5 => format!("{a} {b}\\"),
            6 => format!("{a}\\n{b}"),
            7 => format!("{a}\\\"{b}"),
            8 => format!("'{a}"),
            9 => format!("{a}'"),
            10 => format!("{a}=\"{b} {a}\""),
            11 => format!("{a}: {b}"),
            12 => format!("{a}; {b}"),
            _ => format!("{a}\\\\{b}"),
        }),
        1 => ustring(6).prop_map(|s| if s.is_empty() { "x".to_string() } else { s }),
    ]
}

pub fn kv_object() -> impl Strategy<Value = BTreeMap<String, String>> {
    prop_oneof![
        1 => Just(BTreeMap::new()),
        12 => proptest::collection::btree_map(kv_string(), kv_string(), 1..=1),
        10 => proptest::collection::btree_map(kv_string(), kv_string(), 2..=3),
        5 => proptest::collection::btree_map(kv_string(), kv_string(), 4..=6),
        // mostly plain entries with a single interesting string: isolates one class per case
        8 => (proptest::collection::btree_map(word(), word(), 0..=3), kv_string(), kv_string(), 0u8..3).prop_map(|(mut m, k, v, how)| {
            match how {
                0 => { m.insert("k".to_string(), v); }
                1 => { m.insert(k, "v".to_string()); }
                _ => { m.insert(k, v); }
            }
            m
        }),
    ]
}

const DELIMS: &[(Option<&str>, Option<&str>)] =
    &[(None, None), (Some("="), Some(" ")), (Some(":"), Some(",")), (Some("="), Some("|")), (Some(": "), Some("; "))];

fn kv_case() -> impl Strategy<Value = KvCase> {
    (kv_object(), 0..DELIMS.len(), 0u8..7, any::<u32>()).prop_map(|(o, d, ord, sel)| {
        let (kvd, fd) = DELIMS[d];
        let order = if ord == 0 && !o.is_empty() {
            // a rotation of the keys, possibly truncated, possibly with a key that does not exist
            let mut keys: Vec<String> = o.keys().cloned().collect();
            let n = keys.len();
            keys.rotate_left(sel as usize % n);
            keys.truncate(1 + (sel as usize / 7) % n);
            if sel % 5 == 0 {
                keys.push("absent".to_string());
            }
            Some(keys)
        } else {
            None
        };
        KvCase { o, kvd: kvd.map(str::to_string), fd: fd.map(str::to_string), order }
    })
}

fn logfmt_case() -> impl Strategy<Value = LogfmtCase> {
    kv_object().prop_map(|o| LogfmtCase { o })
}

const CSV_CHARS: &[(u32, char)] = &[
    (4, 'a'), (2, 'b'), (2, 'Z'), (2, '0'), (1, '_'), (5, ','), (4, ';'), (5, '"'), (3, '\n'), (3, '\r'), (4, ' '), (2, '\t'), (2, '|'),
    (1, '\''), (2, '\\'), (1, '#'), (1, '='), (1, 'é'), (1, '日'), (1, '😀'), (1, '\0'), (1, '\u{feff}'), (1, '\u{2028}'),
];

fn csv_item() -> impl Strategy<Value = TV> {
    let chars = proptest::strategy::Union::new_weighted(CSV_CHARS.iter().map(|(w, c)| (*w, Just(*c).boxed())).collect::<Vec<_>>());
    prop_oneof![
        2 => Just(TV::Str(String::new())),
        4 => word().prop_map(TV::Str),
        10 => proptest::collection::vec(chars, 0..=8).prop_map(|v| TV::Str(v.into_iter().collect())),
        2 => (word(), word(), 0u8..10).prop_map(|(a, b, t)| TV::Str(match t {
            0 => format!("\"{a}\""),
            1 => format!("{a}\"\"{b}"),
            2 => format!(" {a}"),
            3 => format!("{a} "),
            4 => format!("{a}\r\n{b}"),
            5 => format!("\"{a},{b}"),
            6 => "\"".to_string(),
            7 => "\"\"".to_string(),
            8 => format!("{a}\\\"{b}"),
            _ => format!("#{a}"),
        })),
        1 => ustring(8).prop_map(TV::Str),
        1 => raw_bytes(8).prop_map(|b| TV::bytes(&b)),
    ]
}

const CSV_DELIMS: &[Option<&str>] = &[None, None, Some(","), Some(";"), Some(";"), Some("\t"), Some("|"), Some(" ")];

fn csv_case() -> impl Strategy<Value = CsvCase> {
    (
        prop_oneof![1 => Just(Vec::new()), 6 => proptest::collection::vec(csv_item(), 1..=1), 14 => proptest::collection::vec(csv_item(), 2..=6)],
        0..CSV_DELIMS.len(),
    )
        .prop_map(|(l, d)| CsvCase { l, delim: CSV_DELIMS[d].map(str::to_string) })
}

/// every 1- and 2-character string over a small structural alphabet, as key and as value, for
/// every delimiter choice (finite, exhaustive)
fn kv_grid() -> Vec<KvCase> {
    let alphabet = ['a', ' ', '\t', '\n', '"', '\'', '\\', '=', ':', ',', ';', '|', '.', 'é'];
    let mut strs: Vec<String> = alphabet.iter().map(|c| c.to_string()).collect();
    for a in alphabet {
        for b in alphabet {
            strs.push(format!("{a}{b}"));
        }
    }
    for a in ['\'', '"', '\\', ' '] {
        for b in ['\'', '"', '\\', ' ', 'n'] {
            strs.push(format!("a{a}{b}"));
            strs.push(format!("{a}a{b}"));
            strs.push(format!("{a}{b}a"));
        }
    }
    let mut out = Vec::new();
    for (kvd, fd) in DELIMS {
        for s in &strs {
            for (k, v) in [("k", s.as_str()), (s.as_str(), "v")] {
                // alone, and followed by a second plain entry (so that a delimiter follows)
                let one: BTreeMap<String, String> = [(k.to_string(), v.to_string())].into();
                let mut two = one.clone();
                two.insert("zz".to_string(), "w".to_string());
                for o in [one, two] {
                    out.push(KvCase { o, kvd: kvd.map(str::to_string), fd: fd.map(str::to_string), order: None });
                }
            }
        }
    }
    out
}

pub fn run(r: &mut Run) {
    let sw = Switches::read(r);
    r.extra.insert(
        "c24_switches_on".to_string(),
        serde_json::json!([SW_NEWLINE, SW_BACKSLASH, SW_SQUOTE, SW_DELIM, SW_EMPTY, SW_CSV_BOM].iter().filter(|s| sw.on(s) || (**s == SW_CSV_BOM && r.excluded(SW_CSV_BOM))).collect::<Vec<_>>()),
    );
    r.enumerate("key_value_grid", kv_grid(), move |c| check_kv_with(c, sw));
    r.sub("key_value", 300_000, 25_000_000, kv_case, move |c| check_kv_with(c, sw));
    r.sub("logfmt", 200_000, 18_000_000, logfmt_case, move |c| check_logfmt_with(c, sw));
    let bom = r.excluded(SW_CSV_BOM) && !r.is_replay();
    r.sub("csv", 150_000, 12_000_000, csv_case, move |c| check_csv_with(c, bom));
}
