//! C32 — grok rules match and capture faithfully.
//!
//! Everything goes through compiled VRL `parse_groks!(.s, patterns: [...], aliases: {...})`; the
//! patterns and aliases are literals in the source, so every case compiles its own program.

use std::collections::{BTreeMap, BTreeSet};

use proptest::prelude::*;
use regex::Regex;
use serde::{Deserialize, Serialize};

use crate::engine::{Run, V};
use crate::gens::value::TV;
use crate::vrlx::{self, End};

pub const RULE: &str = "cases = (1-2 grok rules, alias map, 1-3 inputs). A rule is a sequence of literal segments (printable ASCII weighted towards regex metacharacters, plus a few non-ASCII characters; written into the rule with a backslash before every metacharacter, and optionally before every other non-alphanumeric ASCII character) and captures %{matcher[:dest[:filter]]} with matcher in word/notSpace/integer/number/data/greedyData/ipv4/uuid/quotedString/regex(\"...\") or an alias reference, dest flat/nested/quoted, filter in integer/number/lowercase/uppercase/scale(k)/nullIf(\"..\"). Captures are always separated by a non-empty literal (DESIGN C32 limit) and matchers that the bundled patterns implement with atomic groups or look-around (integer, number, ipv4, alias references) get neutral neighbour characters so that those constructs cannot change the outcome. Alias maps are DAGs of depth <= 4 (aliases reused several times in one rule) and, in the cycle sub-checks, get back edges (self, 2-cycle, 3-cycle, cycle reachable only through a used alias, cycle not reachable at all). Inputs are instances of the rule (capture examples drawn per matcher) and 0-3 character-level mutations of such instances. Non-trivial = the rule has a literal with a regex metacharacter and a capture, or alias nesting depth >= 2 (literal_only sub-check: the literal has a metacharacter; cycle sub-checks: a cycle is reachable). Distinct = distinct serialised cases.";
pub const NOTE: &str = "the reference regex is assembled from the harness's own pattern table (written from the Datadog matcher documentation / core.pattern, with atomic groups and look-around removed, which the neutral-neighbour construction makes irrelevant) and executed by the `regex` crate; both engines are leftmost-first backtracking-equivalent on this syntax. \\w \\d \\s \\b are evaluated under an ASCII and a Unicode reading; an input on which the two readings disagree is counted (class ambiguous_unicode_classes) and not asserted. Filters are re-implemented in the module (text -> number through Rust's `str::parse`, case mapping through Rust's to_lowercase/to_uppercase, which the implementation also uses). Not asserted: number filter on text that parses to a non-finite value or to exactly 2^63, alias cycles that no rule reaches, whether an empty capture yields \"\" or no field (both accepted).";

// ------------------------------------------------------------------------------------------
// case types

#[derive(Clone, Debug, Serialize, Deserialize, PartialEq)]
pub enum Pat {
    Word,
    NotSpace,
    Integer,
    Number,
    Data,
    GreedyData,
    Ipv4,
    Uuid,
    QuotedString,
    /// index into REGEX_LIB
    Regex(u8),
}

#[derive(Clone, Debug, Serialize, Deserialize, PartialEq)]
pub enum Filter {
    Integer,
    Number,
    Lowercase,
    Uppercase,
    /// the factor as written in the rule (integer or float literal of the grok lexer)
    Scale(String),
    NullIf(String),
}

#[derive(Clone, Debug, Serialize, Deserialize, PartialEq)]
pub enum Elem {
    /// literal text; `esc_all`: backslash before every non-alphanumeric ASCII character (else only
    /// before regex metacharacters)
    Lit { text: String, esc_all: bool },
    Cap { pat: Pat, dest: Option<Vec<String>>, filter: Option<Filter> },
    Alias { name: String, dest: Option<Vec<String>>, filter: Option<Filter> },
}

#[derive(Clone, Debug, Serialize, Deserialize)]
pub struct Case {
    pub rules: Vec<Vec<Elem>>,
    pub aliases: Vec<(String, Vec<Elem>)>,
    pub inputs: Vec<String>,
}

// ------------------------------------------------------------------------------------------
// the harness's own pattern table

/// (source as written inside `regex("...")`, i.e. onig/regex common subset)
const REGEX_LIB: &[&str] = &[
    "[a-z]+",
    "[0-9]{3}",
    r"\d{2,4}",
    "[A-Z][a-z]*",
    "GET|POST|PUT",
    "[^,]*",
    "a|ab",
    ".+?",
    r"\w+@\w+",
    "[a-f0-9]+",
    "x*",
    r"(?:\d+\.)+\d+",
];

const META: &str = r"\.[]{}()*+?^$|";

struct Classes {
    w: &'static str,
    d: &'static str,
    s: &'static str,
    ns: &'static str,
    b: &'static str,
}

const ASCII: Classes = Classes { w: "[0-9A-Za-z_]", d: "[0-9]", s: r"[ \t\n\r\x0B\x0C]", ns: r"[^ \t\n\r\x0B\x0C]", b: r"(?-u:\b)" };
const UNICODE: Classes = Classes { w: r"\w", d: r"\d", s: r"\s", ns: r"\S", b: r"\b" };

const OCTET: &str = "(?:25[0-5]|2[0-4][0-9]|[0-1]?[0-9]{1,2})";

fn pat_regex(p: &Pat, c: &Classes) -> String {
    match p {
        Pat::Word => format!("{b}{w}+{b}", b = c.b, w = c.w),
        Pat::NotSpace => format!("{}+", c.ns),
        Pat::Integer => format!("[+-]?{}+", c.d),
        Pat::Number => format!(r"[+-]?(?:{d}+(?:\.{d}*)?|\.{d}+)", d = c.d),
        Pat::Data => ".*?".to_string(),
        Pat::GreedyData => ".*".to_string(),
        Pat::Ipv4 => format!(r"{o}\.{o}\.{o}\.{o}", o = OCTET),
        Pat::Uuid => "[A-Fa-f0-9]{8}-(?:[A-Fa-f0-9]{4}-){3}[A-Fa-f0-9]{12}".to_string(),
        Pat::QuotedString => r#"(?:"[^"]*"|'[^']*')"#.to_string(),
        Pat::Regex(i) => {
            let src = REGEX_LIB[*i as usize % REGEX_LIB.len()];
            src.replace(r"\w", c.w).replace(r"\d", c.d).replace(r"\S", c.ns).replace(r"\s", c.s)
        }
    }
}

fn pat_name(p: &Pat) -> String {
    match p {
        Pat::Word => "word".into(),
        Pat::NotSpace => "notSpace".into(),
        Pat::Integer => "integer".into(),
        Pat::Number => "number".into(),
        Pat::Data => "data".into(),
        Pat::GreedyData => "greedyData".into(),
        Pat::Ipv4 => "ipv4".into(),
        Pat::Uuid => "uuid".into(),
        Pat::QuotedString => "quotedString".into(),
        Pat::Regex(i) => format!("regex({})", grok_str(REGEX_LIB[*i as usize % REGEX_LIB.len()])),
    }
}

/// string literal of the grok pattern lexer (`\\` and `\"` escapes)
fn grok_str(s: &str) -> String {
    let mut o = String::from("\"");
    for ch in s.chars() {
        if ch == '\\' || ch == '"' {
            o.push('\\');
        }
        o.push(ch);
    }
    o.push('"');
    o
}

fn is_ident(s: &str) -> bool {
    let mut it = s.chars();
    matches!(it.next(), Some(c) if c == '$' || c == '@' || c == '_' || c.is_ascii_alphabetic())
        && it.all(|c| c == '$' || c == '@' || c == '_' || c == '-' || c.is_ascii_alphanumeric())
}

fn dest_src(d: &[String]) -> String {
    let mut o = String::new();
    for (i, seg) in d.iter().enumerate() {
        if is_ident(seg) {
            if i > 0 {
                o.push('.');
            }
            o.push_str(seg);
        } else {
            o.push('[');
            o.push_str(&grok_str(seg));
            o.push(']');
        }
    }
    o
}

fn filter_src(f: &Filter) -> String {
    match f {
        Filter::Integer => "integer".into(),
        Filter::Number => "number".into(),
        Filter::Lowercase => "lowercase".into(),
        Filter::Uppercase => "uppercase".into(),
        Filter::Scale(k) => format!("scale({k})"),
        Filter::NullIf(s) => format!("nullIf({})", grok_str(s)),
    }
}

fn escape_literal(text: &str, all: bool) -> String {
    let mut o = String::new();
    for ch in text.chars() {
        if ch.is_ascii() && !ch.is_ascii_alphanumeric() && (all || META.contains(ch)) {
            o.push('\\');
        }
        o.push(ch);
    }
    o
}

fn elems_src(elems: &[Elem]) -> String {
    let mut o = String::new();
    for e in elems {
        match e {
            Elem::Lit { text, esc_all } => o.push_str(&escape_literal(text, *esc_all)),
            Elem::Cap { pat, dest, filter } => {
                o.push_str("%{");
                o.push_str(&pat_name(pat));
                tail_src(&mut o, dest, filter);
            }
            Elem::Alias { name, dest, filter } => {
                o.push_str("%{");
                o.push_str(name);
                tail_src(&mut o, dest, filter);
            }
        }
    }
    o
}

fn tail_src(o: &mut String, dest: &Option<Vec<String>>, filter: &Option<Filter>) {
    if let Some(d) = dest {
        o.push(':');
        o.push_str(&dest_src(d));
        if let Some(f) = filter {
            o.push(':');
            o.push_str(&filter_src(f));
        }
    }
    o.push('}');
}

pub fn program(c: &Case) -> String {
    let pats: Vec<String> = c.rules.iter().map(|r| vrlx::str_lit(&elems_src(r))).collect();
    let mut src = format!("parse_groks!(.s, patterns: [{}]", pats.join(", "));
    if !c.aliases.is_empty() {
        let al: Vec<String> = c.aliases.iter().map(|(k, d)| format!("{}: {}", vrlx::str_lit(k), vrlx::str_lit(&elems_src(d)))).collect();
        src.push_str(&format!(", aliases: {{{}}}", al.join(", ")));
    }
    src.push(')');
    src
}

// ------------------------------------------------------------------------------------------
// reference: alias graph, regex assembly, filters

type AliasMap<'a> = BTreeMap<&'a str, &'a [Elem]>;

fn refs(elems: &[Elem]) -> impl Iterator<Item = &str> {
    elems.iter().filter_map(|e| match e {
        Elem::Alias { name, .. } => Some(name.as_str()),
        _ => None,
    })
}

/// aliases reachable from the rules
fn reachable<'a>(rules: &'a [Vec<Elem>], amap: &AliasMap<'a>) -> BTreeSet<&'a str> {
    let mut seen: BTreeSet<&str> = BTreeSet::new();
    let mut todo: Vec<&str> = rules.iter().flat_map(|r| refs(r)).collect();
    while let Some(n) = todo.pop() {
        if seen.insert(n) {
            if let Some(def) = amap.get(n) {
                todo.extend(refs(def));
            }
        }
    }
    seen
}

/// does a cycle exist among the aliases in `nodes` (all edges followed)?
fn has_cycle<'a>(nodes: &BTreeSet<&'a str>, amap: &AliasMap<'a>) -> bool {
    // iterative removal of nodes without outgoing edges into the remaining set
    let mut rest: BTreeSet<&str> = nodes.iter().copied().filter(|n| amap.contains_key(n)).collect();
    loop {
        let removable: Vec<&str> = rest
            .iter()
            .copied()
            .filter(|n| refs(amap[n]).all(|m| !rest.contains(m)))
            .collect();
        if removable.is_empty() {
            return !rest.is_empty();
        }
        for n in removable {
            rest.remove(n);
        }
    }
}

fn alias_depth(elems: &[Elem], amap: &AliasMap, fuel: usize) -> usize {
    if fuel == 0 {
        return 0;
    }
    refs(elems).map(|n| 1 + amap.get(n).map_or(0, |d| alias_depth(d, amap, fuel - 1))).max().unwrap_or(0)
}

struct CapInfo {
    dest: Vec<String>,
    filters: Vec<Filter>,
}

/// Appends the reference regex of `elems` (aliases expanded) and registers capturing groups
/// `g<i>` in pre-order. Requires an acyclic reachable alias set.
fn assemble(elems: &[Elem], amap: &AliasMap, cl: &Classes, out: &mut String, caps: &mut Vec<CapInfo>) -> Result<(), String> {
    for e in elems {
        match e {
            Elem::Lit { text, .. } => out.push_str(&regex::escape(text)),
            Elem::Cap { pat, dest, filter } => {
                let mut filters = Vec::new();
                match pat {
                    Pat::Integer => filters.push(Filter::Integer),
                    Pat::Number => filters.push(Filter::Number),
                    _ => {}
                }
                match dest {
                    Some(d) => {
                        filters.extend(filter.iter().cloned());
                        out.push_str(&format!("(?P<g{}>{})", caps.len(), pat_regex(pat, cl)));
                        caps.push(CapInfo { dest: d.clone(), filters });
                    }
                    None => out.push_str(&format!("(?:{})", pat_regex(pat, cl))),
                }
            }
            Elem::Alias { name, dest, filter } => {
                let def = amap.get(name.as_str()).ok_or_else(|| format!("undefined alias {name}"))?;
                match dest {
                    Some(d) => {
                        out.push_str(&format!("(?P<g{}>", caps.len()));
                        caps.push(CapInfo { dest: d.clone(), filters: filter.iter().cloned().collect() });
                        assemble(def, amap, cl, out, caps)?;
                        out.push(')');
                    }
                    None => assemble(def, amap, cl, out, caps)?,
                }
            }
        }
        if caps.len() > 10 || out.len() > 20_000 {
            return Err("too_large".into());
        }
    }
    Ok(())
}

struct RuleRef {
    ascii: Regex,
    unicode: Regex,
    caps: Vec<CapInfo>,
}

fn rule_ref(rule: &[Elem], amap: &AliasMap) -> Result<RuleRef, String> {
    let build = |cl: &Classes| -> Result<(Regex, Vec<CapInfo>), String> {
        let mut body = String::new();
        let mut caps = Vec::new();
        assemble(rule, amap, cl, &mut body, &mut caps)?;
        let re = Regex::new(&format!(r"(?s)\A{body}\z")).map_err(|e| format!("harness: reference regex does not compile: {e}"))?;
        Ok((re, caps))
    };
    let (ascii, caps) = build(&ASCII)?;
    let (unicode, _) = build(&UNICODE)?;
    Ok(RuleRef { ascii, unicode, caps })
}

fn captures_of(re: &Regex, n: usize, s: &str) -> Option<Vec<Option<String>>> {
    re.captures(s).map(|c| (0..n).map(|i| c.name(&format!("g{i}")).map(|m| m.as_str().to_string())).collect())
}

#[derive(Clone, Debug, PartialEq)]
enum Val {
    S(String),
    I(i64),
    F(f64),
}

enum Applied {
    Value(Val),
    /// null or filter failure: the field is not set
    Absent,
    /// outcome not pinned down by the statement
    Unspecified,
}

const TWO63: f64 = 9_223_372_036_854_775_808.0;

fn num(x: f64) -> Val {
    if x.is_finite() && x.fract() == 0.0 && x >= -TWO63 && x < TWO63 {
        Val::I(x as i64)
    } else {
        Val::F(x)
    }
}

fn scale_factor(k: &str) -> Option<f64> {
    if let Ok(i) = k.parse::<i64>() {
        return Some(i as f64);
    }
    k.parse::<f64>().ok()
}

fn apply_filter(v: &Val, f: &Filter) -> Applied {
    match f {
        Filter::Integer => match v {
            Val::S(t) => t.parse::<i64>().map_or(Applied::Absent, |i| Applied::Value(Val::I(i))),
            _ => Applied::Absent,
        },
        Filter::Number => match v {
            Val::S(t) => match t.parse::<f64>() {
                Ok(x) if !x.is_finite() || x == TWO63 => Applied::Unspecified,
                Ok(x) => Applied::Value(num(x)),
                Err(_) => Applied::Absent,
            },
            _ => Applied::Absent,
        },
        Filter::Lowercase => match v {
            Val::S(t) => Applied::Value(Val::S(t.to_lowercase())),
            _ => Applied::Absent,
        },
        Filter::Uppercase => match v {
            Val::S(t) => Applied::Value(Val::S(t.to_uppercase())),
            _ => Applied::Absent,
        },
        Filter::NullIf(n) => match v {
            Val::S(t) if t == n => Applied::Absent,
            Val::S(_) => Applied::Value(v.clone()),
            _ => Applied::Absent,
        },
        Filter::Scale(k) => {
            let Some(k) = scale_factor(k) else { return Applied::Unspecified };
            let x = match v {
                Val::I(i) => *i as f64,
                Val::F(x) => *x,
                Val::S(t) => match t.parse::<f64>() {
                    Ok(x) => x,
                    Err(_) => return Applied::Absent,
                },
            };
            let y = x * k;
            if y.is_nan() || !x.is_finite() || y == TWO63 {
                // scaling text such as "nan"/"inf": only "must not panic" is asserted
                Applied::Unspecified
            } else {
                Applied::Value(num(y))
            }
        }
    }
}

fn to_tv(v: &Val) -> TV {
    match v {
        Val::S(s) => TV::Str(s.clone()),
        Val::I(i) => TV::Int(*i),
        Val::F(x) => TV::float(*x),
    }
}

fn insert_at(root: &mut BTreeMap<String, TV>, path: &[String], v: TV) -> Result<(), ()> {
    let (head, rest) = path.split_first().ok_or(())?;
    if rest.is_empty() {
        match root.remove(head) {
            None => {
                root.insert(head.clone(), v);
            }
            Some(TV::Array(mut a)) => {
                a.push(v);
                root.insert(head.clone(), TV::Array(a));
            }
            Some(old) => {
                root.insert(head.clone(), TV::Array(vec![old, v]));
            }
        }
        Ok(())
    } else {
        match root.entry(head.clone()).or_insert_with(|| TV::Object(BTreeMap::new())) {
            TV::Object(o) => insert_at(o, rest, v),
            _ => Err(()),
        }
    }
}

enum Expect {
    /// candidates (empty captures dropped / kept as ""), any of them is accepted
    Object(Vec<TV>),
    NoMatch,
    Ambiguous(&'static str),
}

struct Notes {
    filter_applied: bool,
    numeric_field: bool,
    empty_capture: bool,
    filter_absent: bool,
    dup_dest: bool,
    matched_rule: usize,
}

fn expected(refs: &[RuleRef], s: &str, notes: &mut Notes) -> Expect {
    for (ri, r) in refs.iter().enumerate() {
        let n = r.caps.len();
        let a = captures_of(&r.ascii, n, s);
        if !s.is_ascii() {
            let u = captures_of(&r.unicode, n, s);
            if a != u {
                return Expect::Ambiguous("ambiguous_unicode_classes");
            }
        }
        let Some(groups) = a else { continue };
        notes.matched_rule = ri;
        let mut candidates = Vec::new();
        for keep_empty in [false, true] {
            let mut root = BTreeMap::new();
            let mut seen_dests: Vec<&Vec<String>> = Vec::new();
            for (ci, g) in groups.iter().enumerate() {
                let Some(text) = g else { continue };
                if text.is_empty() {
                    notes.empty_capture = true;
                    if !keep_empty {
                        continue;
                    }
                }
                let info = &r.caps[ci];
                let mut val = Some(Val::S(text.clone()));
                for f in &info.filters {
                    if let Some(v) = &val {
                        match apply_filter(v, f) {
                            Applied::Value(x) => {
                                notes.filter_applied = true;
                                notes.numeric_field |= !matches!(x, Val::S(_));
                                val = Some(x);
                            }
                            Applied::Absent => {
                                notes.filter_absent = true;
                                val = None;
                            }
                            Applied::Unspecified => return Expect::Ambiguous("unspecified_filter_outcome"),
                        }
                    }
                }
                if let Some(v) = val {
                    if seen_dests.contains(&&info.dest) {
                        notes.dup_dest = true;
                    }
                    seen_dests.push(&info.dest);
                    if insert_at(&mut root, &info.dest, to_tv(&v)).is_err() {
                        return Expect::Ambiguous("conflicting_destinations");
                    }
                }
            }
            candidates.push(TV::Object(root));
        }
        candidates.dedup();
        return Expect::Object(candidates);
    }
    Expect::NoMatch
}

fn has_meta_literal(elems: &[Elem]) -> bool {
    elems.iter().any(|e| matches!(e, Elem::Lit { text, .. } if text.chars().any(|c| META.contains(c))))
}

fn has_capture(elems: &[Elem]) -> bool {
    elems.iter().any(|e| !matches!(e, Elem::Lit { .. }))
}

fn literal_only(elems: &[Elem]) -> Option<String> {
    let mut s = String::new();
    for e in elems {
        match e {
            Elem::Lit { text, .. } => s.push_str(text),
            _ => return None,
        }
    }
    Some(s)
}

fn check(c: &Case) -> V {
    let mut amap: AliasMap = BTreeMap::new();
    for (k, d) in &c.aliases {
        if amap.insert(k.as_str(), d.as_slice()).is_some() {
            return V::discard("duplicate_alias_name");
        }
    }
    if c.rules.is_empty() || c.rules.iter().any(|r| elems_src(r).is_empty()) {
        return V::discard("empty_rule");
    }
    let reach = reachable(&c.rules, &amap);
    if reach.iter().any(|n| !amap.contains_key(n)) {
        return V::discard("undefined_alias");
    }
    let all: BTreeSet<&str> = amap.keys().copied().collect();
    let cyclic_reachable = has_cycle(&reach, &amap);
    let cyclic_unreachable = !cyclic_reachable && has_cycle(&all, &amap);

    let src = program(c);
    let compiled = vrlx::compile(&src);

    if cyclic_reachable {
        return match compiled {
            Err(d) => {
                let msg = vrlx::diag_summary(&d);
                V::pass().nontrivial(true).class("cycle_rejected").class_if(msg.contains("Circular dependency"), "cycle_named_in_diagnostic")
            }
            Ok(_) => V::fail(format!("cyclic alias definitions were accepted at compile time: {src}")),
        };
    }
    let program = match compiled {
        Ok(r) => r.program,
        Err(d) => {
            let msg = vrlx::diag_summary(&d);
            if cyclic_unreachable && msg.contains("Circular dependency") {
                return V::pass().class("unused_cycle_rejected");
            }
            return V::fail(format!("valid rule set rejected at compile time: {msg} :: {src}"));
        }
    };

    let mut refs = Vec::new();
    for r in &c.rules {
        match rule_ref(r, &amap) {
            Ok(x) => refs.push(x),
            Err(e) if e == "too_large" => return V::discard("expansion_too_large"),
            Err(e) => return V::fail(e),
        }
    }

    let depth = c.rules.iter().map(|r| alias_depth(r, &amap, 8)).max().unwrap_or(0);
    let lit_only: Vec<Option<String>> = c.rules.iter().map(|r| literal_only(r)).collect();
    let all_literal = lit_only.iter().all(Option::is_some);
    let nontrivial = if all_literal {
        c.rules.iter().any(|r| has_meta_literal(r))
    } else {
        c.rules.iter().any(|r| has_meta_literal(r) && has_capture(r)) || depth >= 2
    };

    let mut v = V::pass()
        .nontrivial(nontrivial)
        .class_if(all_literal, "literal_only_rules")
        .class_if(c.rules.len() > 1, "two_rules")
        .class_if(depth >= 1, "uses_aliases")
        .class_if(depth >= 2, "alias_depth_ge_2")
        .class_if(depth >= 3, "alias_depth_ge_3")
        .class_if(cyclic_unreachable, "unused_cycle_accepted");

    for s in &c.inputs {
        let mut notes = Notes { filter_applied: false, numeric_field: false, empty_capture: false, filter_absent: false, dup_dest: false, matched_rule: 0 };
        let exp = expected(&refs, s, &mut notes);
        // (1) literal-only rules: plain string equality is the oracle, independent of any regex engine
        if all_literal {
            let eq = lit_only.iter().any(|l| l.as_deref() == Some(s.as_str()));
            let agrees = match &exp {
                Expect::Object(_) => eq,
                Expect::NoMatch => !eq,
                Expect::Ambiguous(_) => true,
            };
            if !agrees {
                return V::fail(format!("harness: reference regex and string equality disagree for literal rule(s) {:?} on {s:?}", lit_only));
            }
        }
        let out = vrlx::run(&program, vrlx::event_of(&[("s", &TV::Str(s.clone()))]), vrlx::empty_object());
        match (&exp, &out.end) {
            (Expect::Ambiguous(why), End::Ok(_) | End::Error(_)) => {
                v = v.class(why);
            }
            (Expect::NoMatch, End::Error(_)) => {
                v = v.class("input_no_match");
            }
            (Expect::NoMatch, End::Ok(got)) => {
                return V::fail(format!("rule(s) must not match {s:?} (reference regex does not), but parse_groks returned {got} :: {src}"));
            }
            (Expect::Object(_), End::Error(m)) => {
                return V::fail(format!("rule {} must match {s:?} (reference regex does), but parse_groks failed: {m} :: {src}", notes.matched_rule));
            }
            (Expect::Object(cands), End::Ok(got)) => {
                let got_tv = TV::from_value(got);
                if !cands.contains(&got_tv) {
                    return V::fail(format!("captures differ for input {s:?}: parse_groks returned {got_tv:?}, reference (rule {}) says {:?} :: {src}", notes.matched_rule, cands[0]));
                }
                v = v
                    .class("input_matches")
                    .class_if(notes.matched_rule > 0, "second_rule_matched")
                    .class_if(notes.empty_capture, "empty_capture")
                    .class_if(notes.filter_applied, "filter_applied")
                    .class_if(notes.numeric_field, "numeric_field")
                    .class_if(notes.filter_absent, "filter_failed_or_null")
                    .class_if(notes.dup_dest, "duplicate_destination_array")
                    .class_if(matches!(&got_tv, TV::Object(o) if !o.is_empty()), "nonempty_result");
            }
            (_, other) => return V::fail(format!("unexpected end {other:?} for {s:?} :: {src}")),
        }
    }
    v
}

// ------------------------------------------------------------------------------------------
// generators

/// characters that may sit next to integer / number / ipv4 / alias captures: not a word character,
/// not '.', '+' or '-'
const NEUTRAL: &[char] = &[' ', ',', ';', '=', '[', ']', '(', ')', '|', '"', ':', '/', '<', '>', '#', '!', '{', '}', '*', '?', '^', '$', '\\', '\'', '&', '%', '~'];

fn is_neutral(c: char) -> bool {
    NEUTRAL.contains(&c)
}

const LIT_OTHER: &[char] = &[' ', ' ', '-', '_', ',', ':', ';', '=', '"', '\'', '/', '<', '>', '#', '!', '&', '%', '@', '~', '`'];
const NON_ASCII: &[char] = &['é', '€', 'ß', '日'];

fn lit_char() -> impl Strategy<Value = char> {
    prop_oneof![
        8 => (0..META.len()).prop_map(|i| META.chars().nth(i).unwrap()),
        6 => prop_oneof![proptest::char::range('a', 'z'), proptest::char::range('A', 'Z'), proptest::char::range('0', '9')],
        5 => (0..LIT_OTHER.len()).prop_map(|i| LIT_OTHER[i]),
        1 => (0..NON_ASCII.len()).prop_map(|i| NON_ASCII[i]),
    ]
}

fn lit_text(min: usize, max: usize) -> impl Strategy<Value = String> {
    proptest::collection::vec(lit_char(), min..=max).prop_map(|v| v.into_iter().collect())
}

const DESTS: &[&[&str]] = &[&["a"], &["b"], &["c"], &["d1"], &["user", "name"], &["user", "id"], &["http", "status_code"], &["e-x"], &["@t"], &["m", "k k"]];

fn dest() -> impl Strategy<Value = Option<Vec<String>>> {
    prop_oneof![
        6 => (0..DESTS.len()).prop_map(|i| Some(DESTS[i].iter().map(|s| (*s).to_string()).collect())),
        1 => Just(None),
    ]
}

const SCALES: &[&str] = &["0", "1", "2", "10", "1000", "1000000", "0.5", "0.25", "0.001", "1.5", "1e3", "2.5e-1", "0.1"];
const NULLS: &[&str] = &["-", "null", "N/A", "0", "a", "a\"b", "x y"];

fn filter() -> impl Strategy<Value = Option<Filter>> {
    prop_oneof![
        6 => Just(None),
        1 => Just(Some(Filter::Integer)),
        1 => Just(Some(Filter::Number)),
        1 => Just(Some(Filter::Lowercase)),
        1 => Just(Some(Filter::Uppercase)),
        2 => (0..SCALES.len()).prop_map(|i| Some(Filter::Scale(SCALES[i].to_string()))),
        1 => (0..NULLS.len()).prop_map(|i| Some(Filter::NullIf(NULLS[i].to_string()))),
    ]
}

const NONFINITE_WORDS: &[&str] = &["nan", "NaN", "inf", "infinity", "Infinity"];

fn any_text(max: usize, spaces: bool, nonfinite: bool) -> BoxedStrategy<String> {
    let ch = prop_oneof![
        6 => prop_oneof![proptest::char::range('a', 'z'), proptest::char::range('A', 'Z'), proptest::char::range('0', '9')],
        3 => (0..META.len()).prop_map(|i| META.chars().nth(i).unwrap()),
        3 => (0..LIT_OTHER.len()).prop_map(move |i| if !spaces && LIT_OTHER[i] == ' ' { '_' } else { LIT_OTHER[i] }),
        1 => (0..NON_ASCII.len()).prop_map(|i| NON_ASCII[i]),
        1 => Just(if spaces { '\n' } else { '-' }),
    ];
    let base = proptest::collection::vec(ch, 0..=max).prop_map(|v| v.into_iter().collect::<String>());
    if nonfinite {
        prop_oneof![30 => base, 1 => (0..NONFINITE_WORDS.len()).prop_map(|i| NONFINITE_WORDS[i].to_string())].boxed()
    } else {
        base.boxed()
    }
}

fn digits(min: usize, max: usize) -> impl Strategy<Value = String> {
    proptest::collection::vec(proptest::char::range('0', '9'), min..=max).prop_map(|v| v.into_iter().collect())
}

/// example text for a matcher (usually, not always, something the matcher accepts)
fn example(p: &Pat, nonfinite: bool) -> BoxedStrategy<String> {
    let sign = || prop_oneof![4 => Just(""), 1 => Just("-"), 1 => Just("+")];
    match p {
        Pat::Word => {
            let w = "[A-Za-z0-9_]{1,8}".prop_map(|s| s);
            if nonfinite {
                prop_oneof![20 => w, 3 => "[0-9]{1,4}", 1 => (0..NONFINITE_WORDS.len()).prop_map(|i| NONFINITE_WORDS[i].to_string())].boxed()
            } else {
                prop_oneof![20 => w, 3 => "[0-9]{1,4}"].boxed()
            }
        }
        Pat::NotSpace => prop_oneof![3 => any_text(8, false, nonfinite).prop_map(|s| if s.is_empty() { "x".to_string() } else { s }), 1 => "[0-9]{1,3}(\\.[0-9]{1,2})?"].boxed(),
        Pat::Integer => (sign(), prop_oneof![8 => digits(1, 6), 1 => digits(18, 20), 1 => Just("0".to_string()), 1 => Just("007".to_string())]).prop_map(|(s, d)| format!("{s}{d}")).boxed(),
        Pat::Number => (sign(), prop_oneof![
            4 => digits(1, 6),
            4 => (digits(1, 5), digits(1, 4)).prop_map(|(a, b)| format!("{a}.{b}")),
            1 => digits(1, 3).prop_map(|a| format!("{a}.")),
            1 => digits(1, 3).prop_map(|a| format!(".{a}")),
            1 => (digits(17, 22), digits(0, 3)).prop_map(|(a, b)| format!("{a}.{b}")),
            1 => Just("0.0".to_string()),
        ])
            .prop_map(|(s, d)| format!("{s}{d}"))
            .boxed(),
        Pat::Data | Pat::GreedyData => prop_oneof![4 => any_text(8, true, nonfinite), 1 => Just(String::new()), 1 => "[0-9]{1,3}(\\.[0-9]{1,2})?"].boxed(),
        Pat::Ipv4 => proptest::collection::vec(prop_oneof![6 => 0u32..=255, 1 => 256u32..=300, 1 => Just(0u32)], 4).prop_map(|o| o.iter().map(u32::to_string).collect::<Vec<_>>().join(".")).boxed(),
        Pat::Uuid => prop_oneof![
            8 => "[A-Fa-f0-9]{8}-[A-Fa-f0-9]{4}-[A-Fa-f0-9]{4}-[A-Fa-f0-9]{4}-[A-Fa-f0-9]{12}",
            1 => "[A-Fa-f0-9]{8}-[A-Fa-f0-9]{4}-[A-Fa-f0-9]{4}-[A-Fa-f0-9]{12}",
        ]
        .boxed(),
        Pat::QuotedString => (any::<bool>(), any_text(6, true, false)).prop_map(|(dq, t)| {
            let q = if dq { '"' } else { '\'' };
            format!("{q}{}{q}", t.replace(q, ""))
        })
        .boxed(),
        Pat::Regex(i) => match *i as usize % REGEX_LIB.len() {
            0 => "[a-z]{1,6}".boxed(),
            1 => "[0-9]{3}".boxed(),
            2 => "[0-9]{1,5}".boxed(),
            3 => "[A-Z][a-z]{0,4}".boxed(),
            4 => prop_oneof![Just("GET".to_string()), Just("POST".to_string()), Just("PUT".to_string()), Just("PATCH".to_string())].boxed(),
            5 => any_text(6, true, false).boxed(),
            6 => prop_oneof![Just("a".to_string()), Just("ab".to_string()), Just("b".to_string())].boxed(),
            7 => any_text(5, true, false).prop_map(|s| if s.is_empty() { "z".to_string() } else { s }).boxed(),
            8 => "[a-z0-9_]{1,4}@[a-z0-9_]{1,4}".boxed(),
            9 => "[a-f0-9]{1,6}".boxed(),
            10 => "x{0,3}".boxed(),
            _ => "[0-9]{1,2}(\\.[0-9]{1,2}){1,3}".boxed(),
        },
    }
}

fn pat() -> impl Strategy<Value = Pat> {
    prop_oneof![
        4 => Just(Pat::Word),
        3 => Just(Pat::NotSpace),
        3 => Just(Pat::Integer),
        3 => Just(Pat::Number),
        3 => Just(Pat::Data),
        1 => Just(Pat::GreedyData),
        1 => Just(Pat::Ipv4),
        1 => Just(Pat::Uuid),
        2 => Just(Pat::QuotedString),
        4 => (0..REGEX_LIB.len() as u8).prop_map(Pat::Regex),
    ]
}

/// generator-side element: captures carry an example text, alias references an index pick
#[derive(Clone, Debug)]
enum GElem {
    Lit(String, bool),
    Cap { pat: Pat, dest: Option<Vec<String>>, filter: Option<Filter>, ex: String },
    /// `pick` selects among the aliases this sequence may reference; falls back to the capture
    Ref { pick: u16, dest: Option<Vec<String>>, filter: Option<Filter>, fallback: Box<GElem> },
}

fn gcap(nonfinite: bool) -> impl Strategy<Value = GElem> {
    pat()
        .prop_flat_map(move |p| {
            let ex = example(&p, nonfinite);
            (Just(p), dest(), filter(), ex)
        })
        .prop_map(|(pat, dest, filter, ex)| {
            let filter = if dest.is_some() { filter } else { None };
            GElem::Cap { pat, dest, filter, ex }
        })
}

/// sequence: [lit] cap (lit cap)* [lit]; `ref_weight` in 0..=10 is the share of alias references
fn gseq(max_caps: usize, ref_weight: u32, nonfinite: bool) -> impl Strategy<Value = Vec<GElem>> {
    let capish = (gcap(nonfinite), 0u32..10, any::<u16>(), dest(), filter()).prop_map(move |(cap, roll, pick, d, f)| {
        if roll < ref_weight {
            let f = if d.is_some() { f } else { None };
            GElem::Ref { pick, dest: d, filter: f, fallback: Box::new(cap) }
        } else {
            cap
        }
    });
    (
        proptest::option::weighted(0.6, (lit_text(1, 4), any::<bool>())),
        proptest::collection::vec((capish, lit_text(1, 4), any::<bool>()), 1..=max_caps),
        any::<bool>(),
    )
        .prop_map(|(lead, body, trail)| {
            let mut out = Vec::new();
            if let Some((t, e)) = lead {
                out.push(GElem::Lit(t, e));
            }
            let n = body.len();
            for (i, (cap, t, e)) in body.into_iter().enumerate() {
                out.push(cap);
                if i + 1 < n || trail {
                    out.push(GElem::Lit(t, e));
                }
            }
            out
        })
}

const ALIAS_NAMES: &[&str] = &["_a", "_b", "common.x", "_d", "A1"];

fn restrictive(e: &Elem) -> bool {
    matches!(e, Elem::Alias { .. } | Elem::Cap { pat: Pat::Integer | Pat::Number | Pat::Ipv4, .. })
}

/// make the literal neighbours of restrictive captures neutral
fn neutralise(seq: &mut [Elem], salt: usize) {
    for i in 0..seq.len() {
        if !restrictive(&seq[i]) {
            continue;
        }
        let n = NEUTRAL[(salt + i * 7) % NEUTRAL.len()];
        if i > 0 {
            if let Elem::Lit { text, .. } = &mut seq[i - 1] {
                if !text.chars().last().is_some_and(is_neutral) {
                    text.push(n);
                }
            }
        }
        if i + 1 < seq.len() {
            if let Elem::Lit { text, .. } = &mut seq[i + 1] {
                if !text.chars().next().is_some_and(is_neutral) {
                    text.insert(0, n);
                }
            }
        }
    }
}

/// Builds elements and an instance string. Instances are assembled after neutralisation.
fn build_seq(seq: Vec<GElem>, first_allowed: usize, n_aliases: usize, alias_instances: &[Option<String>], salt: usize) -> (Vec<Elem>, String) {
    // resolve references, collecting per-element instance pieces
    let mut elems = Vec::new();
    let mut pieces: Vec<Option<String>> = Vec::new(); // None for literals (filled after neutralise)
    for g in seq {
        let g = match g {
            GElem::Ref { pick, dest, filter, fallback } => {
                if first_allowed < n_aliases {
                    let idx = first_allowed + (pick as usize) % (n_aliases - first_allowed);
                    pieces.push(Some(alias_instances[idx].clone().unwrap_or_default()));
                    elems.push(Elem::Alias { name: ALIAS_NAMES[idx].to_string(), dest, filter });
                    continue;
                }
                *fallback
            }
            g => g,
        };
        match g {
            GElem::Lit(t, e) => {
                elems.push(Elem::Lit { text: t, esc_all: e });
                pieces.push(None);
            }
            GElem::Cap { pat, dest, filter, ex } => {
                elems.push(Elem::Cap { pat, dest, filter });
                pieces.push(Some(ex));
            }
            GElem::Ref { .. } => unreachable!(),
        }
    }
    neutralise(&mut elems, salt);
    let mut inst = String::new();
    for (e, p) in elems.iter().zip(pieces) {
        match (e, p) {
            (Elem::Lit { text, .. }, _) => inst.push_str(text),
            (_, Some(p)) => inst.push_str(&p),
            _ => {}
        }
    }
    (elems, inst)
}

const MUT_CHARS: &[char] = &['a', 'Z', '0', '7', ' ', '.', '-', '+', '*', '\\', '(', ']', '|', '"', '\'', '\n', ',', '_', 'é', '%', '{'];

fn mutate(s: &str, ops: &[(u8, u16, u16)]) -> String {
    let mut v: Vec<char> = s.chars().collect();
    for &(k, p, cx) in ops {
        let ch = MUT_CHARS[cx as usize % MUT_CHARS.len()];
        let n = v.len();
        let p = p as usize;
        match k % 6 {
            0 => {
                if n > 0 {
                    v.remove(p % n);
                }
            }
            1 => v.insert(p % (n + 1), ch),
            2 => {
                if n > 0 {
                    v[p % n] = ch;
                }
            }
            3 => {
                if n > 0 {
                    let c = v[p % n];
                    v.insert(p % n, c);
                }
            }
            4 => v.truncate(p % (n + 1)),
            _ => v.push(ch),
        }
    }
    v.into_iter().collect()
}

/// input mutations that a broken escaping of a metacharacter would make match
fn confuse(s: &str, pick: u16) -> String {
    let v: Vec<char> = s.chars().collect();
    let metas: Vec<usize> = (0..v.len()).filter(|&i| META.contains(v[i])).collect();
    if metas.is_empty() {
        return s.to_string();
    }
    let i = metas[pick as usize % metas.len()];
    let mut o: Vec<char> = v.clone();
    match v[i] {
        '.' => o[i] = 'x',
        '*' | '?' => {
            // "ab*" would also match "a"
            o.remove(i);
            if i > 0 {
                o.remove(i - 1);
            }
        }
        '+' => {
            // "ab+" would match "abb"
            if i > 0 {
                o[i] = v[i - 1];
            } else {
                o.remove(i);
            }
        }
        '|' => o.truncate(i),
        '^' | '$' | '(' | ')' | '[' | ']' | '{' | '}' => {
            o.remove(i);
        }
        '\\' => {
            o.remove(i);
        }
        _ => {}
    }
    o.into_iter().collect()
}

type Ops = Vec<(u8, u16, u16)>;

fn ops() -> impl Strategy<Value = Ops> {
    proptest::collection::vec((any::<u8>(), any::<u16>(), any::<u16>()), 1..=3)
}

#[derive(Clone, Copy, Debug, PartialEq)]
enum CycleKind {
    None,
    SelfLoop,
    Two,
    Three,
    Unreachable,
}

/// general case generator
fn case_strategy(max_aliases: usize, ref_weight: u32, cycles: bool, nonfinite: bool) -> impl Strategy<Value = Case> {
    let alias_defs = proptest::collection::vec(gseq(2, ref_weight.min(5), nonfinite), 0..=max_aliases);
    let rules = proptest::collection::vec(gseq(4, ref_weight, nonfinite), 1..=2).prop_flat_map(|v| (Just(v), 0u32..100)).prop_map(|(mut v, roll)| {
        // a second rule in 15 % of the cases
        if roll >= 15 {
            v.truncate(1);
        }
        v
    });
    let cyc = if cycles {
        prop_oneof![
            2 => Just(CycleKind::SelfLoop),
            2 => Just(CycleKind::Two),
            2 => Just(CycleKind::Three),
            1 => Just(CycleKind::Unreachable),
            1 => Just(CycleKind::None),
        ]
        .boxed()
    } else {
        Just(CycleKind::None).boxed()
    };
    (alias_defs, rules, ops(), ops(), any::<u16>(), 0usize..1000, cyc, any::<u16>()).prop_map(|(defs, rules, ops1, ops2, which, salt, cyc, cpick)| {
        let n = defs.len();
        // aliases are built from the last one (which references nothing) to the first
        let mut alias_instances: Vec<Option<String>> = vec![None; n];
        let mut alias_elems: Vec<Vec<Elem>> = vec![Vec::new(); n];
        for (i, d) in defs.into_iter().enumerate().rev() {
            let (e, inst) = build_seq(d, i + 1, n, &alias_instances, salt + i);
            alias_instances[i] = Some(inst);
            alias_elems[i] = e;
        }
        let mut out_rules = Vec::new();
        let mut instances = Vec::new();
        for (i, r) in rules.into_iter().enumerate() {
            let (e, inst) = build_seq(r, 0, n, &alias_instances, salt + 31 * (i + 1));
            out_rules.push(e);
            instances.push(inst);
        }
        // back edges
        let back = |from: usize, to: usize, alias_elems: &mut Vec<Vec<Elem>>| {
            alias_elems[from].push(Elem::Lit { text: " ".into(), esc_all: false });
            alias_elems[from].push(Elem::Alias { name: ALIAS_NAMES[to].to_string(), dest: None, filter: None });
        };
        let fwd = |from: usize, to: usize, alias_elems: &mut Vec<Vec<Elem>>| {
            if !refs(&alias_elems[from]).any(|m| m == ALIAS_NAMES[to]) {
                alias_elems[from].push(Elem::Lit { text: ",".into(), esc_all: false });
                alias_elems[from].push(Elem::Alias { name: ALIAS_NAMES[to].to_string(), dest: None, filter: None });
            }
        };
        if n > 0 {
            let a = cpick as usize % n;
            match cyc {
                CycleKind::None => {}
                CycleKind::SelfLoop => back(a, a, &mut alias_elems),
                CycleKind::Two if n >= 2 => {
                    let a = a.min(n - 2);
                    fwd(a, a + 1, &mut alias_elems);
                    back(a + 1, a, &mut alias_elems);
                }
                CycleKind::Three if n >= 3 => {
                    let a = a.min(n - 3);
                    fwd(a, a + 1, &mut alias_elems);
                    fwd(a + 1, a + 2, &mut alias_elems);
                    back(a + 2, a, &mut alias_elems);
                }
                CycleKind::Two | CycleKind::Three => back(a, a, &mut alias_elems),
                CycleKind::Unreachable => {}
            }
        }
        let mut aliases: Vec<(String, Vec<Elem>)> = alias_elems.into_iter().enumerate().map(|(i, e)| (ALIAS_NAMES[i].to_string(), e)).collect();
        if cyc == CycleKind::Unreachable {
            aliases.push(("_u1".to_string(), vec![Elem::Lit { text: "u".into(), esc_all: false }, Elem::Alias { name: "_u2".into(), dest: None, filter: None }]));
            aliases.push(("_u2".to_string(), vec![Elem::Alias { name: "_u1".into(), dest: None, filter: None }]));
        }
        let base = instances[which as usize % instances.len()].clone();
        let inputs = vec![base.clone(), mutate(&base, &ops1), mutate(&base, &ops2)];
        Case { rules: out_rules, aliases, inputs }
    })
}

fn literal_case() -> impl Strategy<Value = Case> {
    (proptest::collection::vec((lit_text(1, 6), any::<bool>()), 1..=3), ops(), any::<u16>(), any::<bool>()).prop_map(|(parts, o, pick, two)| {
        let text: String = parts.iter().map(|(t, _)| t.as_str()).collect();
        let mut rules = vec![parts.into_iter().map(|(text, esc_all)| Elem::Lit { text, esc_all }).collect::<Vec<_>>()];
        if two && text.chars().count() > 1 {
            // second literal rule: the text without its last character
            let mut t: Vec<char> = text.chars().collect();
            t.pop();
            rules.push(vec![Elem::Lit { text: t.into_iter().collect(), esc_all: true }]);
        }
        let inputs = vec![text.clone(), mutate(&text, &o), confuse(&text, pick)];
        Case { rules, aliases: Vec::new(), inputs }
    })
}

fn lit(t: &str) -> Elem {
    Elem::Lit { text: t.to_string(), esc_all: false }
}
fn al(n: &str) -> Elem {
    Elem::Alias { name: n.to_string(), dest: None, filter: None }
}
fn cap(p: Pat, d: &str) -> Elem {
    Elem::Cap { pat: p, dest: Some(vec![d.to_string()]), filter: None }
}

/// hand-written alias graphs (DESIGN: self, 2-cycle, 3-cycle, cycle reachable only through a used
/// alias; plus acyclic look-alikes that must be accepted)
fn cycle_grid() -> Vec<Case> {
    let mk = |rules: Vec<Vec<Elem>>, aliases: Vec<(&str, Vec<Elem>)>, inputs: Vec<&str>| Case {
        rules,
        aliases: aliases.into_iter().map(|(k, v)| (k.to_string(), v)).collect(),
        inputs: inputs.into_iter().map(str::to_string).collect(),
    };
    vec![
        mk(vec![vec![al("_a")]], vec![("_a", vec![lit("x"), al("_a")])], vec!["x"]),
        mk(vec![vec![al("_a")]], vec![("_a", vec![al("_a")])], vec!["x"]),
        mk(vec![vec![al("_a")]], vec![("_a", vec![lit("x"), al("_b")]), ("_b", vec![lit("y"), al("_a")])], vec!["xy"]),
        mk(vec![vec![al("_a")]], vec![("_a", vec![al("_b")]), ("_b", vec![al("_c")]), ("_c", vec![lit("z"), al("_a")])], vec!["z"]),
        // cycle only reachable through a used alias
        mk(vec![vec![cap(Pat::Word, "w"), lit(" "), al("_c")]], vec![("_a", vec![lit("x"), al("_b")]), ("_b", vec![al("_a")]), ("_c", vec![cap(Pat::Word, "v"), lit(" "), al("_a")])], vec!["p q x"]),
        // cycle with destinations and filters on the references
        mk(
            vec![vec![Elem::Alias { name: "_a".into(), dest: Some(vec!["q".into()]), filter: Some(Filter::Uppercase) }]],
            vec![("_a", vec![lit("x"), Elem::Alias { name: "_a".into(), dest: Some(vec!["r".into()]), filter: None }])],
            vec!["x"],
        ),
        // second rule cyclic, first fine
        mk(vec![vec![cap(Pat::Word, "w")], vec![al("_a")]], vec![("_a", vec![lit("x"), al("_a")])], vec!["x"]),
        // acyclic: the same alias twice in one rule, and through two different parents (diamond)
        mk(vec![vec![al("_a"), lit(" "), al("_a")]], vec![("_a", vec![cap(Pat::Word, "w")])], vec!["x y", "x"]),
        mk(
            vec![vec![al("_a"), lit(","), al("_b"), lit(","), al("_c")]],
            vec![("_a", vec![lit("<"), al("_c"), lit(">")]), ("_b", vec![lit("["), al("_c"), lit("]")]), ("_c", vec![cap(Pat::Word, "w")])],
            vec!["<p>,[q],r", "<p>,[q]"],
        ),
        // acyclic chain of depth 4
        mk(
            vec![vec![al("_a")]],
            vec![("_a", vec![lit("1"), al("_b")]), ("_b", vec![lit("2"), al("_c")]), ("_c", vec![lit("3"), al("_d")]), ("_d", vec![lit("4"), cap(Pat::Word, "w")])],
            vec!["1234x", "123x"],
        ),
        // unused cycle next to a used acyclic alias (not asserted either way)
        mk(vec![vec![al("_c")]], vec![("_a", vec![al("_b")]), ("_b", vec![al("_a")]), ("_c", vec![cap(Pat::Word, "w")])], vec!["x"]),
    ]
}

pub fn run(r: &mut Run) {
    // open known finding: scale(k) applied to text that parses to NaN / to a non-finite value panics
    let nonfinite = !r.excluded("grok-scale-nonfinite-text");
    r.sub("literal_only", 12_000, 600_000, literal_case, check);
    r.sub("mixed_rules", 36_000, 1_800_000, move || case_strategy(0, 0, false, nonfinite), check);
    r.sub("aliases_acyclic", 12_000, 600_000, move || case_strategy(4, 5, false, nonfinite), check);
    r.sub("aliases_cyclic", 6_000, 300_000, move || case_strategy(4, 6, true, nonfinite), check);
    r.enumerate("cycle_grid", cycle_grid(), check);
}
