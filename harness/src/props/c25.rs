//! C25 — paired conversion functions are mutually inverse.

use std::collections::BTreeMap;

use proptest::prelude::*;
use serde::{Deserialize, Serialize};
use vrl::value::Value;

use crate::engine::{Run, V};
use crate::gens::value::{int, scalar, timestamp, ustring, FULL, INT_EDGES, TS_MAX, TS_MIN, TV};
use crate::vrlx::{self, End};

pub const RULE: &str = "one sub-check per pair, every law evaluated through a compiled VRL program with the input in event fields. flatten/unflatten: objects of depth <= 4 whose keys (over an alphabet that shares characters with the separators) contain no separator and whose flattened keys decompose uniquely, no empty containers, default and custom (multi-character, non-ASCII) separators, leaves of every scalar kind and non-empty arrays. to_entries/from_entries: arbitrary objects. ip_aton/ip_ntoa: every u32 both ways (edges + random), text from an own dotted-quad printer. ip_pton/ip_ntop: every 4- and 16-byte string bytes->text->bytes, own RFC 5952 printer text->bytes->text for ordinary addresses, alternative spellings (uppercase, uncompressed, leading zeros) must parse to the same bytes. ipv6_to_ipv4/ip_to_ipv6: every IPv4 address and its mapped form, both ways. format_int/parse_int: the full edge grid x every base 2-36 exhaustively plus random i64 x base, both directions (own canonical radix printer for the reverse one). to/from_unix_timestamp: each unit, timestamps truncated to the unit over the unit's whole representable range, both directions, intermediate integer compared with 128-bit arithmetic. format/parse_timestamp: full-precision formats over years 0000-9999 (zone-less formats in UTC, zone-bearing ones also rendered in named zones for years 1980-2100). Non-trivial = input is not the zero/default value of its type (empty or flat object, 0.0.0.0 / ::, integer 0, the epoch). Distinct = distinct serialised cases.";
pub const NOTE: &str = "canonical IPv6 text is asserted only for addresses outside ::/96 and ::ffff:0:0/96 (embedded-IPv4 spellings differ between printers; there only the round trips are asserted); flatten/unflatten inputs whose joined keys could be split in more than one way are outside the domain (no unflatten could restore them); the timestamp model is 128-bit integer arithmetic on (seconds, nanoseconds)";

fn run_ok(src: &str, ev: &Value) -> Result<Value, String> {
    match vrlx::eval_exact(src, ev) {
        Ok(out) => match out.end {
            End::Ok(v) => Ok(v),
            other => Err(format!("`{src}` ended with {other:?}")),
        },
        Err(e) => Err(format!("`{src}` rejected: {e}")),
    }
}

/// the program must return `[a, b, ...]`
fn run_arr(src: &str, ev: &Value, n: usize) -> Result<Vec<Value>, String> {
    let v = run_ok(src, ev)?;
    match v {
        Value::Array(a) if a.len() == n => Ok(a),
        other => Err(format!("`{src}` returned {other}")),
    }
}

// ------------------------------------------------------------------------------------------
// flatten / unflatten

#[derive(Clone, Debug, Serialize, Deserialize)]
pub struct FlatCase {
    pub o: TV,
    /// `None` = default separator "."
    pub sep: Option<String>,
}

/// joined keys with their path segments, as the documentation of `flatten` describes (nested
/// object keys joined with the separator; arrays are leaves)
fn model_paths<'a>(o: &'a BTreeMap<String, TV>, prefix: &mut Vec<&'a str>, out: &mut Vec<Vec<&'a str>>) {
    for (k, v) in o {
        prefix.push(k.as_str());
        match v {
            TV::Object(inner) => model_paths(inner, prefix, out),
            _ => out.push(prefix.clone()),
        }
        prefix.pop();
    }
}

fn occurrences(hay: &str, needle: &str) -> usize {
    // overlapping occurrences, by byte position
    let (h, n) = (hay.as_bytes(), needle.as_bytes());
    if n.is_empty() || h.len() < n.len() {
        return 0;
    }
    (0..=h.len() - n.len()).filter(|i| &h[*i..*i + n.len()] == n).count()
}

fn has_empty_container(v: &TV) -> bool {
    match v {
        TV::Array(a) => a.is_empty() || a.iter().any(has_empty_container),
        TV::Object(o) => o.is_empty() || o.values().any(has_empty_container),
        _ => false,
    }
}

fn any_key_contains(v: &TV, sep: &str) -> bool {
    match v {
        TV::Array(a) => a.iter().any(|x| any_key_contains(x, sep)),
        TV::Object(o) => o.iter().any(|(k, x)| k.contains(sep) || any_key_contains(x, sep)),
        _ => false,
    }
}

/// in the domain: separator-free keys, no empty containers, and every joined key contains the
/// separator exactly at the joints (so that it can be decomposed in one way only)
fn flat_domain(o: &TV, sep: &str) -> Result<usize, &'static str> {
    let TV::Object(map) = o else { return Err("not an object") };
    if sep.is_empty() {
        return Err("empty separator");
    }
    if has_empty_container(o) {
        return Err("empty container");
    }
    if any_key_contains(o, sep) {
        return Err("key contains the separator");
    }
    let mut paths = Vec::new();
    model_paths(map, &mut Vec::new(), &mut paths);
    let mut depth = 0;
    for p in &paths {
        depth = depth.max(p.len());
        if occurrences(&p.join(sep), sep) != p.len() - 1 {
            return Err("joined key is ambiguous");
        }
    }
    Ok(depth)
}

fn check_flatten(c: &FlatCase) -> V {
    let sep = c.sep.clone().unwrap_or_else(|| ".".to_string());
    let depth = match flat_domain(&c.o, &sep) {
        Ok(d) => d,
        Err(why) => return V::discard(why),
    };
    let ev = vrlx::event_of(&[("o", &c.o), ("s", &TV::str(&sep))]);
    let src = if c.sep.is_some() { "f = flatten(.o, separator: .s); [f, unflatten(f, separator: .s)]" } else { "f = flatten(.o); [f, unflatten(f)]" };
    let arr = match run_arr(src, &ev, 2) {
        Ok(a) => a,
        Err(e) => return V::fail(e),
    };
    let want = c.o.to_value();
    if arr[1] != want {
        return V::fail(format!("unflatten(flatten(o)) != o with separator {sep:?}: o = {:?}, flatten = {}, unflatten = {}", c.o, arr[0], arr[1]));
    }
    // the intermediate value is flat: no object-valued entries
    let flat_ok = arr[0].as_object().is_some_and(|m| m.values().all(|v| !v.is_object()));
    if !flat_ok {
        return V::fail(format!("flatten(o) still contains an object value: {}", arr[0]));
    }
    V::pass()
        .nontrivial(depth >= 2)
        .class(match depth {
            0 | 1 => "depth_1",
            2 => "depth_2",
            3 => "depth_3",
            _ => "depth_4+",
        })
        .class_if(c.sep.is_some(), "custom_separator")
        .class_if(sep.chars().count() > 1, "multi_char_separator")
        .class_if(!sep.is_ascii(), "non_ascii_separator")
}

const SEPS: &[&str] = &[".", "_", "/", "::", "__", "->", "ab", "aa", " - ", "é", "→", "..", ".-.", "a.", "\n"];

fn flat_key() -> impl Strategy<Value = String> {
    prop_oneof![
        6 => proptest::collection::vec(prop_oneof![Just('a'), Just('b'), Just('.'), Just('_'), Just(':'), Just('-'), Just('x'), Just('é'), Just(' '), Just('>'), Just('0'), Just('/')], 0..=4)
            .prop_map(|v| v.into_iter().collect::<String>()),
        3 => "[a-z]{1,4}",
        1 => ustring(5),
        1 => Just(String::new()),
    ]
}

fn flat_leaf() -> BoxedStrategy<TV> {
    let s = scalar(FULL);
    prop_oneof![
        8 => s.clone(),
        1 => proptest::collection::vec(s.clone(), 1..=3).prop_map(TV::Array),
        1 => (flat_key(), s.clone(), s).prop_map(|(k, a, b)| TV::Array(vec![TV::obj([(k, a)]), b])),
    ]
    .boxed()
}

fn flat_obj(depth: u32) -> BoxedStrategy<TV> {
    let leaf = flat_leaf();
    leaf.prop_recursive(depth, 40, 4, |inner| proptest::collection::btree_map(flat_key(), inner, 1..=4).prop_map(TV::Object)).boxed()
}

fn strip_chars(v: &TV, bad: &str, fill_empty: bool) -> TV {
    match v {
        TV::Array(a) => TV::Array(a.iter().map(|x| strip_chars(x, bad, fill_empty)).collect()),
        TV::Object(o) => TV::Object(
            o.iter()
                .map(|(k, x)| {
                    let mut k: String = k.chars().filter(|c| !bad.contains(*c)).collect();
                    if fill_empty && k.is_empty() {
                        k = if bad.contains('k') { "q".to_string() } else { "k".to_string() };
                    }
                    (k, strip_chars(x, bad, fill_empty))
                })
                .collect(),
        ),
        other => other.clone(),
    }
}

fn flat_case() -> impl Strategy<Value = FlatCase> {
    let sep = prop_oneof![
        3 => Just(None),
        5 => (0..SEPS.len()).prop_map(|i| Some(SEPS[i].to_string())),
        1 => "[-_.:/a]{1,3}".prop_map(Some),
    ];
    (proptest::collection::btree_map(flat_key(), flat_obj(3), 1..=4).prop_map(TV::Object), sep).prop_map(|(o, sep)| {
        let s = sep.clone().unwrap_or_else(|| ".".to_string());
        // keep the case inside the domain by construction: when a key contains the separator or a
        // joined key would be ambiguous, remove the separator's characters from all keys
        let o = if flat_domain(&o, &s).is_ok() { o } else { strip_chars(&o, &s, false) };
        // (empty keys next to a self-overlapping separator such as "aa" are still ambiguous)
        let o = if flat_domain(&o, &s).is_ok() { o } else { strip_chars(&o, &s, true) };
        FlatCase { o, sep }
    })
}

// ------------------------------------------------------------------------------------------
// to_entries / from_entries

#[derive(Clone, Debug, Serialize, Deserialize)]
pub struct ObjCase {
    pub o: TV,
}

fn check_entries(c: &ObjCase) -> V {
    let TV::Object(map) = &c.o else { return V::discard("not an object") };
    let ev = vrlx::event_of(&[("o", &c.o)]);
    let arr = match run_arr("e = to_entries(.o); [e, from_entries(e)]", &ev, 2) {
        Ok(a) => a,
        Err(e) => return V::fail(e),
    };
    if arr[1] != c.o.to_value() {
        return V::fail(format!("from_entries(to_entries(o)) != o: o = {:?}, entries = {}, back = {}", c.o, arr[0], arr[1]));
    }
    if arr[0].as_array().map(|a| a.len()) != Some(map.len()) {
        return V::fail(format!("to_entries(o) has not one entry per key: {}", arr[0]));
    }
    V::pass()
        .nontrivial(!map.is_empty())
        .class_if(map.is_empty(), "empty")
        .class_if(map.keys().any(|k| k.is_empty()), "empty_key")
        .class_if(map.keys().any(|k| matches!(k.as_str(), "key" | "value" | "Key" | "Value" | "name")), "alias_named_key")
        .class_if(map.values().any(TV::is_container), "container_value")
}

fn entries_case() -> impl Strategy<Value = ObjCase> {
    let key = prop_oneof![
        4 => crate::gens::value::field(),
        2 => ustring(6),
        1 => prop_oneof![Just("key"), Just("value"), Just("Key"), Just("Value"), Just("name"), Just("Name"), Just("false"), Just("null")].prop_map(str::to_string),
    ];
    proptest::collection::btree_map(key, crate::gens::value::value(FULL, 2), 0..=6).prop_map(|m| ObjCase { o: TV::Object(m) })
}

// ------------------------------------------------------------------------------------------
// IPv4 text <-> integer

#[derive(Clone, Debug, Serialize, Deserialize)]
pub struct U32Case {
    pub n: u32,
}

fn dotted(n: u32) -> String {
    format!("{}.{}.{}.{}", n >> 24, (n >> 16) & 255, (n >> 8) & 255, n & 255)
}

fn check_aton(c: &U32Case) -> V {
    let text = dotted(c.n);
    let ev = vrlx::event_of(&[("a", &TV::str(&text)), ("n", &TV::Int(i64::from(c.n)))]);
    let arr = match run_arr("[ip_aton!(.a), ip_ntoa!(ip_aton!(.a)), ip_ntoa!(.n), ip_aton!(ip_ntoa!(.n))]", &ev, 4) {
        Ok(a) => a,
        Err(e) => return V::fail(e),
    };
    let (n, t) = (Value::Integer(i64::from(c.n)), Value::from(text.as_str()));
    let names = ["ip_aton!(a)", "ip_ntoa!(ip_aton!(a))", "ip_ntoa!(n)", "ip_aton!(ip_ntoa!(n))"];
    for (i, want) in [&n, &t, &t, &n].into_iter().enumerate() {
        if arr[i] != *want {
            return V::fail(format!("{} for a = {text:?}, n = {} returned {}, expected {want}", names[i], c.n, arr[i]));
        }
    }
    V::pass().nontrivial(c.n != 0).class_if(c.n > i32::MAX as u32, "beyond_i32").class_if(c.n.to_be_bytes() != c.n.to_le_bytes(), "endianness_visible")
}

const U32_EDGES: &[u32] = &[
    0, 1, 255, 256, 65_535, 65_536, 16_909_060, 0x7f00_0001, 0x7fff_ffff, 0x8000_0000, 0x0a00_0001, 0xc0a8_0101, 0xe000_0001, 0xffff_ff00, 0xffff_fffe,
    0xffff_ffff, 0x0100_0000, 0x0001_0000, 0x0102_0304, 0x6464_6464, 0x0909_0909,
];

fn u32_any() -> impl Strategy<Value = u32> {
    prop_oneof![
        2 => (0..U32_EDGES.len()).prop_map(|i| U32_EDGES[i]),
        4 => any::<u32>(),
        1 => proptest::array::uniform4(prop_oneof![Just(0u8), Just(1u8), Just(9u8), Just(10u8), Just(99u8), Just(100u8), Just(127u8), Just(128u8), Just(199u8), Just(200u8), Just(255u8)]).prop_map(u32::from_be_bytes),
    ]
}

// ------------------------------------------------------------------------------------------
// ip_pton / ip_ntop

#[derive(Clone, Debug, Serialize, Deserialize)]
pub struct IpBytesCase {
    /// 4 or 16 bytes, hex
    pub hex: String,
    /// spelling variant used for the text -> bytes direction (IPv6 only)
    pub spelling: u8,
}

/// RFC 5952 text with hexadecimal groups only
fn rfc5952(b: &[u8; 16]) -> String {
    let g: Vec<u16> = (0..8).map(|i| u16::from_be_bytes([b[2 * i], b[2 * i + 1]])).collect();
    // longest run of zero groups, length >= 2, first on ties
    let (mut best, mut best_len) = (0usize, 0usize);
    let mut i = 0;
    while i < 8 {
        if g[i] == 0 {
            let s = i;
            while i < 8 && g[i] == 0 {
                i += 1;
            }
            if i - s > best_len {
                best = s;
                best_len = i - s;
            }
        } else {
            i += 1;
        }
    }
    let hexs = |r: &[u16]| r.iter().map(|x| format!("{x:x}")).collect::<Vec<_>>().join(":");
    if best_len >= 2 {
        format!("{}::{}", hexs(&g[..best]), hexs(&g[best + best_len..]))
    } else {
        hexs(&g)
    }
}

fn spell_v6(b: &[u8; 16], spelling: u8) -> String {
    let g: Vec<u16> = (0..8).map(|i| u16::from_be_bytes([b[2 * i], b[2 * i + 1]])).collect();
    match spelling % 4 {
        0 => rfc5952(b),
        1 => g.iter().map(|x| format!("{x:04x}")).collect::<Vec<_>>().join(":"),
        2 => rfc5952(b).to_uppercase(),
        _ => g.iter().map(|x| format!("{x:X}")).collect::<Vec<_>>().join(":"),
    }
}

fn check_pton(c: &IpBytesCase) -> V {
    let Ok(bytes) = hex::decode(&c.hex) else { return V::discard("bad hex") };
    let bin = TV::bytes(&bytes);
    let want_bytes = bin.to_value();
    match bytes.len() {
        4 => {
            let n = u32::from_be_bytes([bytes[0], bytes[1], bytes[2], bytes[3]]);
            let text = dotted(n);
            let ev = vrlx::event_of(&[("b", &bin), ("a", &TV::str(&text))]);
            let arr = match run_arr("[ip_ntop!(.b), ip_pton!(ip_ntop!(.b)), ip_pton!(.a), ip_ntop!(ip_pton!(.a))]", &ev, 4) {
                Ok(a) => a,
                Err(e) => return V::fail(e),
            };
            let t = Value::from(text.as_str());
            let names = ["ip_ntop!(b)", "ip_pton!(ip_ntop!(b))", "ip_pton!(a)", "ip_ntop!(ip_pton!(a))"];
            for (i, want) in [&t, &want_bytes, &want_bytes, &t].into_iter().enumerate() {
                if arr[i] != *want {
                    return V::fail(format!("{} for b = x'{}', a = {text:?} returned {}, expected {want}", names[i], c.hex, arr[i]));
                }
            }
            V::pass().nontrivial(n != 0).class("ipv4")
        }
        16 => {
            let b: [u8; 16] = bytes.clone().try_into().expect("16 bytes");
            let spelled = spell_v6(&b, c.spelling);
            let ev = vrlx::event_of(&[("b", &bin), ("a", &TV::str(&spelled))]);
            let arr = match run_arr("t = ip_ntop!(.b); [t, ip_pton!(t), ip_ntop!(ip_pton!(t)), ip_pton!(.a), ip_ntop!(ip_pton!(.a))]", &ev, 5) {
                Ok(a) => a,
                Err(e) => return V::fail(e),
            };
            if arr[1] != want_bytes {
                return V::fail(format!("ip_pton!(ip_ntop!(b)) for b = x'{}' returned {} (text {})", c.hex, arr[1], arr[0]));
            }
            if arr[2] != arr[0] {
                return V::fail(format!("ip_ntop!(ip_pton!(t)) for t = {} returned {}", arr[0], arr[2]));
            }
            if arr[3] != want_bytes {
                return V::fail(format!("ip_pton!({spelled:?}) returned {}, expected x'{}'", arr[3], c.hex));
            }
            if arr[4] != arr[0] {
                return V::fail(format!("ip_ntop!(ip_pton!({spelled:?})) returned {}, but the same address prints as {}", arr[4], arr[0]));
            }
            // embedded-IPv4 ranges are printed with a dotted tail by some printers: canonical
            // text asserted only outside ::/96 and ::ffff:0:0/96
            let embedded = b[..10].iter().all(|x| *x == 0) && ((b[10] == 0 && b[11] == 0) || (b[10] == 0xff && b[11] == 0xff));
            if !embedded {
                let canon = rfc5952(&b);
                if arr[0] != Value::from(canon.as_str()) {
                    return V::fail(format!("ip_ntop!(x'{}') returned {}, RFC 5952 text is {canon:?}", c.hex, arr[0]));
                }
            }
            V::pass()
                .nontrivial(b != [0u8; 16])
                .class("ipv6")
                .class_if(embedded, "embedded_ipv4_range")
                .class_if(rfc5952(&b).contains("::"), "compressed")
                .class(match c.spelling % 4 {
                    0 => "spelled_canonical",
                    1 => "spelled_full",
                    2 => "spelled_uppercase",
                    _ => "spelled_uncompressed",
                })
        }
        _ => V::discard("not 4 or 16 bytes"),
    }
}

fn v6_bytes() -> impl Strategy<Value = Vec<u8>> {
    let group = prop_oneof![5 => Just(0u16), 2 => any::<u16>(), 1 => Just(0xffffu16), 1 => Just(1u16), 1 => 0u16..16, 1 => Just(0x0db8u16), 1 => Just(0xfe80u16)];
    prop_oneof![
        6 => proptest::collection::vec(group, 8).prop_map(|g| g.into_iter().flat_map(u16::to_be_bytes).collect::<Vec<u8>>()),
        2 => proptest::collection::vec(any::<u8>(), 16),
        1 => any::<u32>().prop_map(|n| { let mut v = vec![0u8; 10]; v.extend([0xff, 0xff]); v.extend(n.to_be_bytes()); v }),
        1 => any::<u32>().prop_map(|n| { let mut v = vec![0u8; 12]; v.extend(n.to_be_bytes()); v }),
    ]
}

fn pton_case() -> impl Strategy<Value = IpBytesCase> {
    (prop_oneof![1 => u32_any().prop_map(|n| n.to_be_bytes().to_vec()), 3 => v6_bytes()], 0u8..4).prop_map(|(b, spelling)| IpBytesCase { hex: hex::encode(b), spelling })
}

// ------------------------------------------------------------------------------------------
// ipv6_to_ipv4 / ip_to_ipv6

fn check_mapped(c: &U32Case) -> V {
    let v4 = dotted(c.n);
    let mapped = format!("::ffff:{v4}");
    let ev = vrlx::event_of(&[("a", &TV::str(&v4)), ("m", &TV::str(&mapped))]);
    let arr = match run_arr("[ip_to_ipv6!(.a), ipv6_to_ipv4!(ip_to_ipv6!(.a)), ipv6_to_ipv4!(.m), ip_to_ipv6!(ipv6_to_ipv4!(.m))]", &ev, 4) {
        Ok(a) => a,
        Err(e) => return V::fail(e),
    };
    let (a, m) = (Value::from(v4.as_str()), Value::from(mapped.as_str()));
    let names = ["ip_to_ipv6!(a)", "ipv6_to_ipv4!(ip_to_ipv6!(a))", "ipv6_to_ipv4!(m)", "ip_to_ipv6!(ipv6_to_ipv4!(m))"];
    for (i, want) in [&m, &a, &a, &m].into_iter().enumerate() {
        if arr[i] != *want {
            return V::fail(format!("{} for a = {v4:?}, m = {mapped:?} returned {}, expected {want}", names[i], arr[i]));
        }
    }
    V::pass().nontrivial(c.n != 0)
}

// ------------------------------------------------------------------------------------------
// format_int / parse_int

#[derive(Clone, Debug, Serialize, Deserialize)]
pub struct RadixCase {
    pub i: i64,
    pub base: u8,
}

const SW_FMT_MIN: &str = "format_int_of_i64_min";

/// canonical text: lowercase digits, `-` prefix, no leading zeros
fn radix_text(i: i64, base: u32) -> String {
    let mut m = i128::from(i).unsigned_abs();
    let mut digits = Vec::new();
    loop {
        digits.push(std::char::from_digit((m % u128::from(base)) as u32, base).expect("digit"));
        m /= u128::from(base);
        if m == 0 {
            break;
        }
    }
    if i < 0 {
        digits.push('-');
    }
    digits.iter().rev().collect()
}

fn check_radix(c: &RadixCase, exclude_min: bool) -> V {
    if !(2..=36).contains(&c.base) {
        return V::discard("base outside 2..=36");
    }
    if exclude_min && c.i == i64::MIN {
        return V::excluded(SW_FMT_MIN);
    }
    let text = radix_text(c.i, u32::from(c.base));
    let ev = vrlx::event_of(&[("i", &TV::Int(c.i)), ("b", &TV::Int(i64::from(c.base))), ("s", &TV::str(&text))]);
    let arr = match run_arr("t = format_int!(.i, .b); [t, parse_int!(t, .b), parse_int!(.s, .b), format_int!(parse_int!(.s, .b), .b)]", &ev, 4) {
        Ok(a) => a,
        Err(e) => return V::fail(e),
    };
    let (i, s) = (Value::Integer(c.i), Value::from(text.as_str()));
    if arr[1] != i {
        return V::fail(format!("parse_int!(format_int!({}, {b}), {b}) returned {} (text {})", c.i, arr[1], arr[0], b = c.base));
    }
    if arr[2] != i {
        return V::fail(format!("parse_int!({text:?}, {}) returned {}, expected {}", c.base, arr[2], c.i));
    }
    if arr[3] != s {
        return V::fail(format!("format_int!(parse_int!({text:?}, {b}), {b}) returned {}", arr[3], b = c.base));
    }
    if c.base == 10 {
        // the default base is 10
        match run_ok("parse_int!(format_int!(.i), 10)", &ev) {
            Ok(v) if v == i => {}
            other => return V::fail(format!("parse_int!(format_int!({}), 10) gave {other:?}", c.i)),
        }
    }
    V::pass()
        .nontrivial(c.i != 0)
        .class_if(c.i < 0, "negative")
        .class_if(c.i == i64::MIN, "i64_min")
        .class_if(c.i == i64::MAX, "i64_max")
        .class_if(c.base > 10, "letter_digits_possible")
        .class_if(text.bytes().any(|b| b.is_ascii_lowercase()), "has_letter_digit")
}

fn radix_case() -> impl Strategy<Value = RadixCase> {
    let i = prop_oneof![
        3 => int(),
        4 => any::<i64>(),
        // all digits equal to base-1 / powers of the base: filled in below
        2 => (0u32..64, any::<bool>(), -2i64..=2).prop_map(|(sh, neg, d)| { let v = (if sh == 63 { i64::MAX } else { 1i64 << sh }).wrapping_add(d); if neg { v.wrapping_neg() } else { v } }),
        1 => -40i64..=40,
    ];
    (i, 2u8..=36, 0u8..4, 1u32..14).prop_map(|(mut i, base, mode, e)| {
        if mode == 0 {
            // base^e - 1 (all digits = base-1), base^e, and their negations
            let p = i128::from(base).pow(e).min(i128::from(i64::MAX));
            i = if i % 2 == 0 { (p - 1) as i64 } else { p as i64 };
            if i % 3 == 0 {
                i = -i;
            }
        }
        RadixCase { i, base }
    })
}

// ------------------------------------------------------------------------------------------
// to_unix_timestamp / from_unix_timestamp

#[derive(Clone, Copy, Debug, Serialize, Deserialize, PartialEq, Eq)]
pub enum Unit {
    Seconds,
    Milliseconds,
    Microseconds,
    Nanoseconds,
}

impl Unit {
    fn name(self) -> &'static str {
        match self {
            Unit::Seconds => "seconds",
            Unit::Milliseconds => "milliseconds",
            Unit::Microseconds => "microseconds",
            Unit::Nanoseconds => "nanoseconds",
        }
    }
    /// nanoseconds per unit
    fn nanos(self) -> i128 {
        match self {
            Unit::Seconds => 1_000_000_000,
            Unit::Milliseconds => 1_000_000,
            Unit::Microseconds => 1_000,
            Unit::Nanoseconds => 1,
        }
    }
}

#[derive(Clone, Debug, Serialize, Deserialize)]
pub struct UnixCase {
    pub s: i64,
    pub n: u32,
    pub unit: Unit,
    /// use the default unit (no `unit:` argument); only meaningful for seconds
    pub default_unit: bool,
}

fn check_unix(c: &UnixCase) -> V {
    if !(TS_MIN..=TS_MAX).contains(&c.s) || c.n >= 1_000_000_000 {
        return V::discard("outside chrono's range");
    }
    let per = c.unit.nanos();
    let total = i128::from(c.s) * 1_000_000_000 + i128::from(c.n);
    if total.rem_euclid(per) != 0 {
        return V::discard("timestamp not truncated to the unit");
    }
    let count = total.div_euclid(per);
    let Ok(count) = i64::try_from(count) else { return V::discard("outside the unit's representable range") };
    let t = TV::Ts { s: c.s, n: c.n };
    let ev = vrlx::event_of(&[("t", &t), ("v", &TV::Int(count))]);
    let u = c.unit.name();
    let src = if c.default_unit && c.unit == Unit::Seconds {
        "[to_unix_timestamp(.t), from_unix_timestamp!(to_unix_timestamp(.t)), from_unix_timestamp!(.v), to_unix_timestamp(from_unix_timestamp!(.v))]".to_string()
    } else {
        format!("[to_unix_timestamp(.t, unit: \"{u}\"), from_unix_timestamp!(to_unix_timestamp(.t, unit: \"{u}\"), unit: \"{u}\"), from_unix_timestamp!(.v, unit: \"{u}\"), to_unix_timestamp(from_unix_timestamp!(.v, unit: \"{u}\"), unit: \"{u}\")]")
    };
    let arr = match run_arr(&src, &ev, 4) {
        Ok(a) => a,
        Err(e) => return V::fail(format!("t = {t:?}, unit {u}: {e}")),
    };
    let (tv, iv) = (t.to_value(), Value::Integer(count));
    let names = ["to_unix_timestamp(t)", "from_unix_timestamp!(to_unix_timestamp(t))", "from_unix_timestamp!(v)", "to_unix_timestamp(from_unix_timestamp!(v))"];
    for (i, want) in [&iv, &tv, &tv, &iv].into_iter().enumerate() {
        if arr[i] != *want {
            return V::fail(format!("{} with unit {u} for t = {t:?} (v = {count}) returned {}, expected {want}", names[i], arr[i]));
        }
    }
    V::pass()
        .nontrivial(total != 0)
        .class(u)
        .class_if(total < 0, "before_epoch")
        .class_if(c.n != 0, "sub_second")
        .class_if(!(0..=253_402_300_799).contains(&c.s), "outside_years_1970_9999")
        .class_if(c.default_unit && c.unit == Unit::Seconds, "default_unit")
}

const NS_MIN_S: i64 = -9_223_372_036; // i64::MIN ns = -9223372036.854775808 s
const NS_MAX_S: i64 = 9_223_372_036;

fn unix_case() -> impl Strategy<Value = UnixCase> {
    let unit = prop_oneof![Just(Unit::Seconds), Just(Unit::Milliseconds), Just(Unit::Microseconds), Just(Unit::Nanoseconds)];
    let ns_edge = prop_oneof![
        Just((NS_MIN_S - 1, 145_224_192u32)), // i64::MIN ns
        Just((NS_MIN_S - 1, 145_224_193u32)),
        Just((NS_MAX_S, 854_775_807u32)), // i64::MAX ns
        Just((NS_MAX_S, 854_775_806u32)),
        Just((NS_MAX_S, 0u32)),
        Just((NS_MIN_S, 0u32)),
    ];
    (unit, timestamp(), ns_edge, NS_MIN_S..=NS_MAX_S, 0u8..8, any::<bool>()).prop_map(|(unit, (s, n), edge, ns_s, mode, default_unit)| {
        let (mut s, mut n) = (s, n);
        if unit == Unit::Nanoseconds {
            // nanoseconds fit i64 only between 1677-09-21 and 2262-04-11
            if mode == 0 {
                (s, n) = edge;
            } else if !(NS_MIN_S..NS_MAX_S).contains(&s) {
                s = ns_s.min(NS_MAX_S - 1);
            }
        }
        let per = unit.nanos() as u32;
        if per > 1 {
            n = if per == 1_000_000_000 { 0 } else { n - n % per };
        }
        UnixCase { s, n, unit, default_unit }
    })
}

// ------------------------------------------------------------------------------------------
// format_timestamp / parse_timestamp

/// (format, carries a zone)
const FORMATS: &[(&str, bool)] = &[
    ("%+", true),
    ("%Y-%m-%dT%H:%M:%S%.9f%z", true),
    ("%Y-%m-%dT%H:%M:%S%.9f%:z", true),
    ("%s%.9f", false),
    ("%Y-%m-%dT%H:%M:%S%.9f", false),
    ("%Y-%m-%d %H:%M:%S%.f", false),
    ("%d/%b/%Y:%H:%M:%S%.9f %z", true),
    ("%A, %d %B %Y %T%.9f %z", true),
    ("%Y-%j %H.%M.%S%.9f", false),
    ("%s.%f", false),
];

const ZONES: &[&str] = &["UTC", "Europe/Berlin", "America/New_York", "Asia/Kolkata", "Australia/Lord_Howe", "Pacific/Kiritimati", "America/St_Johns"];

#[derive(Clone, Debug, Serialize, Deserialize)]
pub struct FmtCase {
    pub s: i64,
    pub n: u32,
    pub fmt: String,
    /// `timezone:` argument of format_timestamp (zone-bearing formats, years 1980-2100 only)
    pub tz: Option<String>,
}

const Y0000: i64 = -62_167_219_200;
const Y10000: i64 = 253_402_300_800;
const Y1980: i64 = 315_532_800;
const Y2100: i64 = 4_102_444_800;

const SW_PCT_S: &str = "percent_s_format_before_epoch";

fn check_fmt(c: &FmtCase, exclude_pct_s: bool) -> V {
    if !(Y0000..Y10000).contains(&c.s) || c.n >= 1_000_000_000 {
        return V::discard("outside years 0000-9999");
    }
    if exclude_pct_s && c.s < 0 && c.fmt.contains("%s") {
        return V::excluded(SW_PCT_S);
    }
    let Some(&(_, zoned)) = FORMATS.iter().find(|(f, _)| *f == c.fmt) else { return V::discard("not one of the full-precision formats") };
    if c.tz.is_some() && (!zoned || !(Y1980..Y2100).contains(&c.s)) {
        return V::discard("named zone only with zone-bearing formats in 1980-2100");
    }
    let t = TV::Ts { s: c.s, n: c.n };
    let ev = vrlx::event_of(&[("t", &t), ("f", &TV::str(&c.fmt)), ("z", &TV::str(c.tz.as_deref().unwrap_or("UTC")))]);
    let src = if c.tz.is_some() {
        "x = format_timestamp!(.t, .f, timezone: .z); [x, parse_timestamp!(x, .f)]"
    } else {
        "x = format_timestamp!(.t, .f); [x, parse_timestamp!(x, .f)]"
    };
    let arr = match run_arr(src, &ev, 2) {
        Ok(a) => a,
        Err(e) => return V::fail(format!("t = {t:?}, format {:?}, zone {:?}: {e}", c.fmt, c.tz)),
    };
    if arr[1] != t.to_value() {
        return V::fail(format!("parse_timestamp!(format_timestamp!(t, f), f) != t for t = {t:?}, f = {:?}, zone {:?}: text {}, parsed {}", c.fmt, c.tz, arr[0], arr[1]));
    }
    V::pass()
        .nontrivial(!(c.s == 0 && c.n == 0))
        .class_if(c.s < 0, "before_epoch")
        .class_if(c.s < -30_610_224_000, "year_below_1000")
        .class_if(c.n != 0, "sub_second")
        .class_if(c.n % 1000 != 0, "nanosecond_digits")
        .class_if(c.tz.is_some(), "named_zone")
        .class_if(zoned, "zone_bearing_format")
}

fn fmt_case() -> impl Strategy<Value = FmtCase> {
    let secs = prop_oneof![
        3 => timestamp().prop_map(|(s, _)| s.clamp(Y0000, Y10000 - 1)),
        2 => Y0000..Y10000,
        2 => Y1980..Y2100,
        1 => prop_oneof![Just(Y0000), Just(Y10000 - 1), Just(-1i64), Just(0i64), Just(951_782_400i64), Just(-62_135_596_800i64), Just(1_483_228_799i64)],
    ];
    (secs, timestamp().prop_map(|(_, n)| n), 0..FORMATS.len(), proptest::option::weighted(0.4, 0..ZONES.len())).prop_map(|(s, n, fi, zi)| {
        let (f, zoned) = FORMATS[fi];
        let tz = zi.filter(|_| zoned && (Y1980..Y2100).contains(&s)).map(|i| ZONES[i].to_string());
        FmtCase { s, n, fmt: f.to_string(), tz }
    })
}

// ------------------------------------------------------------------------------------------

pub fn run(r: &mut Run) {
    let search = !r.is_replay();
    let ex_min = search && r.excluded(SW_FMT_MIN);

    r.sub("flatten_unflatten", 30_000, 3_000_000, flat_case, check_flatten);
    r.sub("entries", 30_000, 3_000_000, entries_case, check_entries);
    r.sub("ip_aton_ntoa", 60_000, 5_000_000, || u32_any().prop_map(|n| U32Case { n }), check_aton);
    r.sub("ip_pton_ntop", 60_000, 5_000_000, pton_case, check_pton);
    r.sub("ipv6_ipv4_mapped", 60_000, 5_000_000, || u32_any().prop_map(|n| U32Case { n }), check_mapped);

    // every base x the whole integer edge grid, exhaustively
    let mut grid = Vec::new();
    for base in 2u8..=36 {
        for i in INT_EDGES {
            grid.push(RadixCase { i: *i, base });
        }
    }
    r.enumerate("format_parse_int_grid", grid, move |c| check_radix(c, ex_min));
    r.sub("format_parse_int", 70_000, 70_000_000, radix_case, move |c| check_radix(c, ex_min));
    r.sub("unix_timestamp", 60_000, 5_000_000, unix_case, check_unix);
    let ex_pct_s = search && r.excluded(SW_PCT_S);
    r.sub("format_parse_timestamp", 60_000, 5_000_000, fmt_case, move |c| check_fmt(c, ex_pct_s));
}
