//! C17 — target faults are contained.

use proptest::prelude::*;
use serde::{Deserialize, Serialize};
use vrl::compiler::runtime::{Runtime, Terminate};

use crate::engine::{Run, V};
use crate::gens::mutprog::{self, Cfg, MutCase};
use crate::gens::prog::{program_src, rewrite, E};
use crate::gens::proggen::{self, ProgCase};
use crate::gens::value::TV;
use crate::model::targets::{FaultMode, FaultPlan, FaultTarget, Op};
use crate::props::progdiff;
use crate::vrlx::{self, End};

pub const SW_UNNEST: &str = "c17-unnest-with-rejected-root-read";

pub const RULE: &str = "cases = (accepted program x event x metadata) x fault plan. Programs come from the mutation-heavy generator (gens/mutprog.rs with extras: writes, `|=`, `ok, err =`, del with/without compact, get/set/remove on `.`/`%`, exists, unnest, for_each(.), map_values(.), container queries, templates; at top level and inside branches, closures, blocks, `||`/`&&`/`??` operands) and from the shared program generator (gens/proggen.rs). A fault plan is, per operation kind (get incl. get_mut / insert / remove), a 12-bit mask of ordinals that are rejected plus optionally 'every operation of this kind from ordinal n on', plus optionally 'every read of the event root'. Oracle (differential): run A executes the program (Program::resolve) on a Target wrapper that returns Err(\"injected\") at the planned operations without touching the wrapped TargetValue; run B on a wrapper that at the same operations skips (get -> Ok(None), insert -> Ok(()) without inserting, remove -> Ok(None) without removing). Neither run may panic, and both must end the same way (ok / return / error / abort; same value; same abort message) with equal final event and metadata. With an empty plan both must also equal a run on the bare TargetValue (wrapper transparency). Sub-check `root_read_failure`: Runtime::resolve on a target whose event-root read is rejected must return Terminate::Error, must not panic, and must leave event and metadata unchanged. Sub-checks `writes_rejected_*`: the same generators with every deletion replaced by `exists(..)` (generated programs: deletion weight 0), run on a target that rejects every write (reads faulted per plan, deletions never planned); since only del(..) deletes from the target, the final event and metadata must equal the initial ones and the target must have seen no deletion at all (non-trivial = at least one write was attempted). Non-trivial = at least one planned fault was reached and the program performed at least one more target operation afterwards (root_read_failure: always non-trivial). Distinct = distinct serialised cases.";
pub const NOTE: &str = "error message texts of failing runs are not compared (only the outcome class), abort messages are; the wrapped target is vrl's own TargetValue; secrets are not faulted (SecretTarget has no error channel)";

#[derive(Clone, Debug, Serialize, Deserialize)]
pub struct FaultCase {
    pub src: String,
    pub event: TV,
    pub meta: TV,
    pub plan: FaultPlan,
}

fn plan_strategy() -> impl Strategy<Value = FaultPlan> {
    let mask = || prop_oneof![3 => Just(0u32), 4 => (any::<u32>(), any::<u32>()).prop_map(|(a, b)| a & b & 0xfff), 2 => (0u32..12).prop_map(|i| 1 << i), 1 => any::<u32>().prop_map(|a| a & 0xfff)];
    let from = || prop_oneof![4 => Just(None), 1 => (0u32..10).prop_map(Some)];
    (mask(), mask(), mask(), from(), from(), from(), prop::bool::weighted(0.08)).prop_map(|(get_mask, insert_mask, remove_mask, get_from, insert_from, remove_from, root_read_fails)| FaultPlan {
        get_mask,
        insert_mask,
        remove_mask,
        get_from,
        insert_from,
        remove_from,
        root_read_fails,
    })
}

fn same_end(a: &End, b: &End) -> bool {
    match (a, b) {
        (End::Ok(x), End::Ok(y)) | (End::Return(x), End::Return(y)) => x == y,
        (End::Error(_), End::Error(_)) => true,
        (End::Abort(x), End::Abort(y)) => x == y,
        _ => false,
    }
}

fn check(c: &FaultCase) -> V {
    let res = match vrlx::compile(&c.src) {
        Ok(r) => r,
        Err(d) => {
            let code = vrlx::diag_codes(&d).first().copied().unwrap_or(0);
            return V::discard(crate::props::c22::intern(format!("rejected_E{code}")));
        }
    };
    let tz = vrlx::utc();
    let mut a = FaultTarget::new(c.event.to_value(), c.meta.to_value(), c.plan.clone(), FaultMode::Reject);
    let (end_a, _) = vrlx::run_on(&res.program, &mut a, &tz);
    let mut b = FaultTarget::new(c.event.to_value(), c.meta.to_value(), c.plan.clone(), FaultMode::Skip);
    let (end_b, _) = vrlx::run_on(&res.program, &mut b, &tz);
    let ctx = || format!("\n--- program:\n{}--- event: {}\n--- metadata: {}\n--- plan: {:?}\n--- faults reached: {:?}", c.src, c.event.to_value(), c.meta.to_value(), c.plan, a.hit_kinds.borrow());
    if !same_end(&end_a, &end_b) {
        return V::fail_sig("c17:outcome", format!("outcome differs: rejecting target {end_a:?}, skipping target {end_b:?}{}", ctx()));
    }
    if a.inner.value != b.inner.value {
        return V::fail_sig("c17:event", format!("final event differs: rejecting target {}, skipping target {}{}", a.inner.value, b.inner.value, ctx()));
    }
    if a.inner.metadata != b.inner.metadata {
        return V::fail_sig("c17:metadata", format!("final metadata differs: rejecting target {}, skipping target {}{}", a.inner.metadata, b.inner.metadata, ctx()));
    }
    if c.plan.is_empty() {
        let plain = vrlx::run(&res.program, c.event.to_value(), c.meta.to_value());
        if !same_end(&plain.end, &end_a) || plain.event != a.inner.value || plain.metadata != a.inner.metadata {
            return V::fail_sig("c17:transparency", format!("with an empty fault plan the wrapped run differs from the run on the bare TargetValue: {:?} vs {:?}{}", plain.end, end_a, ctx()));
        }
    }
    let hits = a.hits.get();
    let kinds = a.hit_kinds.borrow();
    V::pass()
        .nontrivial(hits >= 1 && a.ops_after_first_hit.get() >= 1)
        .class(end_a.class())
        .class_if(c.plan.is_empty(), "empty_plan")
        .class_if(hits == 0 && !c.plan.is_empty(), "plan_not_reached")
        .class_if(hits >= 1, "fault_reached")
        .class_if(hits >= 3, "three_or_more_faults_reached")
        .class_if(kinds.iter().any(|k| matches!(k, Op::Get | Op::GetMut)), "rejected_read")
        .class_if(kinds.contains(&Op::Insert), "rejected_insert")
        .class_if(kinds.contains(&Op::Remove), "rejected_remove")
        .class_if(c.plan.root_read_fails && hits >= 1, "root_read_rejected_inside_program")
        .class_if(c.plan.get_from.is_some() || c.plan.insert_from.is_some() || c.plan.remove_from.is_some(), "plan_with_every_from_n")
        .class_if(c.src.contains("for_each(") || c.src.contains("map_values(") || c.src.contains("filter("), "program_with_closure")
        .class_if(c.src.contains("unnest("), "program_with_unnest")
}

/// `Runtime::resolve` on a target whose root read is rejected
fn check_root(c: &FaultCase) -> V {
    let res = match vrlx::compile(&c.src) {
        Ok(r) => r,
        Err(d) => {
            let code = vrlx::diag_codes(&d).first().copied().unwrap_or(0);
            return V::discard(crate::props::c22::intern(format!("rejected_E{code}")));
        }
    };
    let plan = FaultPlan { root_read_fails: true, ..c.plan.clone() };
    let mut t = FaultTarget::new(c.event.to_value(), c.meta.to_value(), plan, FaultMode::Reject);
    let mut rt = Runtime::default();
    let out = rt.resolve(&mut t, &res.program, &vrlx::utc());
    match out {
        Err(Terminate::Error(_)) => {}
        other => {
            return V::fail_sig(
                "c17:root",
                format!("the event root cannot be read, but Runtime::resolve ended with {other:?} instead of Terminate::Error\n--- program:\n{}--- event: {}", c.src, c.event.to_value()),
            )
        }
    }
    if t.inner.value != c.event.to_value() || t.inner.metadata != c.meta.to_value() {
        return V::fail_sig("c17:root-modified", format!("Runtime::resolve reported the unreadable root but the target was modified: event {} metadata {}\n--- program:\n{}", t.inner.value, t.inner.metadata, c.src));
    }
    V::pass().nontrivial(true).class("terminate_error")
}


/// every write is rejected and the program contains no deletion: the target must stay as it was
fn check_writes_rejected(c: &FaultCase) -> V {
    let res = match vrlx::compile(&c.src) {
        Ok(r) => r,
        Err(d) => {
            let code = vrlx::diag_codes(&d).first().copied().unwrap_or(0);
            return V::discard(crate::props::c22::intern(format!("rejected_E{code}")));
        }
    };
    if c.src.contains("del(") {
        return V::discard("program_with_del");
    }
    let plan = FaultPlan { insert_mask: 0, insert_from: Some(0), remove_mask: 0, remove_from: None, ..c.plan.clone() };
    let mut t = FaultTarget::new(c.event.to_value(), c.meta.to_value(), plan.clone(), FaultMode::Reject);
    let (end, _) = vrlx::run_on(&res.program, &mut t, &vrlx::utc());
    let ctx = || format!("\n--- program:\n{}--- event: {}\n--- metadata: {}\n--- plan: {:?}\n--- run ended: {:?}", c.src, c.event.to_value(), c.meta.to_value(), plan, end);
    if t.inner.value != c.event.to_value() {
        return V::fail_sig("c17:rejected-write-event", format!("every write was rejected and the program deletes nothing, but the event changed to {}{}", t.inner.value, ctx()));
    }
    if t.inner.metadata != c.meta.to_value() {
        return V::fail_sig("c17:rejected-write-metadata", format!("every write was rejected and the program deletes nothing, but the metadata changed to {}{}", t.inner.metadata, ctx()));
    }
    if t.remove_ops() != 0 {
        return V::fail_sig("c17:spurious-remove", format!("the program contains no del(..) but performed {} deletion(s) on the target{}", t.remove_ops(), ctx()));
    }
    let root_write = c.src.lines().any(|l| {
        let l = l.trim_start();
        l.starts_with(". =") || l.starts_with("% =") || l.starts_with(". |=") || l.starts_with("% |=") || l.starts_with("., ") || l.starts_with("%, ")
    });
    V::pass()
        .nontrivial(t.insert_ops() >= 1)
        .class(end.class())
        .class_if(t.insert_ops() >= 1, "write_rejected")
        .class_if(t.insert_ops() >= 3, "three_or_more_writes_rejected")
        .class_if(root_write, "program_with_root_assignment")
        .class_if(t.insert_ops() == 0, "no_write_reached")
        .class_if(c.src.contains("for_each(") || c.src.contains("map_values(") || c.src.contains("filter("), "program_with_closure")
}

fn without_del(mut prog: Vec<E>) -> Vec<E> {
    for s in &mut prog {
        rewrite(s, &mut |x| {
            if let E::Del { target, .. } = x {
                *x = E::Exists(target.clone());
            }
        });
    }
    prog
}

fn writes_rejected_source_cases() -> Vec<FaultCase> {
    use crate::props::pinned::ev;
    let e = ev(&[("a", ev(&[("b", TV::Int(1))])), ("arr", TV::Array(vec![TV::Int(1), TV::Int(2)])), ("s", TV::Str("{\"k\": 1}".into())), ("keep", TV::Str("me".into()))]);
    let m = ev(&[("m", TV::Int(1))]);
    let progs = [
        ". = {\"b\": 2}\n[., %]",
        "% = {\"other\": 1}\n[., %]",
        ". |= {\"z\": 1}\n% |= {\"z\": 1}\n[., %]",
        "., err = parse_json(.s)\n[., %]",
        ". = object!(parse_json!(.s))\n.a.b = 2\n%m = 2\n[., %]",
        ". = set!(., [\"a\", \"c\"], 1)\n[., %]",
        ".a.b = 2\n.arr[5] = 1\n.new = .keep\n%x.y = 1\n[., %]",
        "for_each(array!(.arr)) -> |_i, v| { . = {\"v\": v} }\nif exists(.a) { % = {} }\n[., %]",
        ". = map_values(.) -> |v| { .q = v; v }\n[., %]",
        ".a = 1\n. = {}\n.b = 2\n% = {}\n[., %]",
    ];
    let mut out = Vec::new();
    for p in progs {
        out.push(FaultCase { src: format!("{p}\n"), event: e.clone(), meta: m.clone(), plan: FaultPlan::default() });
        for i in 0..3u32 {
            out.push(FaultCase { src: format!("{p}\n"), event: e.clone(), meta: m.clone(), plan: FaultPlan { get_mask: 1 << i, ..FaultPlan::default() } });
        }
    }
    out
}

fn from_mut(c: MutCase, plan: FaultPlan) -> FaultCase {
    FaultCase { src: program_src(&c.prog), event: c.event, meta: c.meta, plan }
}

fn from_prog(c: ProgCase, plan: FaultPlan) -> FaultCase {
    FaultCase { src: program_src(&c.prog), event: c.event, meta: c.meta, plan }
}

fn source_cases(unnest: bool) -> Vec<FaultCase> {
    use crate::props::pinned::ev;
    let e = ev(&[
        ("a", ev(&[("b", TV::Int(1)), ("k", TV::Array(vec![TV::Int(1), TV::Int(2)]))])),
        ("arr", TV::Array(vec![TV::Int(1), TV::Int(2)])),
        ("s", TV::Str("12".into())),
        ("flag", TV::Bool(true)),
    ]);
    let m = ev(&[("m", TV::Int(1))]);
    let mut progs: Vec<&str> = vec![
        ".x = .a.b\n.y = %m\n%z = .arr[1]\n[., %]",
        "x = del(.a.b)\ny = exists(.a.k[1])\nz = del(%m, compact: true)\n.r = [x, y, z]\n[., %]",
        ".ok, .err = to_int(.s)\n%ok, err = to_int(.flag)\n[., %]",
        ". = set!(., [\"a\", \"c\"], 1)\n. = remove!(., [\"arr\", 0])\nx = get!(., [\"a\"])\n[., %, x]",
        "for_each(.) -> |k, v| { .seen = k }\nfor_each(array(.arr) ?? []) -> |_i, v| { if exists(.a.b) { .c = v } else { del(.a.k) } }\n[., %]",
        ".n = {\"q\": .a}\n.n |= {\"z\": .s}\nif .flag == true { %b = .s } else { .e = %m }\n[., %]",
        "if .flag == true { .q = 1; return .a }\nabort",
        "if exists(.nope) { abort \"m\" }\n.r = to_int(.s) ?? { del(.s); 0 }\n[., %]",
    ];
    if unnest {
        progs.push("x = unnest!(.arr)\n.n = length(x)\n[., %]");
    }
    let mut out = Vec::new();
    for p in progs {
        // every single-operation fault, every 'from n on' plan, the root plan, and the empty plan
        out.push(FaultCase { src: format!("{p}\n"), event: e.clone(), meta: m.clone(), plan: FaultPlan::default() });
        for i in 0..8u32 {
            out.push(FaultCase { src: format!("{p}\n"), event: e.clone(), meta: m.clone(), plan: FaultPlan { get_mask: 1 << i, ..FaultPlan::default() } });
            out.push(FaultCase { src: format!("{p}\n"), event: e.clone(), meta: m.clone(), plan: FaultPlan { insert_mask: 1 << i, ..FaultPlan::default() } });
            out.push(FaultCase { src: format!("{p}\n"), event: e.clone(), meta: m.clone(), plan: FaultPlan { remove_mask: 1 << i, ..FaultPlan::default() } });
        }
        for n in 0..3u32 {
            out.push(FaultCase { src: format!("{p}\n"), event: e.clone(), meta: m.clone(), plan: FaultPlan { get_from: Some(n), ..FaultPlan::default() } });
            out.push(FaultCase { src: format!("{p}\n"), event: e.clone(), meta: m.clone(), plan: FaultPlan { insert_from: Some(n), ..FaultPlan::default() } });
            out.push(FaultCase { src: format!("{p}\n"), event: e.clone(), meta: m.clone(), plan: FaultPlan { remove_from: Some(n), ..FaultPlan::default() } });
        }
        out.push(FaultCase { src: format!("{p}\n"), event: e.clone(), meta: m.clone(), plan: FaultPlan { get_from: Some(0), insert_from: Some(0), remove_from: Some(0), ..FaultPlan::default() } });
        out.push(FaultCase { src: format!("{p}\n"), event: e.clone(), meta: m.clone(), plan: FaultPlan { root_read_fails: true, ..FaultPlan::default() } });
    }
    out
}

pub fn run(r: &mut Run) {
    let unnest = !r.excluded(SW_UNNEST);
    let open_unnest = r.known.iter().any(|k| k.status == "open" && k.excluded_by.as_deref() == Some(SW_UNNEST));
    let cases = source_cases(!open_unnest);
    let must_compile = |f: fn(&FaultCase) -> V| {
        move |c: &FaultCase| {
            let v = f(c);
            if matches!(v.outcome, crate::engine::Outcome::Discard(_)) {
                V::fail(format!("source case must compile:\n{}", c.src))
            } else {
                v
            }
        }
    };
    r.enumerate("source_cases", cases.clone(), must_compile(check));
    r.enumerate("root_read_failure_source_cases", cases, must_compile(check_root));
    let cfg = Cfg { read_only: false, extras: true, unnest, ..Cfg::default() };
    r.sub("faults_in_mutation_programs", 100_000, 5_500_000, move || (mutprog::strategy(cfg), plan_strategy()).prop_map(|(c, p)| from_mut(c, p)), check);
    let preset = proggen::Preset { returns: 2, aborts: 2, dels: 4, closures: 3, ..progdiff::base_preset(r) };
    r.sub("faults_in_generated_programs", 35_000, 2_000_000, move || (proggen::strategy(preset), plan_strategy()).prop_map(|(c, p)| from_prog(c, p)), check);
    r.enumerate("writes_rejected_source_cases", writes_rejected_source_cases(), must_compile(check_writes_rejected));
    r.sub(
        "writes_rejected_in_mutation_programs",
        40_000,
        2_000_000,
        move || (mutprog::strategy(cfg), plan_strategy()).prop_map(|(mut c, p)| {
            c.prog = without_del(std::mem::take(&mut c.prog));
            from_mut(c, p)
        }),
        check_writes_rejected,
    );
    let nodel = proggen::Preset { returns: 2, aborts: 1, dels: 0, closures: 3, ..progdiff::base_preset(r) };
    r.sub("writes_rejected_in_generated_programs", 20_000, 1_000_000, move || (proggen::strategy(nodel), plan_strategy()).prop_map(|(c, p)| from_prog(c, p)), check_writes_rejected);
    r.sub("root_read_failure", 15_000, 500_000, move || (mutprog::strategy(cfg), plan_strategy()).prop_map(|(c, p)| from_mut(c, p)), check_root);
}
