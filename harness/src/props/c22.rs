//! C22 — binary codecs round-trip: `decode(encode(b, opts), matching opts) == b`.

use std::cell::RefCell;
use std::collections::{BTreeMap, HashMap};
use std::rc::Rc;
use std::sync::Mutex;

use encoding_rs::Encoding;
use proptest::prelude::*;
use serde::{Deserialize, Serialize};
use vrl::compiler::Program;
use vrl::value::Value;

use crate::engine::{Run, Tier, V};
use crate::gens::bytes::{length, payload};
use crate::gens::value::{ustring, TV};
use crate::vrlx::{self, End};

pub const RULE: &str = "cases = (codec, option combination, input) for base16; base64 {charset omitted/standard/url_safe} x {padding omitted/true/false} x {decoder charset omitted/explicit}; percent-encoding x 9 ascii_set values (+ omitted) over valid UTF-8 text dense in `%`, hex digits, every ASCII character and multi-byte characters; punycode over domains built from valid labels (lower-case LDH, Latin-1/Greek/Cyrillic/CJK/kana/Hangul letters, Hebrew labels under the Bidi rule, optional trailing dot) x validate {omitted,true,false} on both sides; gzip and zlib x compression_level {omitted, 0..9}; zstd x compression_level {omitted, -7..6 densely, 7..19 one fixed case each plus a few random ones, 20..22 in the thorough tier only}; snappy; lz4 x {prepend_size omitted/true with prepended_size: true, prepend_size: false with buf_size omitted / equal to the length / larger}; charset encode/decode x every encoding label of the Encoding Standard (canonical names plus the aliases of the function examples) over text produced by decoding random byte soup with that encoding and keeping the characters the encoder maps. Inputs are byte strings of 0..4096 bytes (all byte values; incompressible, periodic, run, text-like shapes; lengths biased to block boundaries). Every case is evaluated by one compiled VRL program `enc = encode_x(.v, opts); [enc, decode_x!(enc, opts)]` written with exactly the fallibility the signatures declare (so a change of declared fallibility is a compile error = failure); data travels in event fields, options are literals. Non-trivial = input length >= 1 (>= 32 for the compressors). Distinct = distinct serialised cases.";
pub const NOTE: &str = "only the round-trip law and the declared fallibility are asserted, nothing about the encoded form; the domain of the text codecs is built by construction: percent-encoding gets valid UTF-8, punycode gets domains whose labels are already in UTS-46 normal form (lower-case, NFC, no mapped characters), charset codecs get text whose every character was produced by the same encoding's decoder and is accepted by its encoder (encoding_rs is used to build the domain, not to judge the result); option values stay inside the documented/accepted ranges (gzip/zlib 0..9, lz4 buf_size >= length and <= 1e6)";

// ------------------------------------------------------------------------------------------
// compiled-program cache (programs differ only in option literals; data is in event fields)

thread_local! {
    static PROGS: RefCell<HashMap<String, Result<Rc<Program>, String>>> = RefCell::new(HashMap::new());
}

fn kind_tag(v: &Value) -> &'static str {
    match v {
        Value::Bytes(_) => "s",
        Value::Integer(_) => "i",
        Value::Float(_) => "f",
        Value::Boolean(_) => "b",
        Value::Null => "n",
        Value::Timestamp(_) => "t",
        Value::Regex(_) => "r",
        Value::Array(_) => "a",
        Value::Object(_) => "o",
    }
}

/// `vrlx::eval_exact` with a per-thread cache of compiled programs keyed by (source, top-level
/// field kinds). Only valid for events whose fields are scalars (the kind of a scalar does not
/// depend on its value), which is all this module and C23 use.
pub fn eval_cached(src: &str, event: &Value) -> Result<vrlx::RunOut, String> {
    let mut key = String::with_capacity(src.len() + 16);
    key.push_str(src);
    if let Value::Object(o) = event {
        for (k, v) in o {
            debug_assert!(!matches!(v, Value::Array(_) | Value::Object(_)));
            key.push('\u{0}');
            key.push_str(k.as_str());
            key.push(':');
            key.push_str(kind_tag(v));
        }
    }
    let prog = PROGS.with(|p| {
        let mut p = p.borrow_mut();
        if let Some(r) = p.get(&key) {
            return r.clone();
        }
        let r = match vrlx::compile_exact(src, event) {
            Ok(res) => Ok(Rc::new(res.program)),
            Err(d) => Err(vrlx::diag_summary(&d)),
        };
        if p.len() > 4096 {
            p.clear();
        }
        p.insert(key, r.clone());
        r
    });
    prog.map(|p| vrlx::run(&p, event.clone(), vrlx::empty_object()))
}

/// class labels must be `&'static str`; option values are data, so intern them (bounded by the
/// number of distinct option values)
pub fn intern(s: String) -> &'static str {
    static TABLE: Mutex<BTreeMap<String, &'static str>> = Mutex::new(BTreeMap::new());
    let mut t = TABLE.lock().unwrap();
    if let Some(x) = t.get(&s) {
        return x;
    }
    let leaked: &'static str = Box::leak(s.clone().into_boxed_str());
    t.insert(s, leaked);
    leaked
}

fn len_class(n: usize) -> &'static str {
    match n {
        0 => "len_0",
        1..=15 => "len_1_15",
        16..=255 => "len_16_255",
        _ => "len_256_4096",
    }
}

fn show(b: &[u8]) -> String {
    let head: Vec<u8> = b.iter().take(48).copied().collect();
    match std::str::from_utf8(&head) {
        Ok(s) if b.len() <= 48 => format!("{s:?}"),
        _ => format!("x'{}'{} ({} bytes)", hex::encode(&head), if b.len() > 48 { "…" } else { "" }, b.len()),
    }
}

fn first_diff(a: &[u8], b: &[u8]) -> usize {
    a.iter().zip(b).position(|(x, y)| x != y).unwrap_or(a.len().min(b.len()))
}

/// Runs `src` (which must evaluate to `[encoded, decoded]`) on `event` and compares `decoded`
/// with `want`. Returns the encoded bytes on success.
fn roundtrip(src: &str, event: &Value, want: &[u8]) -> Result<Vec<u8>, String> {
    let out = eval_cached(src, event).map_err(|e| format!("program `{src}` was rejected (declared fallibility or signature changed?): {e}"))?;
    let arr = match &out.end {
        End::Ok(Value::Array(a)) if a.len() == 2 => a.clone(),
        other => return Err(format!("`{src}` on input {} ended with {other:?}", show(want))),
    };
    let (Some(enc), Some(dec)) = (arr[0].as_bytes(), arr[1].as_bytes()) else {
        return Err(format!("`{src}`: encoder/decoder returned non-bytes {:?}", arr));
    };
    if dec.as_ref() != want {
        return Err(format!(
            "`{src}`: input {} encoded to {} decoded to {} (first difference at byte {})",
            show(want),
            show(enc),
            show(dec),
            first_diff(dec, want)
        ));
    }
    Ok(enc.to_vec())
}

fn ev(fields: &[(&str, Value)]) -> Value {
    Value::Object(fields.iter().map(|(k, v)| ((*k).into(), v.clone())).collect())
}

fn bytes_value(b: &[u8]) -> Value {
    Value::Bytes(bytes::Bytes::copy_from_slice(b))
}

// ------------------------------------------------------------------------------------------
// base16 / base64

#[derive(Clone, Debug, Serialize, Deserialize)]
pub struct B16Case {
    pub data: TV,
}

fn check_base16(c: &B16Case) -> V {
    let Some(data) = c.data.as_bytes() else { return V::discard("not bytes") };
    match roundtrip("enc = encode_base16(.v); [enc, decode_base16!(enc)]", &ev(&[("v", bytes_value(&data))]), &data) {
        Ok(_) => V::pass().nontrivial(!data.is_empty()).class(len_class(data.len())),
        Err(e) => V::fail(e),
    }
}

#[derive(Clone, Debug, Serialize, Deserialize)]
pub struct B64Case {
    /// None = argument omitted (documented default "standard")
    pub charset: Option<String>,
    /// None = argument omitted (documented default true)
    pub padding: Option<bool>,
    /// pass `charset:` to the decoder even when it is the default
    pub dec_charset_explicit: bool,
    pub data: TV,
}

/// `charset` enum values of encode_base64 / decode_base64 (src/stdlib/encode_base64.rs)
pub const B64_CHARSETS: &[&str] = &["standard", "url_safe"];

fn b64_src(c: &B64Case) -> String {
    let mut enc = String::from("encode_base64(.v");
    if let Some(p) = c.padding {
        enc.push_str(&format!(", padding: {p}"));
    }
    if let Some(cs) = &c.charset {
        enc.push_str(&format!(", charset: {}", vrlx::str_lit(cs)));
    }
    enc.push(')');
    let eff = c.charset.clone().unwrap_or_else(|| "standard".to_string());
    let dec = if c.dec_charset_explicit || eff != "standard" { format!("decode_base64!(enc, charset: {})", vrlx::str_lit(&eff)) } else { "decode_base64!(enc)".to_string() };
    format!("enc = {enc}; [enc, {dec}]")
}

fn check_base64(c: &B64Case) -> V {
    let Some(data) = c.data.as_bytes() else { return V::discard("not bytes") };
    if let Some(cs) = &c.charset {
        if !B64_CHARSETS.contains(&cs.as_str()) {
            return V::discard("undocumented charset");
        }
    }
    match roundtrip(&b64_src(c), &ev(&[("v", bytes_value(&data))]), &data) {
        Ok(enc) => V::pass()
            .nontrivial(!data.is_empty())
            .class(len_class(data.len()))
            .class(match c.charset.as_deref() {
                None => "charset_omitted",
                Some("standard") => "charset_standard",
                _ => "charset_url_safe",
            })
            .class(match c.padding {
                None => "padding_omitted",
                Some(true) => "padding_true",
                Some(false) => "padding_false",
            })
            .class(match data.len() % 3 {
                0 => "len_mod3_0",
                1 => "len_mod3_1",
                _ => "len_mod3_2",
            })
            .class_if(enc.iter().any(|b| matches!(b, b'+' | b'/' | b'-' | b'_')), "uses_alphabet_specific_symbol")
            .class_if(enc.ends_with(b"="), "padded_output"),
        Err(e) => V::fail(e),
    }
}

fn b64_case() -> impl Strategy<Value = B64Case> {
    (
        prop_oneof![1 => Just(None), 2 => Just(Some("standard".to_string())), 3 => Just(Some("url_safe".to_string()))],
        prop_oneof![Just(None), Just(Some(true)), Just(Some(false))],
        any::<bool>(),
        prop_oneof![
            3 => payload(4096),
            // bytes whose sextets hit the two alphabet-specific symbols (0xfb 0xef 0xbe.. => '+', '/', '-', '_')
            2 => proptest::collection::vec(prop_oneof![Just(0xfbu8), Just(0xffu8), Just(0xefu8), Just(0xbeu8), Just(0x3eu8), Just(0x3fu8), any::<u8>()], 0..40),
        ],
    )
        .prop_map(|(charset, padding, dec_charset_explicit, data)| B64Case { charset, padding, dec_charset_explicit, data: TV::bytes(&data) })
}

// ------------------------------------------------------------------------------------------
// percent-encoding

/// `ascii_set` enum values (src/stdlib/encode_percent.rs, ASCII_SET_ENUM) and whether the set
/// escapes `%` itself (from the set definitions in the same file: only NON_ALPHANUMERIC,
/// COMPONENT and WWW_FORM_URLENCODED contain `%`)
pub const PERCENT_SETS: &[(&str, bool)] = &[
    ("NON_ALPHANUMERIC", true),
    ("CONTROLS", false),
    ("FRAGMENT", false),
    ("QUERY", false),
    ("SPECIAL", false),
    ("PATH", false),
    ("USERINFO", false),
    ("COMPONENT", true),
    ("WWW_FORM_URLENCODED", true),
];

/// switch of known finding D30
pub const SW_PCT: &str = "c22-percent-literal-pct-hex-under-sets-without-pct";

#[derive(Clone, Debug, Serialize, Deserialize)]
pub struct PctCase {
    /// None = argument omitted (documented default NON_ALPHANUMERIC)
    pub set: Option<String>,
    pub text: String,
}

fn has_pct_hex(s: &str) -> bool {
    let b = s.as_bytes();
    (0..b.len()).any(|i| b[i] == b'%' && b.get(i + 1).is_some_and(u8::is_ascii_hexdigit) && b.get(i + 2).is_some_and(u8::is_ascii_hexdigit))
}

/// makes every `%HH` in `s` a non-escape by inserting a non-hex letter after the `%`
fn break_pct_hex(s: &str) -> String {
    let b = s.as_bytes();
    let mut out = String::with_capacity(s.len() + 8);
    for (i, ch) in s.char_indices() {
        out.push(ch);
        if ch == '%' && b.get(i + 1).is_some_and(u8::is_ascii_hexdigit) && b.get(i + 2).is_some_and(u8::is_ascii_hexdigit) {
            out.push('g');
        }
    }
    out
}

fn check_percent(c: &PctCase) -> V {
    let set_name = c.set.clone().unwrap_or_else(|| "NON_ALPHANUMERIC".to_string());
    let Some((_, escapes_pct)) = PERCENT_SETS.iter().find(|(n, _)| *n == set_name) else { return V::discard("undocumented ascii_set") };
    let src = match &c.set {
        Some(s) => format!("enc = encode_percent(.v, ascii_set: {}); [enc, decode_percent(enc)]", vrlx::str_lit(s)),
        None => "enc = encode_percent(.v); [enc, decode_percent(enc)]".to_string(),
    };
    let data = c.text.as_bytes();
    match roundtrip(&src, &ev(&[("v", bytes_value(data))]), data) {
        Ok(enc) => V::pass()
            .nontrivial(!data.is_empty())
            .class(len_class(data.len()))
            .class(intern(format!("set_{}", c.set.as_deref().unwrap_or("omitted"))))
            .class_if(c.text.contains('%'), "input_has_percent_sign")
            .class_if(has_pct_hex(&c.text), "input_has_pct_hex")
            .class_if(!c.text.is_ascii(), "input_non_ascii")
            .class_if(enc.as_slice() == data, "encoded_equals_input")
            .class_if(!escapes_pct, "set_leaves_pct"),
        Err(e) => V::fail(e),
    }
}

const PCT_TOKENS: &[&str] = &[
    "%", "%", "%4", "%41", "%zz", "%%", "%25", "25", "%e2%82%ac", "%E2%82%AC", "%C3", "%A9", "%0", "%00", "%fF", "a", "Z", "0", "9", "f", "F", " ", "é", "日", "😀", "+",
    "&", "=", "?", "#", "/", ":", "@", "[", "]", "{", "}", "|", "\\", "^", "`", "<", ">", "\"", "'", "~", "!", "(", ")", "*", "$", ",", ";", ".", "-", "_", "\n", "\t",
    "\0", "\u{7f}", "\u{80}", "\u{a0}",
];

fn pct_text() -> impl Strategy<Value = String> {
    prop_oneof![
        4 => proptest::collection::vec(0..PCT_TOKENS.len(), 0..24).prop_map(|ix| ix.into_iter().map(|i| PCT_TOKENS[i]).collect::<String>()),
        2 => ustring(24),
        // every ASCII character
        2 => proptest::collection::vec(0u8..128, 0..48).prop_map(|v| v.into_iter().map(|b| b as char).collect::<String>()),
        1 => any::<String>(),
        // long inputs
        1 => (proptest::collection::vec(0..PCT_TOKENS.len(), 1..12), length(4096)).prop_map(|(ix, n)| {
            let unit: String = ix.into_iter().map(|i| PCT_TOKENS[i]).collect();
            let mut s = String::new();
            while s.len() + unit.len() <= n && !unit.is_empty() { s.push_str(&unit); }
            s
        }),
    ]
}

fn pct_case(no_pct_hex: bool) -> impl Strategy<Value = PctCase> {
    (prop_oneof![1 => Just(None), 9 => (0..PERCENT_SETS.len()).prop_map(|i| Some(PERCENT_SETS[i].0.to_string()))], pct_text()).prop_map(move |(set, text)| {
        let escapes = PERCENT_SETS.iter().find(|(n, _)| Some(*n) == set.as_deref()).map_or(true, |(_, e)| *e);
        let text = if no_pct_hex && !escapes { break_pct_hex(&text) } else { text };
        PctCase { set, text }
    })
}

// ------------------------------------------------------------------------------------------
// punycode

#[derive(Clone, Debug, Serialize, Deserialize)]
pub struct PunyCase {
    pub domain: String,
    /// None = argument omitted (documented default true)
    pub enc_validate: Option<bool>,
    pub dec_validate: Option<bool>,
}

fn opt_bool_arg(name: &str, v: Option<bool>) -> String {
    match v {
        Some(b) => format!(", {name}: {b}"),
        None => String::new(),
    }
}

/// Domain of the punycode round trip, checked syntactically (independent of the idna crate):
/// labels separated by single dots, optional trailing dot; every label non-empty, no leading /
/// trailing / doubled hyphen, characters from lower-case LDH plus a fixed set of lower-case,
/// NFC-stable, unmapped letters; a domain with a Hebrew label obeys the Bidi rule in every label.
fn ltr_letter(c: char) -> bool {
    matches!(c,
        'a'..='z'
        | '\u{df}'..='\u{f6}' | '\u{f8}'..='\u{ff}'      // Latin-1 lower case (ß, à..ö, ø..ÿ)
        | '\u{3b1}'..='\u{3c9}'                          // Greek α..ω (incl. final sigma)
        | '\u{430}'..='\u{44f}'                          // Cyrillic а..я
        | '\u{3041}'..='\u{3096}'                        // Hiragana
        | '\u{4e00}'..='\u{9fa5}'                        // CJK unified ideographs
        | '\u{ac00}'..='\u{d7a3}'                        // Hangul syllables
    )
}

fn hebrew(c: char) -> bool {
    matches!(c, '\u{5d0}'..='\u{5ea}')
}

fn valid_label(l: &str, bidi_domain: bool) -> bool {
    let cs: Vec<char> = l.chars().collect();
    if cs.is_empty() || cs.len() > 24 || cs[0] == '-' || cs[cs.len() - 1] == '-' || l.contains("--") {
        return false;
    }
    let rtl = cs.iter().any(|c| hebrew(*c));
    if rtl {
        // Bidi rule for an RTL label: starts with R, only R / EN / ES, ends with R or EN
        hebrew(cs[0]) && cs.iter().all(|c| hebrew(*c) || c.is_ascii_digit() || *c == '-')
    } else {
        let body = cs.iter().all(|c| ltr_letter(*c) || c.is_ascii_digit() || *c == '-');
        // Bidi rule for an LTR label in a Bidi domain: starts with L, ends with L or EN
        body && (!bidi_domain || ltr_letter(cs[0]))
    }
}

fn valid_domain(d: &str) -> bool {
    let core = d.strip_suffix('.').unwrap_or(d);
    if core.is_empty() {
        return false;
    }
    let labels: Vec<&str> = core.split('.').collect();
    let bidi = core.chars().any(hebrew);
    labels.len() <= 6 && labels.iter().all(|l| valid_label(l, bidi))
}

fn check_punycode(c: &PunyCase) -> V {
    if !valid_domain(&c.domain) {
        return V::discard("not a domain of valid normalised labels");
    }
    let src = format!(
        "enc = encode_punycode!(.v{}); [enc, decode_punycode!(enc{})]",
        opt_bool_arg("validate", c.enc_validate),
        opt_bool_arg("validate", c.dec_validate)
    );
    let data = c.domain.as_bytes();
    match roundtrip(&src, &ev(&[("v", bytes_value(data))]), data) {
        Ok(enc) => {
            if !enc.is_ascii() {
                // the function's documentation: "Encodes a value to punycode"; an encoded domain is ASCII
                return V::fail(format!("`{src}`: encoding of {:?} is not ASCII: {}", c.domain, show(&enc)));
            }
            let n_ace = String::from_utf8_lossy(&enc).matches("xn--").count();
            V::pass()
                .nontrivial(!c.domain.is_ascii())
                .class(match c.enc_validate {
                    None => "enc_validate_omitted",
                    Some(true) => "enc_validate_true",
                    Some(false) => "enc_validate_false",
                })
                .class(match c.dec_validate {
                    None => "dec_validate_omitted",
                    Some(true) => "dec_validate_true",
                    Some(false) => "dec_validate_false",
                })
                .class(match n_ace {
                    0 => "ace_labels_0",
                    1 => "ace_labels_1",
                    _ => "ace_labels_2plus",
                })
                .class_if(c.domain.ends_with('.'), "trailing_dot")
                .class_if(c.domain.chars().any(hebrew), "bidi_domain")
                .class_if(c.domain.contains('-'), "has_hyphen")
                .class_if(c.domain.contains('ß') || c.domain.contains('ς'), "deviation_char")
        }
        Err(e) => V::fail(e),
    }
}

fn pick_char(ranges: &'static [(u32, u32)]) -> impl Strategy<Value = char> {
    (0..ranges.len(), any::<u32>()).prop_map(move |(i, r)| {
        let (lo, hi) = ranges[i];
        char::from_u32(lo + r % (hi - lo + 1)).unwrap_or('a')
    })
}

const LTR_POOLS: &[(u32, u32)] =
    &[(0xdf, 0xf6), (0xf8, 0xff), (0x3b1, 0x3c9), (0x430, 0x44f), (0x3041, 0x3096), (0x4e00, 0x9fa5), (0xac00, 0xd7a3), (0xe0, 0xef), (0x3c2, 0x3c3)];

fn ltr_label(must_start_with_letter: bool) -> impl Strategy<Value = String> {
    let ch = prop_oneof![
        5 => proptest::char::range('a', 'z'),
        2 => proptest::char::range('0', '9'),
        1 => Just('-'),
        4 => pick_char(LTR_POOLS),
    ];
    (prop_oneof![1 => Just(false), 2 => Just(true)], proptest::collection::vec(ch, 1..=12)).prop_map(move |(ascii_only, mut cs)| {
        if ascii_only {
            for c in cs.iter_mut() {
                if !c.is_ascii() {
                    *c = 'x';
                }
            }
        }
        // repair hyphen placement by construction
        let n = cs.len();
        for i in 0..n {
            if cs[i] == '-' && (i == 0 || i == n - 1 || cs[i - 1] == '-') {
                cs[i] = 'h';
            }
        }
        if must_start_with_letter && cs[0].is_ascii_digit() {
            cs[0] = 'd';
        }
        cs.into_iter().collect()
    })
}

fn hebrew_label() -> impl Strategy<Value = String> {
    (proptest::collection::vec(pick_char(&[(0x5d0, 0x5ea)]), 1..=8), proptest::collection::vec(proptest::char::range('0', '9'), 0..=2)).prop_map(|(h, d)| h.into_iter().chain(d).collect())
}

fn puny_case() -> impl Strategy<Value = PunyCase> {
    let ltr_domain = proptest::collection::vec(ltr_label(false), 1..=4).prop_map(|l| l.join("."));
    let bidi_domain = proptest::collection::vec(prop_oneof![2 => hebrew_label().boxed(), 1 => ltr_label(true).boxed()], 1..=3).prop_map(|l| l.join("."));
    let ob = || prop_oneof![Just(None), Just(Some(true)), Just(Some(false))];
    (prop_oneof![5 => ltr_domain, 1 => bidi_domain], any::<u8>(), ob(), ob()).prop_map(|(d, dot, enc_validate, dec_validate)| PunyCase {
        domain: if dot % 5 == 0 { format!("{d}.") } else { d },
        enc_validate,
        dec_validate,
    })
}

// ------------------------------------------------------------------------------------------
// compressors

#[derive(Clone, Copy, Debug, Serialize, Deserialize, PartialEq, Eq)]
pub enum Comp {
    Gzip,
    Zlib,
    Zstd,
    Snappy,
}

#[derive(Clone, Debug, Serialize, Deserialize)]
pub struct CompCase {
    pub codec: Comp,
    /// None = argument omitted; always None for snappy
    pub level: Option<i64>,
    pub data: TV,
}

fn comp_src(c: &CompCase) -> Option<String> {
    let lvl = match c.level {
        Some(l) => format!(", compression_level: {}", vrlx::int_lit(l)),
        None => String::new(),
    };
    Some(match c.codec {
        // encode_gzip / encode_zlib are infallible for a constant level <= 10; flate2 accepts 0..=9
        Comp::Gzip if c.level.map_or(true, |l| (0..=9).contains(&l)) => format!("enc = encode_gzip(.v{lvl}); [enc, decode_gzip!(enc)]"),
        Comp::Zlib if c.level.map_or(true, |l| (0..=9).contains(&l)) => format!("enc = encode_zlib(.v{lvl}); [enc, decode_zlib!(enc)]"),
        // zstd's own level range is -131072..=22 (0 = default)
        Comp::Zstd if c.level.map_or(true, |l| (-131_072..=22).contains(&l)) => format!("enc = encode_zstd(.v{lvl}); [enc, decode_zstd!(enc)]"),
        Comp::Snappy if c.level.is_none() => "enc = encode_snappy!(.v); [enc, decode_snappy!(enc)]".to_string(),
        _ => return None,
    })
}

fn check_comp(c: &CompCase) -> V {
    let Some(data) = c.data.as_bytes() else { return V::discard("not bytes") };
    if data.len() > 65_536 {
        return V::discard("input larger than the checked domain");
    }
    let Some(src) = comp_src(c) else { return V::discard("option outside the documented range") };
    match roundtrip(&src, &ev(&[("v", bytes_value(&data))]), &data) {
        Ok(enc) => V::pass()
            .nontrivial(data.len() >= 32)
            .class(len_class(data.len()))
            .class(match c.level {
                None => "level_omitted",
                Some(l) => intern(format!("level_{l}")),
            })
            .class_if(enc.len() < data.len(), "compressed_smaller")
            .class_if(enc.len() * 4 < data.len(), "compressed_4x")
            .class_if(enc.len() >= data.len(), "incompressible"),
        Err(e) => V::fail(e),
    }
}

/// payloads for the compressors: the general shapes, tilted towards the longer ones
fn comp_payload() -> impl Strategy<Value = Vec<u8>> {
    prop_oneof![
        3 => payload(4096),
        2 => (payload(4096), payload(4096)).prop_map(|(a, b)| if a.len() >= b.len() { a } else { b }),
        // a payload followed by a copy of (part of) itself: long-distance matches
        1 => (payload(2048), any::<u16>()).prop_map(|(a, cut)| {
            let k = if a.is_empty() { 0 } else { cut as usize % a.len() };
            let mut out = a.clone();
            out.extend_from_slice(&a[k..]);
            out.truncate(4096);
            out
        }),
    ]
}

fn comp_case(codec: Comp, levels: Vec<Option<i64>>) -> impl Strategy<Value = CompCase> {
    ((0..levels.len()), comp_payload()).prop_map(move |(i, data)| CompCase { codec, level: levels[i], data: TV::bytes(&data) })
}

// ------------------------------------------------------------------------------------------
// lz4

#[derive(Clone, Debug, Serialize, Deserialize, PartialEq, Eq)]
pub enum Lz4Buf {
    /// `buf_size` omitted (documented default 1 000 000)
    Omitted,
    /// `buf_size` = the uncompressed length ("must be equal to or larger than the uncompressed size")
    Exact,
    /// `buf_size` = length + this slack
    Slack(u32),
}

#[derive(Clone, Debug, Serialize, Deserialize)]
pub struct Lz4Case {
    /// None = `prepend_size` omitted (documented default true)
    pub prepend: Option<bool>,
    /// only used when the size is not prepended
    pub buf: Lz4Buf,
    pub data: TV,
}

fn check_lz4(c: &Lz4Case) -> V {
    let Some(data) = c.data.as_bytes() else { return V::discard("not bytes") };
    if data.len() > 65_536 {
        return V::discard("input larger than the checked domain");
    }
    let prepended = c.prepend.unwrap_or(true);
    let enc = format!("encode_lz4!(.v{})", opt_bool_arg("prepend_size", c.prepend));
    let mut fields = vec![("v", bytes_value(&data))];
    let dec = if prepended {
        "decode_lz4!(enc, prepended_size: true)".to_string()
    } else {
        match c.buf {
            Lz4Buf::Omitted => "decode_lz4!(enc)".to_string(),
            Lz4Buf::Exact | Lz4Buf::Slack(_) => {
                let slack = if let Lz4Buf::Slack(s) = c.buf { i64::from(s.min(1_000_000)) } else { 0 };
                fields.push(("n", Value::Integer(data.len() as i64 + slack)));
                "decode_lz4!(enc, buf_size: .n, prepended_size: false)".to_string()
            }
        }
    };
    let src = format!("enc = {enc}; [enc, {dec}]");
    match roundtrip(&src, &ev(&fields), &data) {
        Ok(enc) => V::pass()
            .nontrivial(data.len() >= 32)
            .class(len_class(data.len()))
            .class(match c.prepend {
                None => "prepend_omitted",
                Some(true) => "prepend_true",
                Some(false) => "prepend_false",
            })
            .class_if(!prepended && c.buf == Lz4Buf::Omitted, "buf_size_omitted")
            .class_if(!prepended && c.buf == Lz4Buf::Exact, "buf_size_exact")
            .class_if(!prepended && matches!(c.buf, Lz4Buf::Slack(_)), "buf_size_larger")
            .class_if(enc.len() < data.len(), "compressed_smaller")
            .class_if(enc.len() >= data.len(), "incompressible"),
        Err(e) => V::fail(e),
    }
}

fn lz4_case() -> impl Strategy<Value = Lz4Case> {
    (
        prop_oneof![1 => Just(None), 2 => Just(Some(true)), 4 => Just(Some(false))],
        prop_oneof![2 => Just(Lz4Buf::Omitted), 3 => Just(Lz4Buf::Exact), 2 => prop_oneof![Just(1u32), Just(7), Just(4096), 0u32..100_000].prop_map(Lz4Buf::Slack)],
        comp_payload(),
    )
        .prop_map(|(prepend, buf, data)| Lz4Case { prepend, buf, data: TV::bytes(&data) })
}

// ------------------------------------------------------------------------------------------
// charset

/// Every encoding of the Encoding Standard (canonical names as in encoding_rs' statics, which is
/// what the function documentation links to), except `replacement` (decodes nothing: no
/// representable text), plus the alias labels used in the function examples.
pub const CHARSET_LABELS: &[&str] = &[
    "UTF-8", "IBM866", "ISO-8859-2", "ISO-8859-3", "ISO-8859-4", "ISO-8859-5", "ISO-8859-6", "ISO-8859-7", "ISO-8859-8", "ISO-8859-8-I", "ISO-8859-10", "ISO-8859-13",
    "ISO-8859-14", "ISO-8859-15", "ISO-8859-16", "KOI8-R", "KOI8-U", "macintosh", "windows-874", "windows-1250", "windows-1251", "windows-1252", "windows-1253",
    "windows-1254", "windows-1255", "windows-1256", "windows-1257", "windows-1258", "x-mac-cyrillic", "GBK", "gb18030", "Big5", "EUC-JP", "ISO-2022-JP", "Shift_JIS",
    "EUC-KR", "x-user-defined", "UTF-16BE", "UTF-16LE",
    // aliases (function examples and common spellings)
    "euc-kr", "euc-jp", "gb2312", "latin1", "ascii", "sjis", "utf8",
];

/// switch of the known finding "decode_charset sniffs a BOM and overrides from_charset"
pub const SW_BOM: &str = "c22-charset-encoded-form-starts-with-bom";
/// switch of the known finding "encode_charset to UTF-16LE/BE emits UTF-8"
pub const SW_UTF16: &str = "c22-charset-utf16-labels";
/// switch of the known finding "the ISO-2022-JP encoder widens half-width katakana"
pub const SW_KANA: &str = "c22-iso2022jp-halfwidth-katakana";

fn halfwidth_katakana(c: char) -> bool {
    matches!(c, '\u{ff61}'..='\u{ff9f}')
}

#[derive(Clone, Debug, Serialize, Deserialize)]
pub struct CharsetCase {
    pub label: String,
    pub text: String,
}

fn is_utf16(e: &'static Encoding) -> bool {
    e == encoding_rs::UTF_16LE || e == encoding_rs::UTF_16BE
}

/// the bytes a correct encoder for `e` produces (encoding_rs has no UTF-16 encoder)
fn reference_encode(e: &'static Encoding, text: &str) -> Option<Vec<u8>> {
    if e == encoding_rs::UTF_16LE {
        return Some(text.encode_utf16().flat_map(u16::to_le_bytes).collect());
    }
    if e == encoding_rs::UTF_16BE {
        return Some(text.encode_utf16().flat_map(u16::to_be_bytes).collect());
    }
    let (out, _, bad) = e.encode(text);
    if bad {
        None
    } else {
        Some(out.into_owned())
    }
}

fn starts_with_bom(b: &[u8]) -> bool {
    b.starts_with(&[0xef, 0xbb, 0xbf]) || b.starts_with(&[0xff, 0xfe]) || b.starts_with(&[0xfe, 0xff])
}

fn check_charset(c: &CharsetCase) -> V {
    let Some(e) = Encoding::for_label(c.label.as_bytes()) else { return V::discard("unknown label") };
    if e == encoding_rs::REPLACEMENT {
        return V::discard("replacement encoding has no representable text");
    }
    // domain: text representable in the charset (every character has an encoded form)
    let Some(reference) = reference_encode(e, &c.text) else { return V::discard("text not representable in the charset") };
    let lit = vrlx::str_lit(&c.label);
    let src = format!("enc = encode_charset!(.v, {lit}); [enc, decode_charset!(enc, {lit})]");
    let data = c.text.as_bytes();
    match roundtrip(&src, &ev(&[("v", bytes_value(data))]), data) {
        Ok(enc) => V::pass()
            .nontrivial(!data.is_empty())
            .class(len_class(data.len()))
            .class(intern(format!("enc_{}", e.name())))
            .class_if(c.label != e.name(), "alias_label")
            .class_if(!c.text.is_ascii(), "non_ascii_text")
            .class_if(enc.len() != c.text.chars().count(), "multi_byte_or_stateful")
            .class_if(starts_with_bom(&reference), "encoded_starts_with_bom")
            .class_if(c.text.chars().any(halfwidth_katakana), "halfwidth_katakana"),
        Err(e) => V::fail(e),
    }
}

/// byte soup that decodes to dense multi-byte text in the legacy CJK encodings as well as to
/// every single-byte value
fn byte_soup() -> impl Strategy<Value = Vec<u8>> {
    let unit = prop_oneof![
        4 => (0x20u8..0x7f).prop_map(|b| vec![b]),
        4 => any::<u8>().prop_map(|b| vec![b]),
        3 => (0x80u8..=0xff).prop_map(|b| vec![b]),
        6 => (0x81u8..=0xfe, 0x40u8..=0xfe).prop_map(|(a, b)| vec![a, b]),
        4 => (0xa1u8..=0xfe, 0xa1u8..=0xfe).prop_map(|(a, b)| vec![a, b]),
        2 => (0x81u8..=0xfe, 0x30u8..=0x39, 0x81u8..=0xfe, 0x30u8..=0x39).prop_map(|(a, b, c, d)| vec![a, b, c, d]),
        1 => (0x8eu8..=0x8f, 0xa1u8..=0xfe, 0xa1u8..=0xfe).prop_map(|(a, b, c)| vec![a, b, c]),
        // ISO-2022-JP escape sequences followed by a few 7-bit pairs
        3 => (prop_oneof![Just(&b"\x1b$B"[..]), Just(&b"\x1b$@"[..]), Just(&b"\x1b(J"[..]), Just(&b"\x1b(I"[..]), Just(&b"\x1b(B"[..])], proptest::collection::vec(0x21u8..0x7f, 0..8)).prop_map(|(esc, tail)| { let mut v = esc.to_vec(); v.extend(tail); v }),
        // BOM-like prefixes
        1 => prop_oneof![Just(vec![0xefu8, 0xbb, 0xbf]), Just(vec![0xff, 0xfe]), Just(vec![0xfe, 0xff])],
        1 => Just(vec![0x0d, 0x0a]),
    ];
    prop_oneof![
        6 => proptest::collection::vec(unit.clone(), 0..24),
        1 => proptest::collection::vec(unit, 0..600),
    ]
    .prop_map(|u| { let mut v: Vec<u8> = u.into_iter().flatten().collect(); v.truncate(4096); v })
}

/// text representable in `e`, by construction: decode the soup with `e`'s decoder (no BOM
/// handling), keep the characters `e`'s encoder maps
fn representable_text(e: &'static Encoding, soup: &[u8], extra: &str) -> String {
    if e == encoding_rs::UTF_8 || is_utf16(e) {
        // every Unicode string is representable
        let (t, _) = e.decode_without_bom_handling(soup);
        return format!("{}{}", t.replace('\u{fffd}', ""), extra);
    }
    let (t, _) = e.decode_without_bom_handling(soup);
    let mut out = String::with_capacity(t.len());
    let mut buf = [0u8; 4];
    for ch in t.chars() {
        let (_, _, bad) = e.encode(ch.encode_utf8(&mut buf));
        if !bad {
            out.push(ch);
        }
    }
    out
}

fn charset_case(no_bom: bool, no_utf16: bool, no_kana: bool) -> impl Strategy<Value = CharsetCase> {
    let labels: Vec<&'static str> = CHARSET_LABELS
        .iter()
        .copied()
        .filter(|l| !(no_utf16 && Encoding::for_label(l.as_bytes()).is_some_and(is_utf16)))
        .collect();
    (0..labels.len(), byte_soup(), prop_oneof![3 => Just(String::new()), 1 => ustring(8)]).prop_map(move |(i, soup, extra)| {
        let label = labels[i];
        let e = Encoding::for_label(label.as_bytes()).expect("labels in the table are valid");
        let mut text = representable_text(e, &soup, &extra);
        if no_kana && e == encoding_rs::ISO_2022_JP {
            text.retain(|c| !halfwidth_katakana(c));
        }
        if no_bom {
            // leave out (by construction) texts whose encoded form starts with a BOM
            while reference_encode(e, &text).is_some_and(|b| starts_with_bom(&b)) {
                let mut it = text.chars();
                it.next();
                text = it.collect();
            }
        }
        CharsetCase { label: label.to_string(), text }
    })
}

// ------------------------------------------------------------------------------------------

pub fn run(r: &mut Run) {
    let no_pct_hex = r.excluded(SW_PCT);
    let no_bom = r.excluded(SW_BOM);
    let no_utf16 = r.excluded(SW_UTF16);
    let no_kana = r.excluded(SW_KANA);

    r.sub("base16", 20_000, 1_500_000, || payload(4096).prop_map(|d| B16Case { data: TV::bytes(&d) }), check_base16);
    r.sub("base64", 60_000, 5_000_000, b64_case, check_base64);
    r.sub("percent", 90_000, 6_000_000, move || pct_case(no_pct_hex), check_percent);
    r.sub("punycode", 60_000, 4_000_000, puny_case, check_punycode);

    let flate_levels: Vec<Option<i64>> = std::iter::once(None).chain((0..=9).map(Some)).collect();
    let fl = flate_levels.clone();
    r.sub("gzip", 22_000, 1_500_000, move || comp_case(Comp::Gzip, fl.clone()), check_comp);
    let fl = flate_levels.clone();
    r.sub("zlib", 22_000, 1_500_000, move || comp_case(Comp::Zlib, fl.clone()), check_comp);
    // zstd (no level range is documented; zstd itself accepts -131072..=22): encode_all runs in
    // streaming mode with an unknown input size, so the cost of a call is dominated by the
    // level's table sizes (measured 0.3 ms at level 1, 10 ms at 6, 0.1-0.7 s at 9-19, seconds and
    // hundreds of MiB at the "ultra" levels 20-22). Levels up to 6 are sampled densely, 7..=19
    // sparsely, 20..=22 once each.
    let z_dense: Vec<Option<i64>> = std::iter::once(None).chain((-7..=6).map(Some)).collect();
    r.sub("zstd", 12_000, 1_000_000, move || comp_case(Comp::Zstd, z_dense.clone()), check_comp);
    let fixed_payload: Vec<u8> = (0..4096u32).map(|i| if i % 7 < 3 { (i.wrapping_mul(2_654_435_761) >> 13) as u8 } else { b"GET /index.html 200 "[(i % 20) as usize] }).collect();
    let fixed = |levels: std::ops::RangeInclusive<i64>| -> Vec<CompCase> { levels.map(|l| CompCase { codec: Comp::Zstd, level: Some(l), data: TV::bytes(&fixed_payload[..(4096 - 37 * (l as usize % 5))]) }).collect() };
    r.enumerate("zstd_levels_7_19_fixed", fixed(7..=19), check_comp);
    let z_high: Vec<Option<i64>> = (7..=19).map(Some).collect();
    r.sub("zstd_high_levels", 16, 3_000, move || comp_case(Comp::Zstd, z_high.clone()), check_comp);
    // the ultra levels cost seconds and hundreds of MiB per call: thorough tier (and replays) only
    if r.is_replay() || r.tier == Tier::Thorough {
        r.enumerate("zstd_ultra_levels_fixed", fixed(20..=22), check_comp);
    }
    r.sub("snappy", 15_000, 1_500_000, || comp_case(Comp::Snappy, vec![None]), check_comp);
    r.sub("lz4", 40_000, 3_000_000, lz4_case, check_lz4);
    r.sub("charset", 120_000, 8_000_000, move || charset_case(no_bom, no_utf16, no_kana), check_charset);
}
