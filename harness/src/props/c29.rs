//! C29 — numeric functions return mathematically correct results.
//!
//! Oracle: exact rational arithmetic (`num-rational` over `BigInt`). Every finite f64 converts
//! exactly to a `BigRational`, so "within 10^-p", "not below", "truncated remainder" are decided
//! without any floating-point rounding on the oracle's side.

use num_bigint::BigInt;
use num_rational::BigRational;
use num_traits::{One, Signed, ToPrimitive, Zero};
use proptest::prelude::*;
use serde::{Deserialize, Serialize};
use vrl::value::Value;

use crate::engine::{Run, V};
use crate::gens::value::{finite_float, int, TV};
use crate::vrlx::{self, End};

pub const RULE: &str = "five sub-checks (plus a deterministic grid for the first), all through compiled VRL with the numbers delivered in event fields. (1) round_ceil_floor: (function, x, precision) with x over finite floats (edge grid, random bit patterns, values within 2 ulps of k*10^-p and of the ties (k+1/2)*10^-p) and integers, precision dense in -20..20, spread over -400..400 and at the i64/powf/i32 edges; the result must be a finite float r with |r-x| <= 10^-p + ulp(r)/2 (the half spacing is what a correctly rounded result needs, e.g. ceil(2.2e-308, 8) = 1e-8), ceil: r >= x, floor: r <= x (all decided in exact rationals), integers returned unchanged, the one-argument form equal to precision 0, and for 0 <= p <= 300 with |x|*10^p < 2^52 the result must lie on the 10^-p grid up to 1 ulp (4 ulps when 10^p is not a double). Failures carry a signature function:sub-oracle:size where size separates deviations of at most two float spacings from gross ones. (2) abs over all i64 and floats. (3) mod over integer, float and mixed operand pairs (negative, +-1, i64::MIN, zero modulus; modulus as field and as literal) against a - b*trunc(a/b) computed exactly. (4) conversions of numbers: to_int/parse_int of to_string(i), to_float/parse_float of to_string(f), to_float(i) a nearest double, to_int(f) = trunc for |f| < 2^63, to_string(f) denotes f. (5) conversions of decimal strings from an own printer: to_string(to_int(s)) == s, parse_int == to_int, integer text beyond i64 refused, to_float == parse_float == a nearest double of the exact decimal. Non-trivial = |x| not in {0,1} together with p != 0 or a result different from the input (round), x not in {0,1} (abs), operands not both in {0,+-1} (mod), value not in {0,+-1} (conversions). Distinct = distinct serialised cases.";
pub const NOTE: &str = "trusts num-bigint/num-rational and the exactness of f64 -> rational conversion; mixed integer/float `mod` is only checked exactly when the integer converts to f64 without loss; the grid sub-oracle (result is a multiple of 10^-p up to float representation) is a reading of the parameter doc `number of decimal places to round to`, asserted with a generous ulp tolerance and only where 10^p and x*10^p are far from overflow";

// ------------------------------------------------------------------------------------------
// exact helpers

fn rat(x: f64) -> BigRational {
    BigRational::from_float(x).expect("finite float")
}

fn ratio_i(i: i64) -> BigRational {
    BigRational::from_integer(BigInt::from(i))
}

/// 10^p exactly (|p| <= POW_LIMIT)
fn pow10(p: i64) -> BigRational {
    let n = num_traits::pow(BigInt::from(10), p.unsigned_abs() as usize);
    if p >= 0 {
        BigRational::from_integer(n)
    } else {
        BigRational::new(BigInt::one(), n)
    }
}

/// beyond this, 10^-p is either below every f64 spacing (p > 0) or above 2*f64::MAX (p < 0)
const POW_LIMIT: i64 = 1100;

fn next_up_abs(a: f64) -> f64 {
    // a >= 0 finite, a < MAX
    f64::from_bits(a.to_bits() + 1)
}

/// spacing of the doubles at |r| (distance to the next double away from zero)
fn ulp(r: f64) -> BigRational {
    let a = r.abs();
    if a == f64::MAX {
        return rat(2f64.powi(971));
    }
    rat(next_up_abs(a)) - rat(a)
}

fn neighbours(r: f64) -> (Option<f64>, Option<f64>) {
    // (next below, next above) among finite doubles
    let up = if r == f64::MAX {
        None
    } else if r == 0.0 {
        Some(f64::from_bits(1))
    } else if r > 0.0 {
        Some(f64::from_bits(r.to_bits() + 1))
    } else {
        Some(f64::from_bits(r.to_bits() - 1))
    };
    let down = if r == f64::MIN {
        None
    } else if r == 0.0 {
        Some(-f64::from_bits(1))
    } else if r > 0.0 {
        Some(f64::from_bits(r.to_bits() - 1))
    } else {
        Some(f64::from_bits(r.to_bits() + 1))
    };
    (down, up)
}

fn max_rat() -> BigRational {
    rat(f64::MAX)
}

fn float_of(v: &Value) -> Option<f64> {
    match v {
        Value::Float(f) => Some(f.into_inner()),
        _ => None,
    }
}

fn eval_ok(src: &str, ev: &Value) -> Result<Value, String> {
    match vrlx::eval_exact(src, ev) {
        Ok(out) => match out.end {
            End::Ok(v) => Ok(v),
            other => Err(format!("`{src}` ended with {other:?}")),
        },
        Err(e) => Err(format!("`{src}` rejected: {e}")),
    }
}

// ------------------------------------------------------------------------------------------
// (1) round / ceil / floor

#[derive(Clone, Copy, Debug, Serialize, Deserialize, PartialEq, Eq)]
pub enum RFn {
    Round,
    Ceil,
    Floor,
}

impl RFn {
    fn name(self) -> &'static str {
        match self {
            RFn::Round => "round",
            RFn::Ceil => "ceil",
            RFn::Floor => "floor",
        }
    }
}

#[derive(Clone, Debug, Serialize, Deserialize)]
pub struct RoundCase {
    pub f: RFn,
    /// `TV::Float` (finite) or `TV::Int`
    pub x: TV,
    pub p: i64,
}

/// The class of D20: the scale factor 10^p is not a normal double, or the scaled value x*10^p or
/// the exactly rounded result overflows the double range, or x*10^p underflows to zero (so that
/// the implementation's intermediate values are inf, NaN or a spurious 0).
pub fn scaling_out_of_range(f: RFn, x: f64, p: i64) -> bool {
    if !(-307..=308).contains(&p) {
        return true;
    }
    if x == 0.0 || p == 0 {
        return false;
    }
    let limit = max_rat() * BigRational::new(BigInt::from((1u64 << 40) - 1), BigInt::from(1u64 << 40));
    let scaled = rat(x) * pow10(p);
    if scaled.abs() >= limit || scaled.abs() < rat(f64::from_bits(1)) {
        // overflows, or underflows to zero although x is not zero
        return true;
    }
    let k = match f {
        RFn::Round => scaled.round(),
        RFn::Ceil => scaled.ceil(),
        RFn::Floor => scaled.floor(),
    };
    let ideal = k / pow10(p);
    ideal.abs() >= limit
}

const SW_SCALE: &str = "round_scaling_out_of_double_range";

fn check_round(c: &RoundCase, exclude_scale: bool) -> V {
    let name = c.f.name();
    let ev = vrlx::event_of(&[("x", &c.x), ("p", &TV::Int(c.p))]);
    let src = format!("{name}(.x, precision: .p)");
    match &c.x {
        TV::Int(i) => {
            let got = match eval_ok(&src, &ev) {
                Ok(v) => v,
                Err(e) => return V::fail(e),
            };
            if got != Value::Integer(*i) {
                return V::fail(format!("{name}({i}, precision: {}) returned {got}; an integer is already rounded and must come back unchanged", c.p));
            }
            V::pass().nontrivial(!matches!(*i, 0 | 1 | -1) && c.p != 0).class("int_input")
        }
        TV::Float(ft) if ft.0.is_finite() => {
            let x = ft.0;
            if exclude_scale && scaling_out_of_range(c.f, x, c.p) {
                return V::excluded(SW_SCALE);
            }
            let got = match eval_ok(&src, &ev) {
                Ok(v) => v,
                Err(e) => return V::fail(e),
            };
            let Some(r) = float_of(&got) else {
                return V::fail(format!("{name}({x:?}, precision: {}) returned the non-float {got}", c.p));
            };
            if c.p == 0 {
                // the default precision is 0: the one-argument form must agree
                match eval_ok(&format!("{name}(.x)"), &ev) {
                    Ok(v) if float_of(&v).map(f64::to_bits) == Some(r.to_bits()) => {}
                    other => return V::fail(format!("{name}({x:?}) = {other:?} but {name}({x:?}, precision: 0) = {r:?}")),
                }
            }
            let oor = scaling_out_of_range(c.f, x, c.p);
            let call = format!("{name}({x:?}, precision: {})", c.p);
            if !r.is_finite() {
                return V::fail_sig(format!("{name}:non_finite"), format!("{call} returned {r:?}; the property demands a finite result"));
            }
            let (xr, rr) = (rat(x), rat(r));
            // deviations of at most two float spacings are classified apart from gross ones
            let two_ulps = { let (a, b) = (ulp(x), ulp(r)); (if a > b { a } else { b }) * ratio_i(2) };
            let size = |excess: &BigRational| if *excess <= two_ulps { "within_2_ulps" } else { "gross" };
            let dist = (&rr - &xr).abs();
            // The exact rounded value y satisfies |y - x| <= 10^-p; the result is a double, so
            // even a correctly rounded implementation may be ulp(r)/2 away from y (e.g.
            // ceil(2.2e-308, 8) = 1e-8, whose nearest double is above 10^-8): that much slack and
            // no more.
            let half_ulp = ulp(r) / ratio_i(2);
            let excess = if c.p > POW_LIMIT {
                &dist - &half_ulp
            } else if c.p < -POW_LIMIT {
                -BigRational::one()
            } else {
                &dist - pow10(-c.p) - &half_ulp
            };
            if excess.is_positive() {
                return V::fail_sig(
                    format!("{name}:farther_than_10^-p:{}", size(&excess)),
                    format!("{call} returned {r:?}: |result - input| = {:e} exceeds 10^{} by more than half a float spacing", dist.to_f64().unwrap_or(f64::NAN), -(c.p as i128)),
                );
            }
            if c.f == RFn::Ceil && rr < xr {
                return V::fail_sig(format!("ceil:below_input:{}", size(&dist)), format!("{call} returned {r:?}, which is below its input"));
            }
            if c.f == RFn::Floor && rr > xr {
                return V::fail_sig(format!("floor:above_input:{}", size(&dist)), format!("{call} returned {r:?}, which is above its input"));
            }
            // grid: the result has (up to float representation) no digits beyond position p
            let mut on_grid_checked = false;
            if (0..=300).contains(&c.p) && !oor {
                let scale = pow10(c.p);
                if (&xr * &scale).abs() < ratio_i(1 << 52) {
                    on_grid_checked = true;
                    let k = (&rr * &scale).round();
                    let err = (&rr - k / &scale).abs();
                    let tol = ulp(r) * ratio_i(if c.p <= 22 { 1 } else { 4 });
                    if err > tol {
                        return V::fail_sig(
                            format!("{name}:off_grid"),
                            format!("{call} returned {r:?}, which is {:e} away from the nearest multiple of 10^-{} (more than float representation allows)", err.to_f64().unwrap_or(f64::NAN), c.p),
                        );
                    }
                }
            }
            let big_product = c.p.unsigned_abs() <= POW_LIMIT as u64 && (&xr * pow10(c.p)).abs() >= ratio_i(1 << 52);
            V::pass()
                .nontrivial(!(x == 0.0 || x.abs() == 1.0) && (c.p != 0 || r != x))
                .class(match c.p {
                    0 => "p_zero",
                    p if p > 0 => "p_positive",
                    _ => "p_negative",
                })
                .class_if(c.p.unsigned_abs() > 22, "|p|>22")
                .class_if(oor, "scaling_out_of_double_range")
                .class_if(on_grid_checked, "grid_checked")
                .class_if(r != x, "result_differs_from_input")
                .class_if(big_product, "|x|*10^p>=2^52")
                .class(name)
        }
        _ => V::discard("x is not a finite number"),
    }
}

const P_EDGES: &[i64] = &[
    22, 23, -22, -23, 300, 307, 308, 309, 310, 400, -300, -307, -308, -309, -310, -323, -324, -325, -400, 1074, 1100, 1101, -1100, -1101,
    2_147_483_647, -2_147_483_648, 4_294_967_296, i64::MAX, i64::MIN,
];

fn precision() -> impl Strategy<Value = i64> {
    prop_oneof![
        8 => -20i64..=20,
        3 => -400i64..=400,
        2 => -40i64..=40,
        1 => (0..P_EDGES.len()).prop_map(|i| P_EDGES[i]),
    ]
}

fn rfn() -> impl Strategy<Value = RFn> {
    prop_oneof![Just(RFn::Round), Just(RFn::Ceil), Just(RFn::Floor)]
}

fn shift_ulps(x: f64, d: i64) -> f64 {
    if !x.is_finite() {
        return x;
    }
    let y = f64::from_bits((x.to_bits() as i64).wrapping_add(d) as u64);
    if y.is_finite() && (y.is_sign_negative() == x.is_sign_negative()) {
        y
    } else {
        x
    }
}

/// x within 2 ulps of k*10^-p (h = 0) or of the tie (k + 1/2)*10^-p (h = 1)
fn near_grid() -> impl Strategy<Value = (f64, i64)> {
    let k = prop_oneof![
        4 => -1000i64..=1000,
        2 => -10_000_000i64..=10_000_000,
        1 => any::<i64>().prop_map(|v| v >> 11),
        1 => any::<i64>(),
    ];
    (k, prop_oneof![6 => -20i64..=20, 1 => -320i64..=320], 0u8..=1, -2i64..=2).prop_map(|(k, p, h, d)| {
        let q = (ratio_i(k) * ratio_i(2) + ratio_i(i64::from(h))) / ratio_i(2) / pow10(p);
        let x = q.to_f64().filter(|v| v.is_finite()).unwrap_or(k as f64);
        (shift_ulps(x, d), p)
    })
}

fn round_case() -> impl Strategy<Value = RoundCase> {
    let xp = prop_oneof![
        5 => (finite_float(), precision()),
        5 => near_grid(),
        1 => (near_grid(), precision()).prop_map(|((x, _), p)| (x, p)),
        2 => (any::<u64>().prop_map(f64::from_bits).prop_map(|x| if x.is_finite() { x } else { 1.5 }), precision()),
    ];
    prop_oneof![
        12 => (rfn(), xp).prop_map(|(f, (x, p))| RoundCase { f, x: TV::float(x), p }),
        1 => (rfn(), int(), precision()).prop_map(|(f, i, p)| RoundCase { f, x: TV::Int(i), p }),
    ]
}

// ------------------------------------------------------------------------------------------
// (2) abs

#[derive(Clone, Debug, Serialize, Deserialize)]
pub struct AbsCase {
    pub x: TV,
}

const SW_ABS_MIN: &str = "abs_of_i64_min";

fn check_abs(c: &AbsCase, exclude_min: bool) -> V {
    let ev = vrlx::event_of(&[("x", &c.x)]);
    match &c.x {
        TV::Int(i) => {
            if exclude_min && *i == i64::MIN {
                return V::excluded(SW_ABS_MIN);
            }
            let got = match eval_ok("abs(.x)", &ev) {
                Ok(v) => v,
                Err(e) => return V::fail(e),
            };
            // |i| for i > i64::MIN; the minimum integer has no magnitude in i64 and wraps to itself
            let want = if *i == i64::MIN { i64::MIN } else { BigInt::from(*i).abs().to_i64().expect("fits") };
            if got != Value::Integer(want) {
                return V::fail(format!("abs({i}) returned {got}, expected {want}"));
            }
            V::pass().nontrivial(!matches!(*i, 0 | 1)).class("int").class_if(*i < 0, "negative").class_if(*i == i64::MIN, "i64_min")
        }
        TV::Float(ft) => {
            let x = ft.0;
            let got = match eval_ok("abs(.x)", &ev) {
                Ok(v) => v,
                Err(e) => return V::fail(e),
            };
            let Some(r) = float_of(&got) else { return V::fail(format!("abs({x:?}) returned the non-float {got}")) };
            let want = f64::from_bits(x.to_bits() & !(1u64 << 63));
            if r.to_bits() != want.to_bits() {
                return V::fail(format!("abs({x:?}) returned {r:?}, expected {want:?} (sign cleared, magnitude untouched)"));
            }
            V::pass().nontrivial(!(x == 0.0 || x == 1.0)).class("float").class_if(x.is_sign_negative(), "negative").class_if(!x.is_finite(), "infinite")
        }
        _ => V::discard("not a number"),
    }
}

fn abs_case() -> impl Strategy<Value = AbsCase> {
    prop_oneof![
        3 => int().prop_map(TV::Int),
        1 => any::<i64>().prop_map(TV::Int),
        3 => crate::gens::value::float().prop_map(TV::float),
        1 => any::<u64>().prop_map(f64::from_bits).prop_map(|x| TV::float(if x.is_nan() { -0.0 } else { x })),
    ]
    .prop_map(|x| AbsCase { x })
}

// ------------------------------------------------------------------------------------------
// (3) mod

#[derive(Clone, Debug, Serialize, Deserialize)]
pub struct ModCase {
    pub a: TV,
    pub b: TV,
    /// modulus written as a literal in the source (when it has one) instead of an event field
    pub lit: bool,
}

fn exact_of(t: &TV) -> Option<(BigRational, bool)> {
    // (exact value as the implementation's float conversion sees it, conversion was lossless)
    match t {
        TV::Int(i) => Some((ratio_i(*i), true)),
        TV::Float(f) if f.0.is_finite() => Some((rat(f.0), true)),
        _ => None,
    }
}

fn check_mod(c: &ModCase) -> V {
    let (Some((mut a, _)), Some((mut b, _))) = (exact_of(&c.a), exact_of(&c.b)) else { return V::discard("operand is not a finite number") };
    let both_int = matches!((&c.a, &c.b), (TV::Int(_), TV::Int(_)));
    let mut lossy = false;
    if !both_int {
        // a float operation: an integer operand is converted to the nearest double first
        for (t, q) in [(&c.a, &mut a), (&c.b, &mut b)] {
            if let TV::Int(i) = t {
                let f = *i as f64;
                if rat(f) != *q {
                    lossy = true;
                    *q = rat(f);
                }
            }
        }
    }
    let ev = vrlx::event_of(&[("a", &c.a), ("b", &c.b)]);
    let lit = if c.lit { vrlx::literal(&c.b) } else { None };
    let marg = lit.clone().unwrap_or_else(|| ".b".to_string());
    // a literal non-zero modulus makes the call infallible (then `!` is rejected)
    let out = match vrlx::eval_exact(&format!("mod(.a, {marg})"), &ev) {
        Ok(o) => o,
        Err(_) => match vrlx::eval_exact(&format!("mod!(.a, {marg})"), &ev) {
            Ok(o) => o,
            Err(e) => return V::fail(format!("mod(.a, {marg}) rejected with and without `!`: {e}")),
        },
    };
    let call = format!("mod({:?}, {:?})", c.a, c.b);
    if b.is_zero() {
        return match out.end {
            End::Error(_) => V::pass().nontrivial(true).class("zero_modulus").class_if(lit.is_some(), "literal_modulus"),
            other => V::fail(format!("{call}: a zero modulus must be an error, got {other:?}")),
        };
    }
    let got = match out.end {
        End::Ok(v) => v,
        other => return V::fail(format!("{call}: non-zero modulus and finite operands, but the call ended with {other:?}")),
    };
    let want = &a - &b * (&a / &b).trunc();
    let got_exact = match &got {
        Value::Integer(i) if both_int => ratio_i(*i),
        Value::Float(f) if !both_int && f.is_finite() => rat(f.into_inner()),
        other => return V::fail(format!("{call} returned {other} (integer operands give an integer, anything else a finite float)")),
    };
    let mut v = V::pass();
    if lossy {
        // the statement does not say how an integer beyond 2^53 meets a float: only the sign rule
        // and the magnitude bound are asserted
        if (got_exact.is_negative() && a.is_positive()) || (got_exact.is_positive() && a.is_negative()) {
            return V::fail(format!("{call} returned {got}: a remainder takes the sign of the dividend"));
        }
        v = v.class("mixed_lossy_int_sign_only");
    } else {
        if got_exact != want {
            return V::fail(format!("{call} returned {got}, exact truncated remainder is {}", want.to_f64().unwrap_or(f64::NAN)));
        }
        if (want.is_negative() && !a.is_negative()) || (want.is_positive() && !a.is_positive()) || want.abs() >= b.abs() {
            return V::fail(format!("oracle self-check failed for {call}"));
        }
    }
    let small = |q: &BigRational| q.is_zero() || q.abs().is_one();
    v.nontrivial(!(small(&a) && small(&b)))
        .class(if both_int { "int_int" } else if matches!((&c.a, &c.b), (TV::Float(_), TV::Float(_))) { "float_float" } else { "mixed" })
        .class_if(a.is_negative() != b.is_negative(), "operands_differ_in_sign")
        .class_if(!want.is_zero(), "non_zero_remainder")
        .class_if(a.is_negative() && !want.is_zero(), "negative_remainder")
        .class_if(lit.is_some(), "literal_modulus")
        .class_if(matches!(c.a, TV::Int(i64::MIN)) || matches!(c.b, TV::Int(i64::MIN)), "i64_min_operand")
}

fn mod_case() -> impl Strategy<Value = ModCase> {
    let small = || prop_oneof![3 => -12i64..=12, 1 => Just(1i64), 1 => Just(-1i64), 1 => Just(0i64)];
    let iop = move || prop_oneof![3 => int(), 3 => small(), 1 => any::<i64>(), 1 => Just(i64::MIN)].prop_map(TV::Int);
    let fop = || {
        prop_oneof![
            3 => finite_float(),
            3 => (-2000i64..=2000, 0u32..=3).prop_map(|(m, e)| m as f64 / 10f64.powi(e as i32)),
            1 => any::<u64>().prop_map(f64::from_bits).prop_map(|x| if x.is_finite() { x } else { 2.5 }),
            1 => prop_oneof![Just(0.0f64), Just(-0.0f64), Just(1.0f64), Just(-1.0f64)],
        ]
        .prop_map(TV::float)
    };
    let pair = prop_oneof![
        4 => (iop(), iop()),
        4 => (fop(), fop()),
        1 => (iop(), fop()),
        1 => (fop(), iop()),
        // multiples and near-multiples
        2 => (small(), small(), -2i64..=2).prop_map(|(q, b, d)| (TV::Int(q.wrapping_mul(b).wrapping_add(d)), TV::Int(b))),
        1 => (-50i64..=50, finite_float(), -1i64..=1).prop_map(|(q, b, d)| (TV::float(shift_ulps(q as f64 * b, d)).fin(), TV::float(b))),
    ];
    (pair, any::<bool>()).prop_map(|((a, b), lit)| ModCase { a, b, lit })
}

trait Fin {
    fn fin(self) -> Self;
}
impl Fin for TV {
    fn fin(self) -> TV {
        match self {
            TV::Float(f) if !f.0.is_finite() => TV::float(if f.0 > 0.0 { f64::MAX } else { f64::MIN }),
            t => t,
        }
    }
}

// ------------------------------------------------------------------------------------------
// (4) conversions of numbers

#[derive(Clone, Debug, Serialize, Deserialize)]
pub struct NumCase {
    pub x: TV,
}

fn check_num_conv(c: &NumCase) -> V {
    let ev = vrlx::event_of(&[("x", &c.x)]);
    match &c.x {
        TV::Int(i) => {
            let src = "s = to_string(.x); [s, to_int!(s), parse_int!(s), parse_int!(s, 10), to_float(.x), to_int(.x), to_float!(s)]";
            let got = match eval_ok(src, &ev) {
                Ok(v) => v,
                Err(e) => return V::fail(e),
            };
            let arr = got.as_array().map(|a| a.to_vec()).unwrap_or_default();
            if arr.len() != 7 {
                return V::fail(format!("unexpected result {got}"));
            }
            let text = BigInt::from(*i).to_string();
            if arr[0] != Value::from(text.as_str()) {
                return V::fail(format!("to_string({i}) returned {}, expected the decimal text {text:?}", arr[0]));
            }
            for (k, what) in [(1, "to_int!(to_string(i))"), (2, "parse_int!(to_string(i))"), (3, "parse_int!(to_string(i), 10)"), (5, "to_int(i)")] {
                if arr[k] != Value::Integer(*i) {
                    return V::fail(format!("{what} for i = {i} returned {}, expected {i}", arr[k]));
                }
            }
            // to_float(i): the double nearest to i (a nearest one at ties)
            for (k, what) in [(4, "to_float(i)"), (6, "to_float!(to_string(i))")] {
                let Some(f) = float_of(&arr[k]).filter(|f| f.is_finite()) else { return V::fail(format!("{what} for i = {i} returned {}", arr[k])) };
                if let Err(e) = is_nearest(f, &ratio_i(*i)) {
                    return V::fail(format!("{what} for i = {i} returned {f:?}: {e}"));
                }
            }
            if arr[4] != arr[6] {
                return V::fail(format!("to_float({i}) = {} but to_float!(to_string({i})) = {}", arr[4], arr[6]));
            }
            V::pass().nontrivial(!matches!(*i, 0 | 1 | -1)).class("int").class_if(i.unsigned_abs() > (1 << 53), "beyond_2^53").class_if(*i < 0, "negative")
        }
        TV::Float(ft) if ft.0.is_finite() => {
            let x = ft.0;
            let src = "s = to_string(.x); [s, to_float!(s), parse_float!(s), to_int(.x), to_float(.x)]";
            let got = match eval_ok(src, &ev) {
                Ok(v) => v,
                Err(e) => return V::fail(e),
            };
            let arr = got.as_array().map(|a| a.to_vec()).unwrap_or_default();
            if arr.len() != 5 {
                return V::fail(format!("unexpected result {got}"));
            }
            let text = arr[0].as_str().map(|s| s.to_string()).unwrap_or_default();
            for (k, what) in [(1, "to_float!(to_string(f))"), (2, "parse_float!(to_string(f))"), (4, "to_float(f)")] {
                match float_of(&arr[k]) {
                    Some(r) if r == x => {}
                    _ => return V::fail(format!("{what} for f = {x:?} returned {} (to_string gave {text:?}), expected {x:?}", arr[k])),
                }
            }
            // the text itself must denote x: plain decimal digits whose exact value rounds to x
            match parse_decimal(&text) {
                Some(q) => {
                    if let Err(e) = is_nearest(x, &q) {
                        return V::fail(format!("to_string({x:?}) returned {text:?}, which does not denote the float: {e}"));
                    }
                }
                None => return V::fail(format!("to_string({x:?}) returned {text:?}, which is not a decimal number")),
            }
            let mut v = V::pass();
            let xr = rat(x);
            let two63 = BigRational::from_integer(BigInt::one() << 63);
            if xr.abs() < two63 {
                let want = xr.trunc().to_integer().to_i64().expect("|x| < 2^63");
                if arr[3] != Value::Integer(want) {
                    return V::fail(format!("to_int({x:?}) returned {}, expected the truncation {want}", arr[3]));
                }
                v = v.class("to_int_truncation_checked").class_if(!xr.is_integer(), "has_fraction");
            } else {
                if !matches!(arr[3], Value::Integer(_)) {
                    return V::fail(format!("to_int({x:?}) returned {}", arr[3]));
                }
                v = v.class("beyond_i64_range_unchecked");
            }
            v.nontrivial(!(x == 0.0 || x.abs() == 1.0)).class("float").class_if(x < 0.0, "negative").class_if(text.len() > 40, "long_text")
        }
        _ => V::discard("not a finite number"),
    }
}

/// `r` is a double nearest to the exact value `q` (either neighbour at an exact tie)
fn is_nearest(r: f64, q: &BigRational) -> Result<(), String> {
    let d = (rat(r) - q).abs();
    let (down, up) = neighbours(r);
    for n in [down, up].into_iter().flatten() {
        if (rat(n) - q).abs() < d {
            return Err(format!("{n:?} is closer to the exact value"));
        }
    }
    Ok(())
}

/// exact value of `-?digits[.digits][e[+-]digits]`
fn parse_decimal(s: &str) -> Option<BigRational> {
    let (neg, rest) = match s.strip_prefix('-') {
        Some(r) => (true, r),
        None => (false, s),
    };
    let (mant, exp) = match rest.find(['e', 'E']) {
        Some(i) => (&rest[..i], rest[i + 1..].parse::<i64>().ok()?),
        None => (rest, 0),
    };
    if exp.abs() > POW_LIMIT {
        return None;
    }
    let (ip, fp) = match mant.find('.') {
        Some(i) => (&mant[..i], &mant[i + 1..]),
        None => (mant, ""),
    };
    if ip.is_empty() || !ip.bytes().all(|b| b.is_ascii_digit()) || !fp.bytes().all(|b| b.is_ascii_digit()) || (mant.contains('.') && fp.is_empty()) {
        return None;
    }
    let digits: BigInt = format!("{ip}{fp}").parse().ok()?;
    let mut q = BigRational::from_integer(digits) / pow10(fp.len() as i64) * pow10(exp);
    if neg {
        q = -q;
    }
    Some(q)
}

fn num_case() -> impl Strategy<Value = NumCase> {
    prop_oneof![
        3 => int().prop_map(TV::Int),
        2 => any::<i64>().prop_map(TV::Int),
        3 => finite_float().prop_map(TV::float),
        2 => any::<u64>().prop_map(f64::from_bits).prop_map(|x| TV::float(if x.is_finite() { x } else { 0.1 })),
        1 => (int(), -3i64..=3).prop_map(|(i, d)| TV::float(shift_ulps(i as f64, d))),
        1 => (-100_000i64..=100_000, 0u32..=6).prop_map(|(m, e)| TV::float(m as f64 / 10f64.powi(e as i32))),
    ]
    .prop_map(|x| NumCase { x })
}

// ------------------------------------------------------------------------------------------
// (5) conversions of decimal strings (own printer)

#[derive(Clone, Debug, Serialize, Deserialize)]
pub struct StrCase {
    pub s: String,
}

fn check_str_conv(c: &StrCase) -> V {
    let Some(q) = parse_decimal(&c.s) else { return V::discard("not a decimal string of the generated shape") };
    let ev = vrlx::event_of(&[("s", &TV::str(&c.s))]);
    let canonical_int = {
        let body = c.s.strip_prefix('-').unwrap_or(&c.s);
        !body.is_empty() && body.bytes().all(|b| b.is_ascii_digit()) && (body == "0" || !body.starts_with('0')) && c.s != "-0"
    };
    let as_i64 = if canonical_int { q.to_integer().to_i64() } else { None };
    let mut v = V::pass();
    // floats: to_float and parse_float agree and give a nearest double
    let got = match eval_ok("[to_float!(.s), parse_float!(.s)]", &ev) {
        Ok(g) => g,
        Err(e) => return V::fail(e),
    };
    let arr = got.as_array().map(|a| a.to_vec()).unwrap_or_default();
    if arr.len() != 2 || arr[0] != arr[1] {
        return V::fail(format!("to_float!({:?}) and parse_float!({:?}) disagree: {got}", c.s, c.s));
    }
    let Some(f) = float_of(&arr[0]) else { return V::fail(format!("to_float!({:?}) returned {}", c.s, arr[0])) };
    if f.is_finite() {
        if let Err(e) = is_nearest(f, &q) {
            return V::fail(format!("to_float!({:?}) returned {f:?}: {e}", c.s));
        }
    } else if q.abs() < max_rat() {
        return V::fail(format!("to_float!({:?}) returned {f:?} although the value is inside the double range", c.s));
    } else {
        v = v.class("overflows_to_infinity");
    }
    if let Some(i) = as_i64 {
        let got = match eval_ok("i = to_int!(.s); [i, parse_int!(.s), parse_int!(.s, 10), to_string(i)]", &ev) {
            Ok(g) => g,
            Err(e) => return V::fail(e),
        };
        let arr = got.as_array().map(|a| a.to_vec()).unwrap_or_default();
        if arr.len() != 4 {
            return V::fail(format!("unexpected result {got}"));
        }
        for (k, what) in [(0, "to_int!(s)"), (1, "parse_int!(s)"), (2, "parse_int!(s, 10)")] {
            if arr[k] != Value::Integer(i) {
                return V::fail(format!("{what} for s = {:?} returned {}, expected {i}", c.s, arr[k]));
            }
        }
        if arr[3] != Value::from(c.s.as_str()) {
            return V::fail(format!("to_string(to_int!({:?})) returned {}", c.s, arr[3]));
        }
        v = v.class("canonical_integer");
    } else if canonical_int {
        // canonical integer text outside i64: both integer parsers must refuse it
        let out = vrlx::eval_exact("[to_int(.s) ?? \"err\", parse_int(.s) ?? \"err\"]", &ev);
        match out {
            Ok(o) => match o.end.value() {
                Some(val) if *val == Value::Array(vec![Value::from("err"), Value::from("err")]) => {}
                other => return V::fail(format!("integer text {:?} is outside i64 but was converted: {other:?}", c.s)),
            },
            Err(e) => return V::fail(format!("program rejected: {e}")),
        }
        v = v.class("integer_text_beyond_i64");
    }
    v.nontrivial(!(q.is_zero() || q.abs().is_one()))
        .class_if(c.s.contains('.'), "fraction")
        .class_if(c.s.contains('e'), "exponent")
        .class_if(c.s.len() > 25, "long")
}

fn digits(max: usize) -> impl Strategy<Value = String> {
    proptest::collection::vec(0u8..10, 1..=max).prop_map(|v| v.into_iter().map(|d| (b'0' + d) as char).collect())
}

fn str_case() -> impl Strategy<Value = StrCase> {
    let canon = |s: String| {
        let t = s.trim_start_matches('0');
        if t.is_empty() { "0".to_string() } else { t.to_string() }
    };
    let sign = |neg: bool, s: String| if neg && s != "0" { format!("-{s}") } else { s };
    prop_oneof![
        // canonical integers: i64 values, edges, and 19-20 digit strings around the i64 limits
        3 => int().prop_map(|i| i.to_string()),
        2 => any::<i64>().prop_map(|i| i.to_string()),
        1 => (any::<bool>(), digits(21)).prop_map(move |(n, d)| sign(n, canon(d))),
        1 => (any::<bool>(), -3i128..=3).prop_map(|(n, d)| { let v = if n { i128::from(i64::MIN) } else { i128::from(i64::MAX) } + d; v.to_string() }),
        // decimals with a fraction
        3 => (any::<bool>(), digits(18), digits(20)).prop_map(move |(n, a, b)| format!("{}{}.{}", if n { "-" } else { "" }, canon(a), b)),
        1 => (any::<bool>(), digits(40), digits(40)).prop_map(move |(n, a, b)| format!("{}{}.{}", if n { "-" } else { "" }, canon(a), b)),
        // exponent forms
        2 => (any::<bool>(), digits(17), digits(17), -340i64..=320).prop_map(move |(n, a, b, e)| format!("{}{}.{}e{}", if n { "-" } else { "" }, canon(a), b, e)),
        1 => (any::<bool>(), digits(19), -30i64..=30).prop_map(move |(n, a, e)| format!("{}{}e{}", if n { "-" } else { "" }, canon(a), e)),
    ]
    .prop_map(|s| StrCase { s })
}

// ------------------------------------------------------------------------------------------

pub fn run(r: &mut Run) {
    let search = !r.is_replay();
    let ex_scale = search && r.excluded(SW_SCALE);
    let ex_abs = search && r.excluded(SW_ABS_MIN);

    // deterministic grid: the reproducers of DESIGN.md D20/D11 and the documented examples' kin
    let mut grid = Vec::new();
    for f in [RFn::Round, RFn::Ceil, RFn::Floor] {
        for x in [0.0, -0.0, 0.5, 1.5, 2.5, -0.5, -1.5, 0.1, 0.15, 0.25, 1.005, 4.35, 123.456, 1234.5678, -1234.5678, 5e-324, 1e15, 4503599627370495.5, 1e22, 1.5e300, f64::MAX, f64::MIN, f64::MIN_POSITIVE] {
            for p in [0i64, 1, 2, 3, 5, 15, 16, 17, 22, 23, -1, -2, -3, -15, -22, -23, 300, 308, -300, -307] {
                grid.push(RoundCase { f, x: TV::float(x), p });
            }
        }
        for i in [0i64, 1, -1, 15, -15, 1234, i64::MAX, i64::MIN] {
            for p in [0i64, 1, -1, 3, -3, 400, -400] {
                grid.push(RoundCase { f, x: TV::Int(i), p });
            }
        }
    }
    r.enumerate("round_grid", grid, move |c| check_round(c, ex_scale));
    r.sub("round_ceil_floor", 300_000, 30_000_000, round_case, move |c| check_round(c, ex_scale));
    r.sub("abs", 40_000, 4_000_000, abs_case, move |c| check_abs(c, ex_abs));
    r.sub("mod", 120_000, 12_000_000, mod_case, check_mod);
    r.sub("number_conversions", 60_000, 6_000_000, num_case, check_num_conv);
    r.sub("string_conversions", 60_000, 6_000_000, str_case, check_str_conv);
}
