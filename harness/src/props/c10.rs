//! C10 — comparisons are consistent; integer equality is exact.

use std::cmp::Ordering;

use proptest::prelude::*;
use serde::{Deserialize, Serialize};
use vrl::compiler::value::VrlValueArithmetic;
use vrl::value::Value;

use crate::engine::{Run, V};
use crate::gens::value::{float, int, raw_bytes, timestamp, value, FULL, INT_EDGES, TV};
use crate::vrlx;

pub const RULE: &str = "cases = pairs (a, b) of one comparable kind — integers (exhaustive edge grid x edge grid, random i64 pairs, pairs at distance <=2 around 2^53..2^63), non-NaN floats (edge grid, neighbours by ulp, infinities, signed zeros), byte strings (prefixes of each other, bytes >= 0x80, invalid UTF-8), timestamps (equal seconds / different nanos) —, mixed integer/float pairs, and structured values (a tree and a copy with one leaf changed). Each pair is evaluated through a compiled VRL program `[.a < .b, .a <= .b, .a == .b, .a != .b, .a >= .b, .a > .b]` with exact field kinds, through the same program with literal operands where the values have literals, and through the value-level comparison API; results are compared with an independent ordering model. Non-trivial = operands differ, or are equal with different representations (-0.0/0.0, separately built equal containers). Distinct = distinct serialised pairs.";
pub const NOTE: &str = "trusts Rust's i64/f64/slice orderings as the independent model; mixed integer/float pairs only assert what the statement gives (`!=` negates `==`, `==` symmetric and equal to the float comparison of the converted integer)";

#[derive(Clone, Debug, Serialize, Deserialize)]
pub struct Pair {
    pub a: TV,
    pub b: TV,
}

const SRC: &str = "[.a < .b, .a <= .b, .a == .b, .a != .b, .a >= .b, .a > .b]";

fn model_cmp(a: &TV, b: &TV) -> Option<Ordering> {
    match (a, b) {
        (TV::Int(x), TV::Int(y)) => Some(x.cmp(y)),
        (TV::Float(x), TV::Float(y)) => x.0.partial_cmp(&y.0),
        (TV::Ts { s: s1, n: n1 }, TV::Ts { s: s2, n: n2 }) => Some((s1, n1).cmp(&(s2, n2))),
        (x, y) => match (x.as_bytes(), y.as_bytes()) {
            (Some(p), Some(q)) => Some(p.as_slice().cmp(q.as_slice())),
            _ => None,
        },
    }
}

fn expect_six(o: Ordering) -> [bool; 6] {
    let (lt, eq, gt) = (o == Ordering::Less, o == Ordering::Equal, o == Ordering::Greater);
    [lt, lt || eq, eq, !eq, gt || eq, gt]
}

fn bools(v: &Value) -> Option<[bool; 6]> {
    let arr = v.as_array()?;
    if arr.len() != 6 {
        return None;
    }
    let mut out = [false; 6];
    for (i, x) in arr.iter().enumerate() {
        out[i] = x.as_boolean()?;
    }
    Some(out)
}

fn api_six(a: &Value, b: &Value) -> Result<[bool; 6], String> {
    let g = |r: Result<Value, vrl::compiler::value::ValueError>| -> Result<bool, String> {
        r.map_err(|e| e.to_string())?.as_boolean().ok_or_else(|| "non-boolean comparison result".to_string())
    };
    Ok([
        g(a.clone().try_lt(b.clone()))?,
        g(a.clone().try_le(b.clone()))?,
        a.eq_lossy(b),
        !a.eq_lossy(b),
        g(a.clone().try_ge(b.clone()))?,
        g(a.clone().try_gt(b.clone()))?,
    ])
}

fn eval_fields(a: &TV, b: &TV) -> Result<[bool; 6], String> {
    let ev = vrlx::event_of(&[("a", a), ("b", b)]);
    let out = vrlx::eval_exact(SRC, &ev).map_err(|e| format!("comparison program rejected: {e}"))?;
    match &out.end {
        vrlx::End::Ok(v) => bools(v).ok_or_else(|| format!("unexpected result {v}")),
        other => Err(format!("comparison program ended with {other:?}")),
    }
}

fn eval_literals(a: &TV, b: &TV) -> Option<Result<[bool; 6], String>> {
    let (la, lb) = (vrlx::literal(a)?, vrlx::literal(b)?);
    let src = format!("[{la} < {lb}, {la} <= {lb}, {la} == {lb}, {la} != {lb}, {la} >= {lb}, {la} > {lb}]");
    Some(match vrlx::eval(&src, &vrlx::empty_object()) {
        Ok(out) => match &out.end {
            vrlx::End::Ok(v) => bools(v).ok_or_else(|| format!("unexpected result {v}")),
            other => Err(format!("literal comparison program `{src}` ended with {other:?}")),
        },
        Err(e) => Err(format!("literal comparison program `{src}` rejected: {e}")),
    })
}

fn check_same_kind(p: &Pair) -> V {
    let Some(ord) = model_cmp(&p.a, &p.b) else { return V::discard("not a same-kind comparable pair") };
    let want = expect_six(ord);
    let names = ["<", "<=", "==", "!=", ">=", ">"];
    let describe = |got: [bool; 6], how: &str| -> Option<String> {
        (0..6).find(|i| got[*i] != want[*i]).map(|i| format!("{how}: {:?} {} {:?} gave {}, expected {}", p.a, names[i], p.b, got[i], want[i]))
    };
    match eval_fields(&p.a, &p.b) {
        Ok(got) => {
            if let Some(m) = describe(got, "compiled, event fields") {
                return V::fail(m);
            }
        }
        Err(e) => return V::fail(e),
    }
    let mut lit = false;
    if let Some(r) = eval_literals(&p.a, &p.b) {
        lit = true;
        match r {
            Ok(got) => {
                if let Some(m) = describe(got, "compiled, literals") {
                    return V::fail(m);
                }
            }
            Err(e) => return V::fail(e),
        }
    }
    match api_six(&p.a.to_value(), &p.b.to_value()) {
        Ok(got) => {
            if let Some(m) = describe(got, "value API") {
                return V::fail(m);
            }
        }
        Err(e) => return V::fail(format!("value API comparison failed: {e}")),
    }
    let big = |t: &TV| matches!(t, TV::Int(i) if i.unsigned_abs() > (1u64 << 53));
    let repr_differs = p.a != p.b;
    V::pass()
        .nontrivial(ord != Ordering::Equal || repr_differs)
        .class_if(lit, "also_as_literals")
        .class_if(big(&p.a) && big(&p.b), "ints_beyond_2^53")
        .class(match p.a {
            TV::Int(_) => "int",
            TV::Float(_) => "float",
            TV::Ts { .. } => "timestamp",
            _ => "bytes",
        })
        .class(match ord {
            Ordering::Less => "lt",
            Ordering::Equal => "eq",
            Ordering::Greater => "gt",
        })
}

fn check_mixed(p: &Pair) -> V {
    let (i, f) = match (&p.a, &p.b) {
        (TV::Int(i), TV::Float(f)) | (TV::Float(f), TV::Int(i)) => (*i, f.0),
        _ => return V::discard("not an int/float pair"),
    };
    let want_eq = (i as f64) == f;
    for (x, y) in [(&p.a, &p.b), (&p.b, &p.a)] {
        match eval_fields(x, y) {
            Ok(got) => {
                if got[2] != want_eq {
                    return V::fail(format!("{x:?} == {y:?} gave {}, float comparison of the converted integer gives {want_eq}", got[2]));
                }
                if got[3] == got[2] {
                    return V::fail(format!("{x:?} != {y:?} is not the negation of =="));
                }
            }
            Err(e) => return V::fail(e),
        }
        let (vx, vy) = (x.to_value(), y.to_value());
        if vx.eq_lossy(&vy) != want_eq {
            return V::fail(format!("value API: {x:?} == {y:?} gave {}, expected {want_eq}", !want_eq));
        }
    }
    V::pass().nontrivial(true).class_if(want_eq, "equal").class_if(i.unsigned_abs() > (1u64 << 53), "int_beyond_2^53")
}

/// structural equality model; `None` where the statement leaves the answer open (an integer
/// leaf against a float leaf)
fn model_struct_eq(a: &TV, b: &TV) -> Option<bool> {
    Some(match (a, b) {
        (TV::Int(_), TV::Float(_)) | (TV::Float(_), TV::Int(_)) => return None,
        (TV::Float(x), TV::Float(y)) => x.0 == y.0,
        (TV::Array(x), TV::Array(y)) => {
            if x.len() != y.len() {
                return Some(false);
            }
            let mut all = true;
            for (p, q) in x.iter().zip(y) {
                all &= model_struct_eq(p, q)?;
            }
            all
        }
        (TV::Object(x), TV::Object(y)) => {
            if x.len() != y.len() || !x.keys().eq(y.keys()) {
                return Some(false);
            }
            let mut all = true;
            for (p, q) in x.values().zip(y.values()) {
                all &= model_struct_eq(p, q)?;
            }
            all
        }
        (TV::Regex(x), TV::Regex(y)) => x == y,
        (x, y) => match (x.as_bytes(), y.as_bytes()) {
            (Some(p), Some(q)) => p == q,
            _ => x == y,
        },
    })
}

fn check_struct(p: &Pair) -> V {
    if !(p.a.is_container() || p.b.is_container()) {
        return V::discard("no container");
    }
    let Some(want) = model_struct_eq(&p.a, &p.b) else { return V::discard("int leaf against float leaf: unspecified") };
    let ev = vrlx::event_of(&[("a", &p.a), ("b", &p.b)]);
    match vrlx::eval_exact("[.a == .b, .a != .b, .b == .a]", &ev) {
        Ok(out) => match out.end.value().and_then(|v| v.as_array().map(|a| a.to_vec())) {
            Some(arr) if arr.len() == 3 => {
                let g: Vec<Option<bool>> = arr.iter().map(Value::as_boolean).collect();
                if g[0] != Some(want) || g[1] != Some(!want) || g[2] != Some(want) {
                    return V::fail(format!("structural ==: got {g:?}, model says equal={want} for {:?} vs {:?}", p.a, p.b));
                }
            }
            _ => return V::fail(format!("equality program ended with {:?}", out.end)),
        },
        Err(e) => return V::fail(format!("equality program rejected: {e}")),
    }
    V::pass().nontrivial(true).class_if(want, "equal").class_if(!want, "different")
}

fn near_pair() -> impl Strategy<Value = (i64, i64)> {
    (53u32..=63, any::<bool>(), -2i64..=2, -2i64..=2).prop_map(|(sh, neg, d1, d2)| {
        let base = if sh == 63 { i64::MAX } else { 1i64 << sh };
        let a = base.wrapping_add(d1);
        let b = base.wrapping_add(d2);
        if neg {
            (a.wrapping_neg(), b.wrapping_neg())
        } else {
            (a, b)
        }
    })
}

fn int_pair() -> impl Strategy<Value = Pair> {
    prop_oneof![
        3 => (int(), int()).prop_map(|(a, b)| (a, b)),
        3 => near_pair(),
        1 => (any::<i64>(), -2i64..=2).prop_map(|(a, d)| (a, a.wrapping_add(d))),
        1 => any::<i64>().prop_map(|a| (a, a)),
    ]
    .prop_map(|(a, b)| Pair { a: TV::Int(a), b: TV::Int(b) })
}

fn float_pair() -> impl Strategy<Value = Pair> {
    prop_oneof![
        3 => (float(), float()),
        2 => (float(), -2i64..=2).prop_map(|(x, d)| {
            if !x.is_finite() { return (x, x); }
            let y = f64::from_bits((x.to_bits() as i64).wrapping_add(d) as u64);
            (x, if y.is_nan() { x } else { y })
        }),
        1 => float().prop_map(|x| (x, -x)),
    ]
    .prop_map(|(a, b)| Pair { a: TV::float(a), b: TV::float(b) })
}

fn bytes_pair() -> impl Strategy<Value = Pair> {
    prop_oneof![
        2 => (raw_bytes(10), raw_bytes(10)),
        2 => (raw_bytes(10), 0usize..=10).prop_map(|(a, n)| { let b = a[..n.min(a.len())].to_vec(); (a, b) }),
        2 => (raw_bytes(8), any::<u8>()).prop_map(|(a, x)| { let mut b = a.clone(); b.push(x); (a, b) }),
        1 => (raw_bytes(8), any::<u8>(), any::<u16>()).prop_map(|(a, x, i)| {
            let mut b = a.clone();
            if !b.is_empty() { let k = (i as usize * b.len()) >> 16; b[k] = x; }
            (a, b)
        }),
    ]
    .prop_map(|(a, b)| Pair { a: TV::bytes(&a), b: TV::bytes(&b) })
}

fn ts_pair() -> impl Strategy<Value = Pair> {
    prop_oneof![
        2 => (timestamp(), timestamp()),
        2 => (timestamp(), 0u32..1_000_000_000).prop_map(|((s, n), m)| ((s, n), (s, m))),
        1 => (timestamp(), -1i64..=1).prop_map(|((s, n), d)| ((s, n), ((s + d).clamp(crate::gens::value::TS_MIN, crate::gens::value::TS_MAX), n))),
    ]
    .prop_map(|((s1, n1), (s2, n2))| Pair { a: TV::Ts { s: s1, n: n1 }, b: TV::Ts { s: s2, n: n2 } })
}

fn mutate_leaf(v: &TV, sel: &mut u32, with: &TV) -> TV {
    match v {
        TV::Array(a) if !a.is_empty() => {
            let k = (*sel as usize) % a.len();
            *sel /= 7;
            let mut b = a.clone();
            b[k] = mutate_leaf(&a[k], sel, with);
            TV::Array(b)
        }
        TV::Object(o) if !o.is_empty() => {
            let k = (*sel as usize) % o.len();
            *sel /= 7;
            let key = o.keys().nth(k).unwrap().clone();
            let mut b = o.clone();
            b.insert(key.clone(), mutate_leaf(&o[&key], sel, with));
            TV::Object(b)
        }
        _ => with.clone(),
    }
}

fn struct_pair() -> impl Strategy<Value = Pair> {
    (value(FULL, 3), any::<u32>(), value(FULL, 1), 0u8..4).prop_map(|(a, sel, with, mode)| {
        let b = match mode {
            0 => a.clone(),
            _ => {
                let mut s = sel;
                mutate_leaf(&a, &mut s, &with)
            }
        };
        Pair { a, b }
    })
}

pub fn run(r: &mut Run) {
    // exhaustive integer edge grid (independent of the seed)
    let mut grid = Vec::new();
    for a in INT_EDGES {
        for b in INT_EDGES {
            grid.push(Pair { a: TV::Int(*a), b: TV::Int(*b) });
        }
    }
    r.enumerate("int_edge_grid", grid, check_same_kind);
    r.sub("int_pairs", 60_000, 6_000_000, int_pair, check_same_kind);
    r.sub("float_pairs", 50_000, 5_000_000, float_pair, check_same_kind);
    r.sub("bytes_pairs", 40_000, 4_000_000, bytes_pair, check_same_kind);
    r.sub("timestamp_pairs", 30_000, 3_000_000, ts_pair, check_same_kind);
    r.sub(
        "mixed_int_float",
        40_000,
        4_000_000,
        || {
            prop_oneof![
                2 => (int(), float()).prop_map(|(i, f)| (i, f)),
                2 => int().prop_map(|i| (i, i as f64)),
                1 => (int(), -2i64..=2).prop_map(|(i, d)| {
                    let f = i as f64;
                    let g = f64::from_bits((f.to_bits() as i64).wrapping_add(d) as u64);
                    (i, if g.is_nan() { f } else { g })
                }),
            ]
            .prop_flat_map(|(i, f)| any::<bool>().prop_map(move |swap| if swap { Pair { a: TV::float(f), b: TV::Int(i) } } else { Pair { a: TV::Int(i), b: TV::float(f) } }))
        },
        check_mixed,
    );
    r.sub("structured_eq", 40_000, 4_000_000, struct_pair, check_struct);
}
