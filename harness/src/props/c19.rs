//! C19 — type abstraction is sound for path operations and merging.

use proptest::prelude::*;
use serde::{Deserialize, Serialize};
use vrl::value::{Kind, Value};

use crate::engine::{Run, V};
use crate::gens::kind::{kd, kind_member_mix, value_of, KD, UK};
use crate::gens::path::{path, to_owned_path, Seg, SegPath};
use crate::gens::value::TV;
use crate::model::member::{admits_undefined, member, member_opt, why_not};

pub const RULE: &str = "cases = (kind K built through the public Kind/Collection builders: any subset of the scalar states plus optional array/object collections with known fields/indices over the shared vocabulary and an unknown part that is closed / any / json / an exact nested kind; a value v constructed directly as a member of K; a path of 0..4 segments incl. negative indices; an inserted kind X with member x; a prune flag; a second kind K2 with member v2). Sub-checks: get/at_path, insert, remove, union+merge, superset. Membership is decided by the harness's own predicate over public accessors. Non-trivial = K has a collection with >=1 known key and a non-closed unknown part, or the path uses a negative index (the approximating cases). Distinct = distinct serialised cases.";
pub const NOTE: &str = "trusts model/member.rs (membership from the documentation of Kind) and gens/kind.rs::value_of (every constructed value is re-checked against `member`; a failure of that self-check is reported as a harness error, exit 2)";

#[derive(Clone, Debug, Serialize, Deserialize)]
pub struct GetCase {
    pub k: KD,
    pub v: TV,
    pub p: SegPath,
}

#[derive(Clone, Debug, Serialize, Deserialize)]
pub struct InsCase {
    pub k: KD,
    pub v: TV,
    pub p: SegPath,
    pub xk: KD,
    pub x: TV,
}

#[derive(Clone, Debug, Serialize, Deserialize)]
pub struct RemCase {
    pub k: KD,
    pub v: TV,
    pub p: SegPath,
    pub prune: bool,
}

#[derive(Clone, Debug, Serialize, Deserialize)]
pub struct TwoCase {
    pub k: KD,
    pub v: TV,
    pub k2: KD,
    pub v2: TV,
}

fn approximating(k: &KD, p: &[Seg]) -> bool {
    fn open_with_known(k: &KD) -> bool {
        let a = k.arr.as_ref().is_some_and(|a| !a.known.is_empty() && a.unknown != UK::Closed);
        let o = k.obj.as_ref().is_some_and(|o| !o.known.is_empty() && o.unknown != UK::Closed);
        a || o
            || k.arr.as_ref().is_some_and(|a| a.known.values().any(open_with_known))
            || k.obj.as_ref().is_some_and(|o| o.known.values().any(open_with_known))
    }
    open_with_known(k) || p.iter().any(|s| matches!(s, Seg::I(i) if *i < 0))
}

fn selfcheck(v: &Value, k: &Kind, what: &str) -> Option<V> {
    if member(v, k) {
        None
    } else {
        Some(V::fail_sig("harness-selfcheck", format!("HARNESS SELF-CHECK: constructed {what} is not a member of its kind: {}", why_not(v, k))))
    }
}

fn has_neg(p: &[Seg]) -> bool {
    p.iter().any(|s| matches!(s, Seg::I(i) if *i < 0))
}

/// generator exclusions tied to open known findings (see known_findings.json)
#[derive(Clone, Copy, Default)]
pub struct Flags {
    /// D39: negative index into an array kind whose known indices include optional ones
    pub no_neg_with_optional_index: bool,
    /// D27: removal of an array element (type-level shift)
    pub no_array_element_removal: bool,
    /// D28: insertion at a negative index beyond the known length
    pub no_neg_insert_beyond_known: bool,
    /// D40: insertion through a node typed as a union of a collection and something else
    pub no_insert_through_union: bool,
    /// D41: positive index past an optional known index
    pub no_index_beyond_optional: bool,
    /// D43: removal below a key that is not known
    pub no_remove_below_unknown_key: bool,
    /// D44: removal of an unknown array index in front of known ones
    pub no_remove_unknown_index: bool,
    /// D42: union/merge where a json (infinite) unknown meets an exact unknown
    pub no_json_unknown_in_union: bool,
    /// D46: removal below a node typed as a union of a collection and something else
    pub no_remove_through_union: bool,
}

/// D40: walking `p` through `k`, is there a node that the next segment indexes as a collection
/// while the node's kind also admits a state other than that collection (so the actual value
/// may be the other alternative and the collection is rebuilt from scratch)?
fn optional(k: &KD) -> KD {
    // an unknown field / index may be absent: its kind is `k | undefined`
    let mut o = k.clone();
    o.prim |= crate::gens::kind::UNDEFINED;
    o
}

fn union_collection_on_path(k: &KD, p: &[Seg]) -> bool {
    let Some((first, rest)) = p.split_first() else { return false };
    match first {
        Seg::F(f) => {
            let Some(o) = &k.obj else { return false };
            if k.prim != 0 || k.arr.is_some() {
                return true;
            }
            match o.known.get(f) {
                Some(ch) => union_collection_on_path(ch, rest),
                None => matches!(&o.unknown, UK::Exact(u) if union_collection_on_path(&optional(u), rest)),
            }
        }
        Seg::I(i) => {
            let Some(a) = &k.arr else { return false };
            if k.prim != 0 || k.obj.is_some() {
                return true;
            }
            if *i < 0 {
                // the element a negative index selects depends on the runtime length: any
                // known element (or the unknown part) may be the one
                return a.known.values().any(|ch| union_collection_on_path(ch, rest))
                    || matches!(&a.unknown, UK::Exact(u) if union_collection_on_path(&optional(u), rest));
            }
            match a.known.get(&(*i as usize)) {
                Some(ch) => union_collection_on_path(ch, rest),
                None => matches!(&a.unknown, UK::Exact(u) if union_collection_on_path(&optional(u), rest)),
            }
        }
    }
}

/// D41: an index segment i >= 0 applied at an array node that has a known optional index j < i
/// (padding such holes with null is not reflected in the type)
fn index_beyond_optional_known(k: &KD, p: &[Seg]) -> bool {
    let Some((first, rest)) = p.split_first() else { return false };
    match first {
        Seg::F(f) => match &k.obj {
            Some(o) => match o.known.get(f) {
                Some(ch) => index_beyond_optional_known(ch, rest),
                None => matches!(&o.unknown, UK::Exact(u) if index_beyond_optional_known(u, rest)),
            },
            None => false,
        },
        Seg::I(i) => match &k.arr {
            Some(a) => {
                if *i < 0 {
                    return false;
                }
                let i = *i as usize;
                if a.known.iter().any(|(j, kk)| *j < i && kk.admits_undefined()) {
                    return true;
                }
                match a.known.get(&i) {
                    Some(ch) => index_beyond_optional_known(ch, rest),
                    None => matches!(&a.unknown, UK::Exact(u) if index_beyond_optional_known(u, rest)),
                }
            }
            None => false,
        },
    }
}

/// D43: a non-final segment that is not a known key of its node (the removal is applied to a
/// discarded copy of the unknown kind)
fn steps_through_unknown_key(k: &KD, p: &[Seg]) -> bool {
    let Some((first, rest)) = p.split_first() else { return false };
    if rest.is_empty() {
        return false;
    }
    match first {
        Seg::F(f) => match &k.obj {
            Some(o) => match o.known.get(f) {
                Some(ch) => steps_through_unknown_key(ch, rest),
                None => o.unknown != UK::Closed,
            },
            None => false,
        },
        Seg::I(i) => match &k.arr {
            Some(a) => {
                if *i < 0 {
                    return a.unknown != UK::Closed;
                }
                match a.known.get(&(*i as usize)) {
                    Some(ch) => steps_through_unknown_key(ch, rest),
                    None => a.unknown != UK::Closed,
                }
            }
            None => false,
        },
    }
}

/// D44: the removed element is an array index that is not a known key while known indices
/// exist behind it (they are not shifted in the type)
fn removes_unknown_index_before_known(k: &KD, p: &[Seg]) -> bool {
    let Some((first, rest)) = p.split_first() else { return false };
    match first {
        Seg::F(f) => match &k.obj {
            Some(o) => match o.known.get(f) {
                Some(ch) => removes_unknown_index_before_known(ch, rest),
                None => matches!(&o.unknown, UK::Exact(u) if removes_unknown_index_before_known(u, rest)),
            },
            None => false,
        },
        Seg::I(i) => match &k.arr {
            Some(a) => {
                if *i < 0 {
                    // removing the last element (-1) shifts nothing; the finding concerns
                    // elements with known indices *behind* the removed one
                    return *i < -1 && a.unknown.admits_defined() && !a.known.is_empty();
                }
                let i = *i as usize;
                match a.known.get(&i) {
                    Some(ch) => removes_unknown_index_before_known(ch, rest),
                    None => {
                        if rest.is_empty() {
                            a.unknown.admits_defined() && a.known.keys().any(|j| *j > i)
                        } else {
                            matches!(&a.unknown, UK::Exact(u) if removes_unknown_index_before_known(u, rest))
                        }
                    }
                }
            }
            None => false,
        },
    }
}

fn has_optional_known_index(k: &KD) -> bool {
    k.arr.as_ref().is_some_and(|a| a.known.values().any(|x| x.admits_undefined()) || a.known.values().any(has_optional_known_index))
        || k.obj.as_ref().is_some_and(|o| o.known.values().any(has_optional_known_index))
        || k.arr.as_ref().is_some_and(|a| matches!(&a.unknown, UK::Exact(u) if has_optional_known_index(u)))
        || k.obj.as_ref().is_some_and(|o| matches!(&o.unknown, UK::Exact(u) if has_optional_known_index(u)))
}

fn check_get(c: &GetCase, fl: Flags) -> V {
    if fl.no_neg_with_optional_index && has_neg(&c.p) && has_optional_known_index(&c.k) {
        return V::excluded("neg-index-with-optional-known-index");
    }
    // a negative index into an array of unknown length merges the known element kinds into the
    // unknown kind: with a json unknown this is the D42 merge
    if fl.no_json_unknown_in_union && has_neg(&c.p) && has_json_unknown(&c.k) {
        return V::excluded("union-with-json-unknown");
    }
    let (k, v) = (c.k.to_kind(), c.v.to_value());
    if let Some(f) = selfcheck(&v, &k, "value") {
        return f;
    }
    let op = to_owned_path(&c.p);
    let got = v.get(&op);
    let at = k.at_path(&op);
    if !member_opt(got, &at) {
        return V::fail(format!(
            "get {:?}: value has {:?} but at_path says {at} ({at:?}); kind {k:?}",
            c.p,
            got.map(ToString::to_string)
        ));
    }
    let viewed = k.get(&op);
    let got_or_null = got.cloned().unwrap_or(Value::Null);
    if !member(&got_or_null, &viewed) {
        return V::fail(format!("get {:?}: read {got_or_null} is not in Kind::get = {viewed} ({viewed:?})", c.p));
    }
    V::pass()
        .nontrivial(approximating(&c.k, &c.p))
        .class_if(got.is_some(), "found")
        .class_if(has_neg(&c.p), "negative_index")
        .class_if(admits_undefined(&at), "type_admits_undefined")
}

fn check_insert(c: &InsCase, fl: Flags) -> V {
    if fl.no_neg_insert_beyond_known && has_neg(&c.p) {
        return V::excluded("insert-negative-index");
    }
    if fl.no_json_unknown_in_union && (has_json_unknown(&c.k) || has_json_unknown(&c.xk)) {
        return V::excluded("union-with-json-unknown");
    }
    if fl.no_index_beyond_optional && index_beyond_optional_known(&c.k, &c.p) {
        return V::excluded("insert-index-beyond-optional-known-index");
    }
    if fl.no_insert_through_union && union_collection_on_path(&c.k, &c.p) {
        return V::excluded("insert-through-union-of-collection-and-other");
    }
    if fl.no_neg_with_optional_index && has_neg(&c.p) && has_optional_known_index(&c.k) {
        return V::excluded("neg-index-with-optional-known-index");
    }
    let (k, v) = (c.k.to_kind(), c.v.to_value());
    let (xk, x) = (c.xk.to_kind(), c.x.to_value());
    if let Some(f) = selfcheck(&v, &k, "value").or_else(|| selfcheck(&x, &xk, "inserted value")) {
        return f;
    }
    let op = to_owned_path(&c.p);
    let mut v2 = v.clone();
    v2.insert(&op, x.clone());
    let mut k2 = k.clone();
    k2.insert(&op, xk.clone());
    if !member(&v2, &k2) {
        return V::fail(format!(
            "insert at {:?}: value {v2} is not a member of the type-level insertion {k2:?}: {}",
            c.p,
            why_not(&v2, &k2)
        ));
    }
    V::pass().nontrivial(approximating(&c.k, &c.p)).class_if(has_neg(&c.p), "negative_index").class_if(c.p.is_empty(), "root_path")
}

fn check_remove(c: &RemCase, fl: Flags) -> V {
    if fl.no_neg_with_optional_index && has_optional_known_index(&c.k) {
        return V::excluded("neg-index-with-optional-known-index");
    }
    if fl.no_json_unknown_in_union && has_json_unknown(&c.k) {
        return V::excluded("union-with-json-unknown");
    }
    if fl.no_remove_through_union && c.p.len() >= 2 && union_collection_on_path(&c.k, &c.p) {
        return V::excluded("remove-through-union-of-collection-and-other");
    }
    if fl.no_remove_below_unknown_key && steps_through_unknown_key(&c.k, &c.p) {
        return V::excluded("remove-below-unknown-key");
    }
    if fl.no_remove_unknown_index && removes_unknown_index_before_known(&c.k, &c.p) {
        return V::excluded("remove-unknown-array-index-before-known");
    }
    let (k, v) = (c.k.to_kind(), c.v.to_value());
    if let Some(f) = selfcheck(&v, &k, "value") {
        return f;
    }
    let op = to_owned_path(&c.p);
    let mut v2 = v.clone();
    let removed = v2.remove(&op, c.prune);
    let mut k2 = k.clone();
    let removed_kind = k2.remove(&op, c.prune);
    if !member(&v2, &k2) {
        return V::fail(format!(
            "remove {:?} (prune={}): value after removal {v2} is not a member of the type-level removal {k2:?}: {}",
            c.p,
            c.prune,
            why_not(&v2, &k2)
        ));
    }
    let r = removed.clone().unwrap_or(Value::Null);
    if !member(&r, &removed_kind) {
        return V::fail(format!("remove {:?}: removed value {r} is not in the returned kind {removed_kind} ({removed_kind:?})", c.p));
    }
    V::pass()
        .nontrivial(approximating(&c.k, &c.p))
        .class_if(removed.is_some(), "found")
        .class_if(c.prune, "prune")
        .class_if(has_neg(&c.p), "negative_index")
}

fn has_json_unknown(k: &KD) -> bool {
    let uk = |u: &UK| match u {
        UK::Json => true,
        UK::Exact(e) => has_json_unknown(e),
        _ => false,
    };
    k.arr.as_ref().is_some_and(|a| uk(&a.unknown) || a.known.values().any(has_json_unknown))
        || k.obj.as_ref().is_some_and(|o| uk(&o.unknown) || o.known.values().any(has_json_unknown))
}

fn check_two(c: &TwoCase, fl: Flags) -> V {
    if fl.no_json_unknown_in_union && (has_json_unknown(&c.k) || has_json_unknown(&c.k2)) {
        return V::excluded("union-with-json-unknown");
    }
    let (k, v) = (c.k.to_kind(), c.v.to_value());
    let (k2, v2) = (c.k2.to_kind(), c.v2.to_value());
    if let Some(f) = selfcheck(&v, &k, "value").or_else(|| selfcheck(&v2, &k2, "second value")) {
        return f;
    }
    // union contains every member of its operands, both ways round
    for (name, u) in [("k.union(k2)", k.union(k2.clone())), ("k2.union(k)", k2.union(k.clone()))] {
        for (w, wn) in [(&v, "member of k"), (&v2, "member of k2")] {
            if !member(w, &u) {
                return V::fail(format!("{name} = {u:?} does not contain {wn} {w}: {}", why_not(w, &u)));
            }
        }
    }
    // merge of two objects: the value-level merge is a member of the overwrite merge of the types
    let mut merged_checked = false;
    if let (Value::Object(a), Value::Object(b)) = (&v, &v2) {
        if k.is_object() && k2.is_object() {
            let mut m = a.clone();
            for (key, val) in b {
                m.insert(key.clone(), val.clone());
            }
            let mv = Value::Object(m);
            let mut mk = k.clone();
            mk.merge(k2.clone(), vrl::value::kind::merge::Strategy { collisions: vrl::value::kind::merge::CollisionStrategy::Overwrite });
            if !member(&mv, &mk) {
                return V::fail(format!("object merge: {mv} is not a member of the overwrite-merged kind {mk:?}: {}", why_not(&mv, &mk)));
            }
            merged_checked = true;
        }
    }
    // the subtype test agrees with membership
    let sup = k.is_superset(&k2).is_ok();
    if sup && !member(&v2, &k) {
        return V::fail(format!("k.is_superset(k2) holds but a member of k2 is not a member of k: {}", why_not(&v2, &k)));
    }
    for (w, kk, name) in [(&v2, &k, "v2 in k"), (&v, &k2, "v in k2"), (&v, &k, "v in k")] {
        let m = member(w, kk);
        let s = kk.is_superset(&Kind::from(w.clone())).is_ok();
        if m != s {
            return V::fail(format!("{name}: membership = {m} but is_superset(Kind::from(value)) = {s}; value {w}, kind {kk:?}"));
        }
    }
    V::pass()
        .nontrivial(approximating(&c.k, &[]) || approximating(&c.k2, &[]))
        .class_if(sup, "k_superset_of_k2")
        .class_if(merged_checked, "object_merge")
        .class_if(member(&v2, &k), "v2_member_of_k")
}

fn kvp() -> impl Strategy<Value = (KD, TV, SegPath)> {
    // half of the paths are derived from a location that exists in the value (optionally with the
    // last index written from the back, optionally extended), so that operations hit structure
    (kind_member_mix(3), path(0, 4), any::<u16>(), 0u8..8, path(0, 2)).prop_map(|((k, v), rnd, sel, mode, extra)| {
        let mut locs = Vec::new();
        crate::model::vpath::locations(&v, &mut Vec::new(), &mut locs);
        if mode < 4 && !locs.is_empty() {
            let (mut p, _) = crate::gens::value::pick(&locs, sel);
            if mode == 1 || mode == 3 {
                if let Some(Seg::I(i)) = p.last().cloned() {
                    let parent = p[..p.len() - 1].to_vec();
                    if let Some(TV::Array(a)) = crate::model::vpath::get(&v, &parent) {
                        let n = p.len() - 1;
                        p[n] = Seg::I(i - a.len() as i64);
                    }
                }
            }
            if mode >= 2 {
                p.extend(extra);
            }
            (k, v, p)
        } else {
            (k, v, rnd)
        }
    })
}

/// second kind: unrelated, or a perturbation of the first (so that subset relations occur)
fn related(k: &KD) -> BoxedStrategy<KD> {
    let k0 = k.clone();
    let k1 = k.clone();
    prop_oneof![
        2 => kd(3, false),
        1 => Just(k0),
        2 => (kd(2, false), any::<u8>()).prop_map(move |(other, m)| {
            let mut n = k1.clone();
            n.prim |= other.prim & m & 0x7f;
            if m & 1 == 1 && n.obj.is_none() { n.obj = other.obj.clone(); }
            if m & 2 == 2 && n.arr.is_none() { n.arr = other.arr.clone(); }
            n
        }),
    ]
    .boxed()
}

pub fn run(r: &mut Run) {
    let fl = Flags {
        no_neg_with_optional_index: r.excluded("neg-index-with-optional-known-index"),
        no_array_element_removal: r.excluded("array-element-removal"),
        no_neg_insert_beyond_known: r.excluded("insert-negative-index"),
        no_insert_through_union: r.excluded("insert-through-union-of-collection-and-other"),
        no_index_beyond_optional: r.excluded("insert-index-beyond-optional-known-index"),
        no_remove_below_unknown_key: r.excluded("remove-below-unknown-key"),
        no_remove_unknown_index: r.excluded("remove-unknown-array-index-before-known"),
        no_json_unknown_in_union: r.excluded("union-with-json-unknown"),
        no_remove_through_union: r.excluded("remove-through-union-of-collection-and-other"),
    };
    r.sub("get", 150_000, 15_000_000, || kvp().prop_map(|(k, v, p)| GetCase { k, v, p }), move |c| check_get(c, fl));
    r.sub(
        "insert",
        150_000,
        15_000_000,
        || (kvp(), kind_member_mix(2)).prop_map(|((k, v, p), (xk, x))| InsCase { k, v, p, xk, x }),
        move |c| check_insert(c, fl),
    );
    r.sub("remove", 400_000, 30_000_000, || (kvp(), any::<bool>()).prop_map(|((k, v, p), prune)| RemCase { k, v, p, prune }), move |c| check_remove(c, fl));
    r.sub(
        "union_merge_superset",
        150_000,
        15_000_000,
        || {
            kind_member_mix(3).prop_flat_map(|(k, v)| {
                related(&k).prop_flat_map(move |k2| {
                    let (k, v) = (k.clone(), v.clone());
                    value_of(&k2).prop_map(move |v2| TwoCase { k: k.clone(), v: v.clone(), k2: k2.clone(), v2 })
                })
            })
        },
        move |c| check_two(c, fl),
    );
}
