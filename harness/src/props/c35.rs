//! C35 — embedder type conversions round-trip canonical text.

use bytes::Bytes;
use chrono::{DateTime, Datelike, FixedOffset, SecondsFormat};
use proptest::prelude::*;
use serde::{Deserialize, Serialize};
use vrl::compiler::conversion::Conversion;
use vrl::value::Value;

use crate::engine::{Run, V};
use crate::gens::timez::{self, LocalMap, ZONES};
use crate::gens::value::{finite_float, int, raw_bytes, ts, TV};

pub const RULE: &str = "cases = (conversion name as accepted by Conversion::parse incl. whitespace padding around the name and around the `timestamp|FMT` parts, value, rendering style). Values: i64 (edges+random) as decimal text; finite f64 as Rust `{}`, `{:e}`, `{:?}`, `{:E}` text; every documented boolean spelling in every upper/lower-case combination plus decimal integers (exhaustive grid + random i64); arbitrary bytes for asis/bytes/string; timestamps in years 0000-9999 (a quarter of them moved to within +-2h of a DST transition of one of the configured zones) rendered (a) with an explicit zone: RFC 3339 with 0/3/6/9/auto fractional digits and `Z` or numeric offsets, RFC 2822, unix seconds, and 20 strftime formats containing %z / %:z / %#z / %+ (incl. every zoned format of the `timestamp` auto-detection list), converted under ALL seven configured timezones (UTC, Etc/GMT+5, Asia/Kolkata, America/New_York, Europe/Berlin, Australia/Lord_Howe, Local); (b) without zone: 13 strftime formats (incl. every zone-less format of the auto-detection list) rendered in configured zone Z and converted under Z. Expected = the value itself (timestamps truncated to the precision the format prints). Non-trivial = not the zero value; for timestamps a non-zero offset (of the text, or of the configured zone for zone-less text) or a fractional part. Distinct = distinct serialised cases.";
pub const NOTE: &str = "trusts chrono's formatter (`DateTime::format`, `to_rfc3339_opts`, `to_rfc2822`) to produce the canonical text of a timestamp, Rust's float/int Display as canonical number text, and chrono_tz / chrono::Local (queried directly, not through vrl) to decide whether a wall-clock time is unambiguous in a zone; zone-less texts whose wall-clock time is skipped or repeated in the zone are only required not to panic; `%Z`, `%::z`, `%:::z` and `%s` of pre-1970 instants (none of which chrono can parse back from its own output) and two-digit-year formats are outside the round-trip domain; `Local` is whatever TZ the process runs under (run with TZ=America/New_York to vary it)";

const PADS: &[(&str, &str)] = &[("", ""), (" ", ""), ("", " "), ("  ", "  "), ("\t", "\n")];

fn padded(name: &str, pad: u8) -> String {
    let (l, r) = PADS[pad as usize % PADS.len()];
    format!("{l}{name}{r}")
}

fn padded_fmt(fmt: &str, pad: u8) -> String {
    let (l, r) = PADS[pad as usize % PADS.len()];
    // whitespace around both `|`-separated parts is documented to be trimmed
    format!("{l}timestamp{r}|{l}{fmt}{r}")
}

fn conv(name: &str, zone: u8) -> Result<Conversion, String> {
    Conversion::parse(name, timez::zone(zone)).map_err(|e| format!("Conversion::parse({name:?}) rejected: {e}"))
}

// ------------------------------------------------------------------------------------------
// numbers, booleans, bytes

#[derive(Clone, Debug, Serialize, Deserialize)]
pub struct IntCase {
    pub name: String,
    pub i: i64,
}

fn check_int(c: &IntCase) -> V {
    let cv = match conv(&c.name, 0) {
        Ok(x) => x,
        Err(e) => return V::fail(e),
    };
    let text = c.i.to_string();
    match cv.convert::<Value>(Bytes::from(text.clone())) {
        Ok(Value::Integer(g)) if g == c.i => V::pass().nontrivial(c.i != 0).class_if(c.i == i64::MIN || c.i == i64::MAX, "i64_extreme").class_if(c.i < 0, "negative"),
        other => V::fail(format!("{:?}.convert({text:?}) = {other:?}, expected integer {}", c.name, c.i)),
    }
}

#[derive(Clone, Debug, Serialize, Deserialize)]
pub struct FloatCase {
    pub name: String,
    /// always `TV::Float`
    pub x: TV,
    /// 0 `{}`  1 `{:e}`  2 `{:?}`  3 `{:E}`
    pub style: u8,
}

fn float_text(x: f64, style: u8) -> String {
    match style % 4 {
        0 => format!("{x}"),
        1 => format!("{x:e}"),
        2 => format!("{x:?}"),
        _ => format!("{x:E}"),
    }
}

fn check_float(c: &FloatCase) -> V {
    let TV::Float(ft) = &c.x else { return V::discard("not a float") };
    let x = ft.0;
    if !x.is_finite() {
        return V::discard("non-finite float");
    }
    let cv = match conv(&c.name, 0) {
        Ok(x) => x,
        Err(e) => return V::fail(e),
    };
    let text = float_text(x, c.style);
    match cv.convert::<Value>(Bytes::from(text.clone())) {
        Ok(Value::Float(g)) if g.into_inner().to_bits() == x.to_bits() => V::pass()
            .nontrivial(x != 0.0)
            .class_if(text.contains('e') || text.contains('E'), "exponent_text")
            .class_if(x.is_subnormal(), "subnormal")
            .class_if(x == 0.0 && x.is_sign_negative(), "negative_zero")
            .class_if(text.len() > 40, "long_decimal_text"),
        other => V::fail(format!("{:?}.convert({text:?}) = {other:?}, expected float {x:?}", c.name)),
    }
}

#[derive(Clone, Debug, Serialize, Deserialize)]
pub struct BoolCase {
    pub name: String,
    pub text: String,
}

const TRUE_WORDS: &[&str] = &["true", "t", "yes", "y"];
const FALSE_WORDS: &[&str] = &["false", "f", "no", "n"];

/// the documented table of `parse_bool`: Some(b) for the described spellings, None = "any input
/// value besides those described above results in a parse error"
fn documented_bool(text: &str) -> Option<bool> {
    let lower = text.to_ascii_lowercase();
    if TRUE_WORDS.contains(&lower.as_str()) {
        return Some(true);
    }
    if FALSE_WORDS.contains(&lower.as_str()) {
        return Some(false);
    }
    // canonical decimal integers only (what `i64::to_string` prints)
    if let Ok(n) = text.parse::<i64>() {
        if n.to_string() == text {
            return Some(n != 0);
        }
    }
    None
}

fn check_bool(c: &BoolCase) -> V {
    let cv = match conv(&c.name, 0) {
        Ok(x) => x,
        Err(e) => return V::fail(e),
    };
    let got = cv.convert::<Value>(Bytes::from(c.text.clone()));
    let is_word = c.text.chars().all(|ch| ch.is_ascii_alphabetic()) && !c.text.is_empty();
    match (documented_bool(&c.text), got) {
        (Some(w), Ok(Value::Boolean(g))) if g == w => V::pass()
            .nontrivial(w)
            .class_if(is_word && c.text.chars().any(|ch| ch.is_ascii_uppercase()), "word_with_upper_case")
            .class_if(is_word, "word")
            .class_if(!is_word, "integer_text"),
        (Some(w), other) => V::fail(format!("{:?}.convert({:?}) = {other:?}, documented result {w}", c.name, c.text)),
        (None, Err(_)) => V::pass().class("undocumented_spelling_rejected"),
        (None, Ok(v)) => {
            // only plain ASCII words that are not in the table are asserted to be rejected
            if is_word || c.text.is_empty() {
                V::fail(format!("{:?}.convert({:?}) = {v:?}, but the spelling is not in the documented table", c.name, c.text))
            } else {
                V::pass().class("unspecified_text")
            }
        }
    }
}

fn case_variants(w: &str) -> Vec<String> {
    let chars: Vec<char> = w.chars().collect();
    (0..(1u32 << chars.len()))
        .map(|mask| chars.iter().enumerate().map(|(k, ch)| if mask >> k & 1 == 1 { ch.to_ascii_uppercase() } else { *ch }).collect())
        .collect()
}

fn bool_grid() -> Vec<BoolCase> {
    let mut out = Vec::new();
    let mut texts: Vec<String> = Vec::new();
    for w in TRUE_WORDS.iter().chain(FALSE_WORDS) {
        texts.extend(case_variants(w));
    }
    for i in crate::gens::value::INT_EDGES.iter().copied().chain(-12..=12) {
        texts.push(i.to_string());
    }
    for g in ["", "tru", "fals", "ye", "nope", "on", "off", "truee", "ja", "si", "tt", "ff", "yy", "nn", "maybe", "null", "T r u e"] {
        texts.push(g.to_string());
    }
    for name in ["bool", "boolean"] {
        for (k, t) in texts.iter().enumerate() {
            out.push(BoolCase { name: padded(name, (k % PADS.len()) as u8), text: t.clone() });
        }
    }
    out
}

#[derive(Clone, Debug, Serialize, Deserialize)]
pub struct BytesCase {
    pub name: String,
    pub hex: String,
}

fn check_bytes(c: &BytesCase) -> V {
    let cv = match conv(&c.name, 0) {
        Ok(x) => x,
        Err(e) => return V::fail(e),
    };
    let raw = hex::decode(&c.hex).expect("hex");
    match cv.convert::<Value>(Bytes::from(raw.clone())) {
        Ok(Value::Bytes(b)) if b.as_ref() == raw.as_slice() => V::pass().nontrivial(!raw.is_empty()).class_if(std::str::from_utf8(&raw).is_err(), "invalid_utf8"),
        other => V::fail(format!("{:?}.convert(x'{}') = {other:?}, expected the same bytes", c.name, c.hex)),
    }
}

/// names that must be rejected are not part of the statement; this grid only asserts that
/// every documented name (with padding) is accepted and has the documented meaning.
#[derive(Clone, Debug, Serialize, Deserialize)]
pub struct NameCase {
    pub name: String,
    /// "bytes" | "int" | "float" | "bool" | "ts"
    pub meaning: String,
}

fn check_name(c: &NameCase) -> V {
    let mut v = V::pass().nontrivial(c.name.trim() != c.name);
    for z in 0..ZONES.len() as u8 {
        let cv = match conv(&c.name, z) {
            Ok(x) => x,
            Err(e) => return V::fail(e),
        };
        let (text, want): (&str, Value) = match c.meaning.as_str() {
            "bytes" => ("7", Value::from("7")),
            "int" => ("7", Value::Integer(7)),
            "float" => ("7", Value::from(7.0)),
            "bool" => ("7", Value::Boolean(true)),
            _ => ("1970-01-01T00:00:07+00:00", Value::Timestamp(ts(7, 0))),
        };
        match cv.convert::<Value>(Bytes::from(text)) {
            Ok(g) if g == want => {}
            other => return V::fail(format!("{:?} under {}: convert({text:?}) = {other:?}, expected {want:?}", c.name, ZONES[z as usize])),
        }
        v = v.class(match c.meaning.as_str() {
            "bytes" => "bytes",
            "int" => "int",
            "float" => "float",
            "bool" => "bool",
            _ => "timestamp",
        });
    }
    v
}

fn name_grid() -> Vec<NameCase> {
    let mut out = Vec::new();
    let names: &[(&str, &str)] = &[
        ("asis", "bytes"),
        ("bytes", "bytes"),
        ("string", "bytes"),
        ("int", "int"),
        ("integer", "int"),
        ("float", "float"),
        ("bool", "bool"),
        ("boolean", "bool"),
        ("timestamp", "ts"),
    ];
    for (n, m) in names {
        for p in 0..PADS.len() as u8 {
            out.push(NameCase { name: padded(n, p), meaning: (*m).to_string() });
        }
    }
    for p in 0..PADS.len() as u8 {
        out.push(NameCase { name: padded_fmt("%Y-%m-%dT%H:%M:%S%:z", p), meaning: "ts".into() });
        out.push(NameCase { name: padded_fmt("%+", p), meaning: "ts".into() });
    }
    out
}

// ------------------------------------------------------------------------------------------
// timestamps with an explicit zone

/// strftime formats with an explicit zone: (format given to the conversion, format used for
/// rendering, fractional digits printed, minutes-only offsets?)
const ZONED_FORMATS: &[&str] = &[
    "%Y-%m-%d %H:%M:%S %z",
    "%Y-%m-%d %H:%M:%S %:z",
    "%Y-%m-%dT%H:%M:%S%.f%:z",
    "%Y-%m-%dT%H:%M:%S%.3f%z",
    "%Y-%m-%dT%H:%M:%S%.6f%:z",
    "%Y-%m-%dT%H:%M:%S%.9f%z",
    "%+",
    "%d/%b/%Y:%T %z",
    "%a, %d %b %Y %H:%M:%S %z",
    "%a %d %b %T %z %Y",
    "%a %d %b %T %#z %Y",
    "%Y-%m-%d %I:%M:%S %p %z",
    "%Y-%j %H:%M:%S %:z",
    "%F %T%z",
    "%c %z",
    "%z %Y%m%d%H%M%S",
    "%A, %B %e, %Y %R:%S (%:z)",
    "%FT%T%.f %#z",
    "%d.%m.%Y %H.%M.%S UTC%:z",
    "%s %z",
];

/// auto-detection (`timestamp`) styles with an explicit zone
const AUTO_ZONED: &[&str] = &[
    "auto:rfc3339:secs",
    "auto:rfc3339:millis",
    "auto:rfc3339:micros",
    "auto:rfc3339:nanos",
    "auto:rfc3339:auto",
    "auto:rfc3339:secs:z",
    "auto:rfc3339:auto:z",
    "auto:rfc2822",
    "auto:unix",
    "auto:fmt:%+",
    "auto:fmt:%a %d %b %T %z %Y",
    "auto:fmt:%d/%b/%Y:%T %z",
];

#[derive(Clone, Debug, Serialize, Deserialize)]
pub struct ZonedCase {
    pub s: i64,
    pub n: u32,
    /// offset of the rendered text, minutes east of UTC
    pub off_min: i32,
    /// "auto:..." (conversion name `timestamp`) or "fmt:FORMAT" (conversion name `timestamp|FORMAT`)
    pub style: String,
    pub pad: u8,
}

fn frac_digits(fmt: &str) -> u32 {
    if fmt.contains("%.3f") {
        3
    } else if fmt.contains("%.6f") {
        6
    } else if fmt.contains("%.9f") || fmt.contains("%.f") || fmt.contains("%+") {
        9
    } else {
        0
    }
}

fn truncate(n: u32, digits: u32) -> u32 {
    let unit = 10u32.pow(9 - digits);
    n / unit * unit
}

fn year_in_domain(local: &chrono::NaiveDateTime) -> bool {
    (0..=9999).contains(&local.year())
}

/// (conversion name, text, expected nanos) for a zoned case; None = outside the domain
fn render_zoned(c: &ZonedCase) -> Option<(String, String, u32)> {
    let t = ts(c.s, c.n);
    let off = FixedOffset::east_opt(c.off_min * 60)?;
    let lt: DateTime<FixedOffset> = t.with_timezone(&off);
    if !year_in_domain(&lt.naive_local()) {
        return None;
    }
    if let Some(fmt) = c.style.strip_prefix("fmt:").or_else(|| c.style.strip_prefix("auto:fmt:")) {
        let render = fmt.replace("%#z", "%z");
        if fmt.contains("%s") && c.s < 0 {
            // chrono's `%s` parser takes no sign: pre-1970 instants are outside the round-trip domain
            return None;
        }
        let text = lt.format(&render).to_string();
        let name = if c.style.starts_with("auto:") { padded("timestamp", c.pad) } else { padded_fmt(fmt, c.pad) };
        return Some((name, text, truncate(c.n, frac_digits(fmt))));
    }
    let name = padded("timestamp", c.pad);
    let mut parts = c.style.split(':').skip(1);
    match parts.next()? {
        "rfc3339" => {
            let (sf, digits) = match parts.next()? {
                "secs" => (SecondsFormat::Secs, 0),
                "millis" => (SecondsFormat::Millis, 3),
                "micros" => (SecondsFormat::Micros, 6),
                "nanos" => (SecondsFormat::Nanos, 9),
                _ => (SecondsFormat::AutoSi, 9),
            };
            let use_z = parts.next() == Some("z");
            Some((name, lt.to_rfc3339_opts(sf, use_z), truncate(c.n, digits)))
        }
        "rfc2822" => Some((name, lt.to_rfc2822(), 0)),
        "unix" => Some((name, c.s.to_string(), 0)),
        _ => None,
    }
}

fn check_zoned(c: &ZonedCase) -> V {
    let Some((name, text, want_n)) = render_zoned(c) else {
        return V::discard("local year outside 0000-9999 or offset not representable");
    };
    let want = Value::Timestamp(ts(c.s, want_n));
    for z in 0..ZONES.len() as u8 {
        let cv = match conv(&name, z) {
            Ok(x) => x,
            Err(e) => return V::fail(e),
        };
        match cv.convert::<Value>(Bytes::from(text.clone())) {
            Ok(g) if g == want => {}
            other => {
                let sig = if c.style == "fmt:%s" {
                    "unix_seconds_format"
                } else {
                    "zoned"
                };
                return V::fail_sig(
                    sig,
                    format!("conversion {name:?} under configured zone {}: convert({text:?}) = {other:?}, expected {want:?} (the text carries an explicit zone or names an absolute instant)", ZONES[z as usize]),
                );
            }
        }
    }
    let near_dst = (3..6u8).any(|z| timez::local_map(z, &timez::wall_clock(z, &ts(c.s, 0))).single().is_none());
    V::pass()
        .nontrivial(c.off_min != 0 || want_n != 0)
        .class_if(c.style.starts_with("auto:rfc3339"), "auto_rfc3339")
        .class_if(c.style == "auto:rfc2822", "auto_rfc2822")
        .class_if(c.style == "auto:unix", "auto_unix_seconds")
        .class_if(c.style.starts_with("auto:fmt:"), "auto_zoned_format")
        .class_if(c.style.starts_with("fmt:"), "explicit_format")
        .class_if(c.style.starts_with("auto:rfc3339") && c.style.ends_with(":z"), "rfc3339_Z")
        .class_if(want_n != 0, "fractional")
        .class_if(c.off_min % 60 != 0, "offset_with_minutes")
        .class_if(c.off_min < 0, "negative_offset")
        .class_if(near_dst, "wall_clock_ambiguous_or_skipped_in_some_dst_zone")
        .class_if(!(1000..=9998).contains(&ts(c.s, 0).year()), "year_below_1000_or_9999")
}

// ------------------------------------------------------------------------------------------
// timestamps without zone

/// zone-less formats of the auto-detection list
const AUTO_LOCAL: &[&str] = &["%F %T", "%v %T", "%FT%T", "%m/%d/%Y:%T", "%a, %d %b %Y %T", "%a %d %b %T %Y", "%A %d %B %T %Y", "%a %b %e %T %Y"];
/// further zone-less formats, only used as `timestamp|FMT`
const MORE_LOCAL: &[&str] = &["%Y-%m-%d %H:%M:%S%.f", "%Y%m%d%H%M%S", "%d.%m.%Y %H:%M:%S", "%Y-%m-%d %I:%M:%S %p", "%Y-%j %T%.3f"];

#[derive(Clone, Debug, Serialize, Deserialize)]
pub struct LocalCase {
    pub s: i64,
    pub n: u32,
    /// configured zone (index into ZONES): the text is the wall-clock reading of (s, n) in this
    /// zone, moved by `skew` seconds on the wall clock
    pub zone: u8,
    /// wall-clock displacement (0 = the text is exactly the reading of the instant; non-zero
    /// values reach skipped wall-clock times, which no instant renders to)
    #[serde(default)]
    pub skew: i32,
    /// "auto:FORMAT" (name `timestamp`) or "fmt:FORMAT" (name `timestamp|FORMAT`)
    pub style: String,
    pub pad: u8,
}

fn check_local(c: &LocalCase) -> V {
    let t = ts(c.s, c.n);
    let wall = timez::wall_clock(c.zone, &t) + chrono::Duration::seconds(i64::from(c.skew));
    if !year_in_domain(&wall) {
        return V::discard("local year outside 0000-9999");
    }
    let (fmt, auto) = match c.style.strip_prefix("auto:") {
        Some(f) => (f, true),
        None => (c.style.strip_prefix("fmt:").unwrap_or(&c.style), false),
    };
    let text = wall.format(fmt).to_string();
    let name = if auto { padded("timestamp", c.pad) } else { padded_fmt(fmt, c.pad) };
    let want_n = truncate(c.n, frac_digits(fmt));
    let cv = match conv(&name, c.zone) {
        Ok(x) => x,
        Err(e) => return V::fail(e),
    };
    let got = cv.convert::<Value>(Bytes::from(text.clone()));
    let map = timez::local_map(c.zone, &wall);
    let v = match map {
        LocalMap::Single(off) => {
            // the one instant whose wall-clock reading in the zone is `wall`
            let want_s = wall.and_utc().timestamp() - i64::from(off);
            if c.skew == 0 && want_s != c.s {
                return V::fail(format!("harness: wall-clock inversion disagrees with the instant ({want_s} vs {})", c.s));
            }
            let want = Value::Timestamp(ts(want_s, want_n));
            match got {
                Ok(g) if g == want => V::pass().nontrivial(off != 0 || want_n != 0).class_if(off % 3600 != 0, "zone_offset_with_minutes_or_seconds"),
                other => {
                    return V::fail(format!(
                        "conversion {name:?} under configured zone {}: convert({text:?}) = {other:?}, expected {want:?} (wall-clock time is unambiguous in that zone, offset {off} s)",
                        ZONES[c.zone as usize]
                    ))
                }
            }
        }
        // skipped / repeated wall-clock time: no panic is all that is required
        LocalMap::Gap => V::pass().class("wall_clock_skipped_no_panic"),
        LocalMap::Ambiguous(..) => V::pass().class("wall_clock_repeated_no_panic"),
    };
    v.class_if(auto, "auto_detected")
        .class_if(!auto, "explicit_format")
        .class_if(want_n != 0, "fractional")
        .class_if(c.skew != 0, "skewed_wall_clock")
        .class(match c.zone {
            0 => "zone_utc",
            1 | 2 => "zone_fixed_offset",
            3..=5 => "zone_dst",
            _ => "zone_local",
        })
}

// ------------------------------------------------------------------------------------------
// generators

fn name_of(names: &'static [&'static str]) -> impl Strategy<Value = String> {
    (0..names.len(), 0..PADS.len() as u8).prop_map(move |(i, p)| padded(names[i], p))
}

/// instants in years 0000-9999, a quarter of them next to a DST transition
fn instant() -> impl Strategy<Value = (i64, u32)> {
    let lo = -62_167_219_200i64 + 2 * 86_400;
    let hi = 253_402_300_800i64 - 2 * 86_400;
    let secs = prop_oneof![
        2 => prop_oneof![Just(0i64), Just(-1), Just(1), Just(1_700_000_000), Just(951_782_400), Just(4_102_444_800), Just(lo), Just(hi - 1), Just(i64::from(i32::MAX)), Just(i64::from(i32::MIN)), Just(-62_135_596_800)],
        4 => 0i64..4_102_444_800,
        2 => lo..hi,
        1 => -2_208_988_800i64..0,
        3 => (3u8..6, 0i64..2_145_916_800, prop_oneof![-7300i64..7300, -2i64..=2, Just(-3600i64), Just(3599i64), Just(-1800), Just(1799)])
            .prop_map(|(z, s0, d)| timez::near_transition(z, s0, d)),
    ];
    let nanos = prop_oneof![
        3 => Just(0u32),
        1 => Just(999_999_999u32),
        1 => Just(1u32),
        1 => (0u32..1000).prop_map(|m| m * 1_000_000),
        1 => (0u32..1_000_000).prop_map(|m| m * 1000),
        2 => 0u32..1_000_000_000,
    ];
    (secs, nanos)
}

fn offset_minutes() -> impl Strategy<Value = i32> {
    prop_oneof![
        2 => Just(0i32),
        3 => prop_oneof![Just(330i32), Just(-300), Just(60), Just(120), Just(-240), Just(630), Just(660), Just(-570), Just(345), Just(840), Just(-720)],
        2 => (-14i32..=14).prop_map(|h| h * 60),
        2 => -14 * 60..=14 * 60i32,
        1 => prop_oneof![Just(23 * 60 + 59), Just(-(23 * 60 + 59)), Just(1), Just(-1)],
    ]
}

fn zoned_case(excl_unix_fmt: bool) -> impl Strategy<Value = ZonedCase> {
    let mut styles: Vec<String> = AUTO_ZONED.iter().map(|s| (*s).to_string()).collect();
    for f in ZONED_FORMATS {
        styles.push(format!("fmt:{f}"));
    }
    if !excl_unix_fmt {
        // `%s` alone names an absolute instant although it has no zone specifier
        styles.push("fmt:%s".to_string());
    }
    (instant(), offset_minutes(), 0..styles.len(), 0..PADS.len() as u8).prop_map(move |((s, n), off_min, st, pad)| {
        let style = styles[st].clone();
        // `%s` cannot be parsed back with a sign (chrono): keep those cases at or after 1970
        let s = if style.contains("%s") && s < 0 { -(s + 1) } else { s };
        ZonedCase { s, n, off_min, style, pad }
    })
}

fn local_case() -> impl Strategy<Value = LocalCase> {
    let mut styles: Vec<String> = Vec::new();
    for f in AUTO_LOCAL {
        styles.push(format!("auto:{f}"));
        styles.push(format!("fmt:{f}"));
    }
    for f in MORE_LOCAL {
        styles.push(format!("fmt:{f}"));
    }
    let skew = prop_oneof![6 => Just(0i32), 1 => prop_oneof![Just(3600i32), Just(-3600), Just(1800), Just(-1800), Just(1), Just(-1)], 1 => -7200i32..7200];
    (instant(), 0..ZONES.len() as u8, skew, 0..styles.len(), 0..PADS.len() as u8).prop_map(move |((s, n), zone, skew, st, pad)| LocalCase { s, n, zone, skew, style: styles[st].clone(), pad })
}

pub fn run(r: &mut Run) {
    r.enumerate("accepted_names", name_grid(), check_name);
    r.enumerate("bool_spellings", bool_grid(), check_bool);
    r.sub(
        "bool_integers",
        20_000,
        1_000_000,
        || (name_of(&["bool", "boolean"]), int()).prop_map(|(name, i)| BoolCase { name, text: i.to_string() }),
        check_bool,
    );
    r.sub("integers", 200_000, 15_000_000, || (name_of(&["int", "integer"]), int()).prop_map(|(name, i)| IntCase { name, i }), check_int);
    r.sub(
        "floats",
        300_000,
        20_000_000,
        || (name_of(&["float"]), finite_float(), 0u8..4).prop_map(|(name, x, style)| FloatCase { name, x: TV::float(x), style }),
        check_float,
    );
    r.sub(
        "bytes_asis",
        20_000,
        1_000_000,
        || (name_of(&["asis", "bytes", "string"]), raw_bytes(24)).prop_map(|(name, b)| BytesCase { name, hex: hex::encode(b) }),
        check_bytes,
    );
    let excl_unix = r.excluded("c35_unix_seconds_format");
    r.sub("timestamps_explicit_zone", 500_000, 30_000_000, move || zoned_case(excl_unix), check_zoned);
    r.sub("timestamps_zoneless", 500_000, 30_000_000, local_case, check_local);
}
