//! C36 — results are independent of the configured timezone where they should be.
//!
//! Programs are assembled from a library of time-operation templates. Every template instance is
//! tagged by the generator:
//!
//! * `Explicit`  — the operation names its zone (format has `%z`/`%:z`/`%+` and the text carries an
//!   offset, a `timezone:` argument is given, the input is already a timestamp) or never looks at
//!   the configured zone (`to_unix_timestamp`, `from_unix_timestamp`, `to_string`, `t'..'`,
//!   comparisons, `encode_json`). Results go to `.r.*` / `%m.*` and must be identical.
//! * `Implicit`  — wall-clock text without zone and no `timezone:` argument (`parse_timestamp`
//!   with a zone-less format, log lines / syslog lines without offset). Results go to
//!   `.tz_dep.*` only and MUST differ when the two zones' offsets differ for that wall-clock time.
//! * `Permitted` — the statement allows a dependence but nothing promises one
//!   (`format_timestamp` without `timezone:`, `get_timezone_name`). Results go to `.tz_dep.*`,
//!   nothing is required of them.
//! * `Derived`   — an explicit operation applied to an implicit/permitted result (`.tz_dep.*`).

use std::collections::BTreeMap;

use chrono::{DateTime, Datelike, FixedOffset, NaiveDate, NaiveDateTime, SecondsFormat, TimeZone as _, Timelike, Utc};
use proptest::prelude::*;
use serde::{Deserialize, Serialize};
use vrl::value::Value;

use crate::engine::{Run, V};
use crate::gens::timez::{self, ZONES};
use crate::gens::value::{ts, TV};
use crate::vrlx::{self, End};

pub const RULE: &str = "cases = (program of 1..8 statements drawn from a template library, event, ordered pair of distinct configured timezones from {UTC, Etc/GMT+5, Asia/Kolkata, America/New_York, Europe/Berlin, Australia/Lord_Howe, Local}). Templates: t'..' literals with offsets; to_unix_timestamp (3 units) / from_unix_timestamp (4 units); to_string / encode_json / to_int of timestamps; timestamp comparisons; format_timestamp with 10 formats (with and without %z) with and without `timezone:`; parse_timestamp with 13 formats (with/without %z, text with/without offset) with and without `timezone:` and on timestamp values; parse_syslog (RFC 5424, RFC 3164 with RFC 3339 time, RFC 3164 `Mmm dd hh:mm:ss`, RFC 3164 with year); parse_common_log / parse_apache_log (common, combined, error) / parse_nginx_log (combined, error) with default and custom timestamp formats, with and without offset in the line; get_timezone_name; ~10 unrelated non-time statements. Operands are literals, event fields or results of earlier statements. Each template instance is tagged explicit / implicit / permitted by the generator (see module doc); implicit, permitted and derived results are stored under `.tz_dep.*` only. The one compiled program is run under both zones: outcome, value, metadata and the event outside `.tz_dep` must be identical; for implicit operations the non-time fields must be identical too and the timestamp MUST differ when the two zones map that wall-clock time to different single offsets (decided with chrono_tz directly). Instants are in 1902-2037, 40% within +-2h of a DST transition of one of the DST zones. Non-trivial = the program has >=1 time operation and the two zones' offsets differ at one of the instants involved. Distinct = distinct serialised cases.";
pub const NOTE: &str = "trusts the generator's tags (derived from reading datetime.rs, conversion/mod.rs, log_util.rs, parse_syslog.rs/syslog_loose and the function docs): `format_timestamp` without `timezone:` is tagged permitted, not explicit, because the property statement lists formatting without a timezone argument among the operations that may depend on the zone (the implementation formats in UTC); year-less RFC 3164 lines take the current year from the clock inside vrl, so their must-differ obligation is only raised when the two zones' offsets differ for that month/day/time in every year 2024-2060; `Local` is whatever TZ the process runs under (run with TZ=America/New_York or TZ=Asia/Kolkata to vary it), and with TZ unset it equals UTC so pairs (UTC, Local) are trivial; chrono_tz / chrono::Local are queried directly for the zones' offsets; grok `date(...)` matchers are not covered";

// ------------------------------------------------------------------------------------------
// case types

/// a timestamp-valued operand
#[derive(Clone, Debug, Serialize, Deserialize)]
pub enum Src {
    /// `t'..'` literal written with offset `off_min` (minutes east)
    Lit { s: i64, n: u32, off_min: i32 },
    /// `timestamp!(.in.tK)`: delivered through the event
    Field { s: i64, n: u32 },
    /// result of an earlier timestamp-valued statement (index taken modulo their number; falls
    /// back to a fixed literal when there is none)
    Prev(u8),
}

#[derive(Clone, Debug, Serialize, Deserialize)]
pub enum Stmt {
    Literal { src: Src },
    ToUnix { src: Src, unit: u8 },
    FromUnix { v: i64, unit: u8, field: bool },
    ToStr { src: Src, how: u8 },
    Compare { a: Src, b: Src, op: u8 },
    Format { src: Src, fmt: u8, tz: Option<u8> },
    /// `parse_timestamp(text, format [, timezone])`; the text is the wall-clock reading `wall`
    /// (seconds since 1970 of the naive local time) rendered with the format (offset `off_min`
    /// when the format prints one)
    Parse { wall: i64, n: u32, off_min: i32, fmt: u8, tz: Option<u8>, field: bool, corrupt: bool },
    /// `parse_timestamp(<timestamp>, format)`: timestamps pass through
    ParseValue { src: Src, fmt: u8 },
    Syslog { kind: u8, wall: i64, n: u32, off_min: i32, pri: u8, words: u8 },
    Log { func: u8, wall: i64, off_min: i32, tsfmt: u8, words: u8, field: bool },
    TzName,
    Plain { kind: u8, a: i64, b: i64, words: u8 },
}

#[derive(Clone, Debug, Serialize, Deserialize)]
pub struct Case {
    pub stmts: Vec<Stmt>,
    pub za: u8,
    pub zb: u8,
    /// where explicit results are stored: 0 `.r.sK`, 1 `%m.sK`, 2 via a local variable
    pub store: u8,
}

// ------------------------------------------------------------------------------------------
// template tables

/// (format, prints an offset?, minute precision?)
const PARSE_FORMATS: &[(&str, bool, bool)] = &[
    ("%Y-%m-%d %H:%M:%S", false, false),
    ("%d/%m/%Y %H:%M:%S", false, false),
    ("%FT%T", false, false),
    ("%a, %d %b %Y %T", false, false),
    ("%v %R", false, true),
    ("%Y-%m-%d %H:%M:%S%.f", false, false),
    ("%b %d %Y %H:%M:%S", false, false),
    ("%Y-%m-%d %H:%M:%S %z", true, false),
    ("%FT%T%:z", true, false),
    ("%+", true, false),
    ("%d/%b/%Y:%T %z", true, false),
    ("%v %R %:z", true, true),
    ("%a, %d %b %Y %T %z", true, false),
];

const FORMAT_FORMATS: &[&str] = &[
    "%Y-%m-%d %H:%M:%S",
    "%+",
    "%v %R",
    "%d %B %Y %H:%M",
    "%FT%T%:z",
    "%s",
    "%a, %d %b %Y %T %z",
    "%Y-%m-%dT%H:%M:%S%.3fZ",
    "%H",
    "%c",
];

/// `timezone:` argument values ("local" = system zone, independent of the configured one; the
/// last one is invalid and makes the call fail under every configuration)
const ARG_ZONES: &[&str] = &["UTC", "Europe/Berlin", "America/New_York", "Asia/Tokyo", "Asia/Kolkata", "Australia/Lord_Howe", "local", "Mars/Olympus"];

const UNITS_TO: &[&str] = &["seconds", "milliseconds", "nanoseconds"];
const UNITS_FROM: &[&str] = &["seconds", "milliseconds", "microseconds", "nanoseconds"];
const CMP: &[&str] = &["<", "<=", ">", ">=", "==", "!="];

const HOSTS: &[&str] = &["127.0.0.1", "host.example.org", "10.1.2.3", "web-1"];
const USERS: &[&str] = &["bob", "frank", "alice", "u1"];
const PATHS: &[&str] = &["/apache_pb.gif", "/index.html", "/a/b?c=d", "/"];
const APPS: &[&str] = &["sshd", "cron", "app", "non"];
const MSGS: &[&str] = &["hello world", "Try to override the THX port", "x=1 y=2", "done"];

/// access-log timestamp formats: (format or None = the function's default, prints an offset?)
const LOG_TS: &[(Option<&str>, bool)] = &[
    (None, true),
    (Some("%d/%b/%Y:%T %z"), true),
    (Some("%d/%b/%Y:%T"), false),
    (Some("%Y-%m-%d %H:%M:%S"), false),
    (Some("%Y-%m-%dT%H:%M:%S%:z"), true),
];
/// apache error-log timestamp formats
const ERR_TS: &[(Option<&str>, bool)] = &[(None, true), (Some("%a %b %d %H:%M:%S %Y"), false), (Some("%Y-%m-%d %H:%M:%S"), false), (Some("%a %b %d %H:%M:%S %Y %z"), true)];
/// nginx error-log timestamp formats (the default `%Y/%m/%d %H:%M:%S` has no zone)
const NGX_ERR_TS: &[(Option<&str>, bool)] = &[(None, false), (Some("%Y/%m/%d %H:%M:%S"), false), (Some("%Y/%m/%d %H:%M:%S %z"), true)];

/// `format_timestamp` without `timezone:`: the property statement lists "formatting without a
/// zone or timezone argument" among the operations whose result may change with the configured
/// zone, so it is tagged permitted. The implementation (and the function's examples) format in
/// UTC; set this to `true` to demand that (kills the mutant "format in ctx.timezone()").
const FORMAT_WITHOUT_TZ_IS_EXPLICIT: bool = false;

#[derive(Clone, Copy, Debug, PartialEq, Eq)]
enum Tag {
    Explicit,
    Implicit,
    Permitted,
    Derived,
    Plain,
}

/// what the must-differ oracle needs to know about an implicit operation
#[derive(Clone, Debug)]
enum Wall {
    Full(NaiveDateTime),
    /// RFC 3164 without year
    Yearless { mon: u32, day: u32, h: u32, mi: u32, s: u32 },
}

#[derive(Clone, Copy, Debug, PartialEq, Eq)]
enum Shape {
    /// the result itself is the timestamp (or whatever the operation returns)
    Whole,
    /// the result is an object whose `timestamp` field is the zone-dependent part
    ObjectWithTimestamp,
}

struct Meta {
    k: usize,
    tag: Tag,
    shape: Shape,
    has_err: bool,
    /// wall-clock time of an implicit operation whose text is well-formed
    wall: Option<Wall>,
    /// instants involved (for the non-trivial rule)
    instants: Vec<i64>,
    /// result is timestamp-typed and can feed later statements
    ts_result: bool,
    tainted: bool,
    label: &'static str,
    /// open finding: RFC 3164 with year ignores named zones
    syslog_with_year: bool,
}

struct Built {
    src: String,
    event: Value,
    metas: Vec<Meta>,
}

fn naive(wall: i64) -> NaiveDateTime {
    DateTime::<Utc>::from_timestamp(wall, 0).expect("generated wall-clock seconds are in range").naive_utc()
}

fn with_offset(wall: i64, n: u32, off_min: i32) -> DateTime<FixedOffset> {
    let off = FixedOffset::east_opt(off_min * 60).expect("generated offsets are < 24h");
    let nd = naive(wall).with_nanosecond(n).expect("nanos < 1e9");
    off.from_local_datetime(&nd).single().expect("fixed offsets map every local time")
}

fn lit_ts(s: i64, n: u32, off_min: i32) -> String {
    let off = FixedOffset::east_opt(off_min * 60).expect("offset");
    format!("t'{}'", ts(s, n).with_timezone(&off).to_rfc3339_opts(SecondsFormat::AutoSi, false))
}

fn pick<'a>(items: &'a [&'a str], i: u8) -> &'a str {
    items[i as usize % items.len()]
}

struct Builder {
    lines: Vec<String>,
    input: BTreeMap<String, TV>,
    metas: Vec<Meta>,
    /// how to read the result of statement k
    reads: Vec<String>,
    store: u8,
}

impl Builder {
    /// expression text + taint + instants of an operand
    fn src(&mut self, k: usize, slot: &str, s: &Src) -> (String, bool, Vec<i64>) {
        match s {
            Src::Lit { s, n, off_min } => (lit_ts(*s, *n, *off_min), false, vec![*s]),
            Src::Field { s, n } => {
                let key = format!("t{k}{slot}");
                self.input.insert(key.clone(), TV::Ts { s: *s, n: *n });
                (format!("timestamp!(.in.{key})"), false, vec![*s])
            }
            Src::Prev(j) => {
                let cands: Vec<usize> = self.metas.iter().filter(|m| m.ts_result).map(|m| m.k).collect();
                if cands.is_empty() {
                    (lit_ts(981_173_106, 0, 0), false, vec![981_173_106])
                } else {
                    let p = cands[*j as usize % cands.len()];
                    let m = &self.metas[p];
                    (self.reads[p].clone(), m.tainted || m.tag != Tag::Explicit, m.instants.clone())
                }
            }
        }
    }

    /// text operand: literal or event field
    fn text(&mut self, k: usize, text: &str, field: bool) -> String {
        if field {
            let key = format!("s{k}");
            self.input.insert(key.clone(), TV::Str(text.to_string()));
            format!(".in.{key}")
        } else {
            vrlx::str_lit(text)
        }
    }

    /// emit the assignment of `expr` for statement k
    fn emit(&mut self, k: usize, expr: &str, fallible: bool, to_dep: bool) {
        let (ok, err) = if to_dep {
            (format!(".tz_dep.s{k}"), format!(".tz_dep.e{k}"))
        } else {
            match self.store % 3 {
                0 => (format!(".r.s{k}"), format!(".r.e{k}")),
                1 => (format!("%m.s{k}"), format!("%m.e{k}")),
                _ => (format!("v{k}"), format!("e{k}")),
            }
        };
        if fallible {
            self.lines.push(format!("{ok}, {err} = {expr}"));
        } else {
            self.lines.push(format!("{ok} = {expr}"));
        }
        if !to_dep && self.store % 3 == 2 {
            self.lines.push(format!(".r.s{k} = {ok}"));
            if fallible {
                self.lines.push(format!(".r.e{k} = {err}"));
            }
        }
        self.reads.push(ok);
    }
}

fn syslog_line(kind: u8, wall: i64, n: u32, off_min: i32, pri: u8, words: u8) -> String {
    let host = pick(HOSTS, words);
    let app = pick(APPS, words >> 2);
    let msg = pick(MSGS, words >> 4);
    let pri = pri % 192;
    let nd = naive(wall);
    match kind % 4 {
        0 => {
            let t = with_offset(wall, n / 1_000_000 * 1_000_000, off_min).to_rfc3339_opts(SecondsFormat::AutoSi, off_min == 0);
            format!("<{pri}>1 {t} {host} {app} 2426 ID931 [exampleSDID@32473 iut=\"3\" eventSource=\"Application\"] {msg}")
        }
        1 => {
            let t = with_offset(wall, 0, off_min).to_rfc3339_opts(SecondsFormat::Secs, false);
            format!("<{pri}>{t} {host} {app}[123]: {msg}")
        }
        2 => format!("<{pri}>{} {host} {app}[123]: {msg}", nd.format("%b %e %H:%M:%S")),
        _ => format!("<{pri}>{} {host} {app}[123]: {msg}", nd.format("%b %e %Y %H:%M:%S")),
    }
}

/// (function call text given the value operand, timestamp format entry)
fn log_call(func: u8, tsfmt: u8) -> (&'static str, Option<&'static str>, (Option<&'static str>, bool)) {
    match func % 6 {
        0 => ("parse_common_log", None, LOG_TS[tsfmt as usize % LOG_TS.len()]),
        1 => ("parse_apache_log", Some("common"), LOG_TS[tsfmt as usize % LOG_TS.len()]),
        2 => ("parse_apache_log", Some("combined"), LOG_TS[tsfmt as usize % LOG_TS.len()]),
        3 => ("parse_apache_log", Some("error"), ERR_TS[tsfmt as usize % ERR_TS.len()]),
        4 => ("parse_nginx_log", Some("combined"), LOG_TS[tsfmt as usize % LOG_TS.len()]),
        _ => ("parse_nginx_log", Some("error"), NGX_ERR_TS[tsfmt as usize % NGX_ERR_TS.len()]),
    }
}

fn log_line(func: u8, tstext: &str, words: u8) -> String {
    let host = pick(HOSTS, words);
    let user = pick(USERS, words >> 2);
    let path = pick(PATHS, words >> 4);
    match func % 6 {
        0 | 1 => format!("{host} - {user} [{tstext}] \"GET {path} HTTP/1.0\" 200 2326"),
        2 => format!("{host} - {user} [{tstext}] \"GET {path} HTTP/1.0\" 200 2326 \"http://www.example.com/start.html\" \"Mozilla/4.08 [en] (Win98; I ;Nav)\""),
        3 => format!("[{tstext}] [ab:alert] [pid 4803:tid 3814] [client 147.159.108.175:24259] {}", pick(MSGS, words >> 4)),
        4 => format!("172.17.0.1 - {user} [{tstext}] \"POST {path} HTTP/1.1\" 404 153 \"http://localhost/somewhere\" \"Mozilla/5.0 (Windows NT 6.1)\" \"2.75\""),
        _ => format!("{tstext} [error] 31#31: *1 open() \"/usr/share/nginx/html{path}\" failed (2: No such file or directory), client: 172.17.0.1, server: localhost, request: \"POST {path} HTTP/1.1\", host: \"localhost:8081\""),
    }
}

fn build(c: &Case) -> Built {
    let mut b = Builder { lines: Vec::new(), input: BTreeMap::new(), metas: Vec::new(), reads: Vec::new(), store: c.store };
    for (k, st) in c.stmts.iter().enumerate() {
        let mut meta = Meta {
            k,
            tag: Tag::Explicit,
            shape: Shape::Whole,
            has_err: false,
            wall: None,
            instants: Vec::new(),
            ts_result: false,
            tainted: false,
            label: "",
            syslog_with_year: false,
        };
        // (expression, fallible)
        let (expr, fallible): (String, bool) = match st {
            Stmt::Literal { src } => {
                let (e, t, i) = b.src(k, "a", src);
                meta.tainted = t;
                meta.instants = i;
                meta.ts_result = true;
                meta.label = "t_literal_or_copy";
                (e, false)
            }
            Stmt::ToUnix { src, unit } => {
                let (e, t, i) = b.src(k, "a", src);
                meta.tainted = t;
                meta.instants = i;
                meta.label = "to_unix_timestamp";
                (format!("to_unix_timestamp({e}, unit: \"{}\")", pick(UNITS_TO, *unit)), false)
            }
            Stmt::FromUnix { v, unit, field } => {
                let u = pick(UNITS_FROM, *unit);
                let div = match u {
                    "seconds" => 1,
                    "milliseconds" => 1_000,
                    "microseconds" => 1_000_000,
                    _ => 1_000_000_000i64,
                };
                meta.instants = vec![v.div_euclid(div)];
                meta.ts_result = true;
                meta.label = "from_unix_timestamp";
                let arg = if *field {
                    let key = format!("i{k}");
                    b.input.insert(key.clone(), TV::Int(*v));
                    format!(".in.{key}")
                } else {
                    vrlx::int_lit(*v)
                };
                (format!("from_unix_timestamp({arg}, unit: \"{u}\")"), true)
            }
            Stmt::ToStr { src, how } => {
                let (e, t, i) = b.src(k, "a", src);
                meta.tainted = t;
                meta.instants = i;
                match how % 3 {
                    0 => {
                        meta.label = "to_string";
                        (format!("to_string({e})"), false)
                    }
                    1 => {
                        meta.label = "encode_json";
                        (format!("encode_json({{\"t\": {e}}})"), false)
                    }
                    _ => {
                        meta.label = "to_int";
                        (format!("to_int({e})"), false)
                    }
                }
            }
            Stmt::Compare { a, b: bb, op } => {
                let (ea, ta, mut ia) = b.src(k, "a", a);
                let (eb, tb, ib) = b.src(k, "b", bb);
                meta.tainted = ta || tb;
                ia.extend(ib);
                meta.instants = ia;
                meta.label = "comparison";
                (format!("({ea} {} {eb})", pick(CMP, *op)), false)
            }
            Stmt::Format { src, fmt, tz } => {
                let (e, t, i) = b.src(k, "a", src);
                meta.tainted = t;
                meta.instants = i;
                let f = pick(FORMAT_FORMATS, *fmt);
                match tz {
                    Some(z) => {
                        meta.label = "format_timestamp_with_timezone";
                        (format!("format_timestamp({e}, format: {}, timezone: {})", vrlx::str_lit(f), vrlx::str_lit(pick(ARG_ZONES, *z))), true)
                    }
                    None => {
                        if !FORMAT_WITHOUT_TZ_IS_EXPLICIT {
                            meta.tag = Tag::Permitted;
                        }
                        meta.label = "format_timestamp_without_timezone";
                        (format!("format_timestamp({e}, format: {})", vrlx::str_lit(f)), true)
                    }
                }
            }
            Stmt::Parse { wall, n, off_min, fmt, tz, field, corrupt } => {
                let (f, zoned, minute) = PARSE_FORMATS[*fmt as usize % PARSE_FORMATS.len()];
                let dt = with_offset(*wall, *n, *off_min);
                let mut text = dt.format(f).to_string();
                if *corrupt {
                    text.push_str(" x");
                }
                let arg = b.text(k, &text, *field);
                let mut nd = naive(*wall);
                if minute {
                    nd = nd.with_second(0).expect("second 0");
                }
                meta.instants = vec![if zoned { dt.timestamp() } else { *wall }];
                meta.ts_result = true;
                let call = match tz {
                    Some(z) => format!("parse_timestamp({arg}, format: {}, timezone: {})", vrlx::str_lit(f), vrlx::str_lit(pick(ARG_ZONES, *z))),
                    None => format!("parse_timestamp({arg}, format: {})", vrlx::str_lit(f)),
                };
                if zoned {
                    meta.label = if tz.is_some() { "parse_timestamp_zoned_text_and_timezone_arg" } else { "parse_timestamp_zoned_text" };
                } else if tz.is_some() {
                    meta.label = "parse_timestamp_zoneless_text_with_timezone_arg";
                } else {
                    meta.tag = Tag::Implicit;
                    meta.label = "parse_timestamp_zoneless_text";
                    if !*corrupt {
                        meta.wall = Some(Wall::Full(nd));
                    }
                }
                (call, true)
            }
            Stmt::ParseValue { src, fmt } => {
                let (e, t, i) = b.src(k, "a", src);
                meta.tainted = t;
                meta.instants = i;
                meta.ts_result = true;
                meta.label = "parse_timestamp_of_timestamp";
                let (f, _, _) = PARSE_FORMATS[*fmt as usize % PARSE_FORMATS.len()];
                (format!("parse_timestamp({e}, format: {})", vrlx::str_lit(f)), true)
            }
            Stmt::Syslog { kind, wall, n, off_min, pri, words } => {
                let kind = *kind % 4;
                let line = syslog_line(kind, *wall, *n, *off_min, *pri, *words);
                let arg = b.text(k, &line, true);
                meta.shape = Shape::ObjectWithTimestamp;
                let nd = naive(*wall);
                match kind {
                    0 | 1 => {
                        meta.instants = vec![with_offset(*wall, 0, *off_min).timestamp()];
                        meta.label = if kind == 0 { "parse_syslog_rfc5424" } else { "parse_syslog_rfc3164_rfc3339_time" };
                    }
                    2 => {
                        meta.tag = Tag::Implicit;
                        meta.instants = vec![*wall];
                        meta.wall = Some(Wall::Yearless { mon: nd.month(), day: nd.day(), h: nd.hour(), mi: nd.minute(), s: nd.second() });
                        meta.label = "parse_syslog_rfc3164_no_year";
                    }
                    _ => {
                        meta.tag = Tag::Implicit;
                        meta.instants = vec![*wall];
                        meta.wall = Some(Wall::Full(nd));
                        meta.syslog_with_year = true;
                        meta.label = "parse_syslog_rfc3164_with_year";
                    }
                }
                (format!("parse_syslog({arg})"), true)
            }
            Stmt::Log { func, wall, off_min, tsfmt, words, field } => {
                let (fname, variant, (custom, zoned)) = log_call(*func, *tsfmt);
                let default_fmt = if *func % 6 == 5 { "%Y/%m/%d %H:%M:%S" } else { "%d/%b/%Y:%T %z" };
                let f = custom.unwrap_or(default_fmt);
                let dt = with_offset(*wall, 0, *off_min);
                let tstext = dt.format(f).to_string();
                let line = log_line(*func, &tstext, *words);
                let arg = b.text(k, &line, *field);
                let mut call = format!("{fname}({arg}");
                if let Some(v) = variant {
                    call.push_str(&format!(", format: \"{v}\""));
                }
                if let Some(cf) = custom {
                    call.push_str(&format!(", timestamp_format: {}", vrlx::str_lit(cf)));
                }
                call.push(')');
                meta.shape = Shape::ObjectWithTimestamp;
                if zoned {
                    meta.instants = vec![dt.timestamp()];
                    meta.label = "log_line_with_offset";
                } else {
                    meta.tag = Tag::Implicit;
                    meta.instants = vec![*wall];
                    meta.wall = Some(Wall::Full(naive(*wall)));
                    meta.label = "log_line_without_offset";
                }
                (call, true)
            }
            Stmt::TzName => {
                meta.tag = Tag::Permitted;
                meta.label = "get_timezone_name";
                ("get_timezone_name()".to_string(), true)
            }
            Stmt::Plain { kind, a, b: bb, words } => {
                meta.tag = Tag::Plain;
                meta.label = "unrelated";
                let w = pick(MSGS, *words);
                match kind % 10 {
                    0 => (format!("upcase({})", vrlx::str_lit(w)), false),
                    1 => (format!("({} + {})", vrlx::int_lit(*a % 1_000_000), vrlx::int_lit(*bb % 1_000_000)), false),
                    2 => {
                        let key = format!("o{k}");
                        b.input.insert(key.clone(), TV::obj([("a".to_string(), TV::Int(*a)), ("w".to_string(), TV::str(w))]));
                        (format!("encode_json(.in.{key})"), false)
                    }
                    3 => (format!("length({})", vrlx::str_lit(w)), false),
                    4 => (format!("split({}, \" \")", vrlx::str_lit(w)), false),
                    5 => (format!("to_string({})", vrlx::int_lit(*a)), false),
                    6 => (format!("if {} > {} {{ \"gt\" }} else {{ \"le\" }}", vrlx::int_lit(*a), vrlx::int_lit(*bb)), false),
                    7 => (format!("sha1({})", vrlx::str_lit(w)), false),
                    8 => {
                        let key = format!("j{k}");
                        b.input.insert(key.clone(), TV::Str(format!("{{\"a\": {a}, \"b\": [{bb}, null]}}")));
                        (format!("parse_json(.in.{key})"), true)
                    }
                    _ => (format!("parse_key_value({})", vrlx::str_lit("x=1 y=2")), true),
                }
            }
        };
        if meta.tainted && meta.tag == Tag::Explicit {
            meta.tag = Tag::Derived;
        }
        meta.has_err = fallible;
        let to_dep = !matches!(meta.tag, Tag::Explicit | Tag::Plain);
        b.emit(k, &expr, fallible, to_dep);
        b.metas.push(meta);
    }
    b.lines.push(".r".to_string());
    let event = TV::obj([("in".to_string(), TV::Object(b.input.clone()))]).to_value();
    Built { src: b.lines.join("\n"), event, metas: b.metas }
}

// ------------------------------------------------------------------------------------------
// oracle

fn field<'a>(v: &'a Value, key: &str) -> Option<&'a Value> {
    v.as_object().and_then(|o| o.get(key))
}

fn without(v: &Value, key: &str) -> Value {
    match v {
        Value::Object(o) => {
            let mut o = o.clone();
            o.remove(key);
            Value::Object(o)
        }
        other => other.clone(),
    }
}

/// Some(true): the two zones map this wall-clock time to different single offsets (the implicit
/// operation must give different instants); Some(false): same single offset; None: skipped or
/// repeated wall-clock time in one of the zones (nothing required).
fn offsets_differ(za: u8, zb: u8, w: &Wall) -> Option<bool> {
    match w {
        Wall::Full(nd) => {
            let a = timez::local_map(za, nd).single()?;
            let b = timez::local_map(zb, nd).single()?;
            Some(a != b)
        }
        Wall::Yearless { mon, day, h, mi, s } => {
            // the year is taken from the clock inside vrl: only decide when every plausible year agrees
            let mut verdict: Option<bool> = None;
            for y in 2024..=2060 {
                let nd = NaiveDate::from_ymd_opt(y, *mon, *day)?.and_hms_opt(*h, *mi, *s)?;
                let a = timez::local_map(za, &nd).single()?;
                let b = timez::local_map(zb, &nd).single()?;
                match verdict {
                    None => verdict = Some(a != b),
                    Some(v) if v != (a != b) => return None,
                    _ => {}
                }
            }
            verdict
        }
    }
}

/// generator-health class for an explicit fallible operation that failed (identically) in both runs
fn failed_label(label: &str) -> &'static str {
    match label {
        "from_unix_timestamp" => "failed:from_unix_timestamp",
        "format_timestamp_with_timezone" => "failed:format_timestamp_with_timezone",
        "parse_timestamp_zoned_text" => "failed:parse_timestamp_zoned_text",
        "parse_timestamp_zoned_text_and_timezone_arg" => "failed:parse_timestamp_zoned_text_and_timezone_arg",
        "parse_timestamp_zoneless_text_with_timezone_arg" => "failed:parse_timestamp_zoneless_text_with_timezone_arg",
        "parse_timestamp_of_timestamp" => "failed:parse_timestamp_of_timestamp",
        "parse_syslog_rfc5424" => "failed:parse_syslog_rfc5424",
        "parse_syslog_rfc3164_rfc3339_time" => "failed:parse_syslog_rfc3164_rfc3339_time",
        "log_line_with_offset" => "failed:log_line_with_offset",
        "unrelated" => "failed:unrelated",
        _ => "failed:other",
    }
}

fn check(c: &Case) -> V {
    if c.za as usize >= ZONES.len() || c.zb as usize >= ZONES.len() || c.za == c.zb {
        return V::discard("zone pair must be two distinct configured zones");
    }
    let b = build(c);
    let prog = match vrlx::compile(&b.src) {
        Ok(r) => r.program,
        Err(d) => return V::fail_sig("harness_program_rejected", format!("generated program was rejected (harness defect, not a vrl defect): {}\n{}", vrlx::diag_summary(&d), b.src)),
    };
    let (za, zb) = (timez::zone(c.za), timez::zone(c.zb));
    let oa = vrlx::run_tz(&prog, b.event.clone(), vrlx::empty_object(), &za);
    let ob = vrlx::run_tz(&prog, b.event.clone(), vrlx::empty_object(), &zb);
    let ctx = || format!("zones {} vs {}\nprogram:\n{}\nevent: {}", ZONES[c.za as usize], ZONES[c.zb as usize], b.src, b.event);

    // 1. everything outside `.tz_dep` is identical
    if oa.end != ob.end {
        return V::fail(format!("program outcome differs: {:?} vs {:?}\n{}", oa.end, ob.end, ctx()));
    }
    if !matches!(oa.end, End::Ok(_)) {
        return V::fail(format!("generated program did not end normally: {:?}\n{}", oa.end, ctx()));
    }
    if oa.metadata != ob.metadata {
        return V::fail(format!("metadata differs: {} vs {}\n{}", oa.metadata, ob.metadata, ctx()));
    }
    let (ea, eb) = (without(&oa.event, "tz_dep"), without(&ob.event, "tz_dep"));
    if ea != eb {
        return V::fail(format!("event outside .tz_dep differs: {ea} vs {eb}\n{}", ctx()));
    }

    // 2. implicit operations
    let null = Value::Null;
    let mut v = V::pass();
    let (mut must, mut time_ops, mut ok_ops, mut err_ops) = (0u32, 0u32, 0u32, 0u32);
    let da = field(&oa.event, "tz_dep").cloned().unwrap_or(Value::Null);
    let db = field(&ob.event, "tz_dep").cloned().unwrap_or(Value::Null);
    for m in &b.metas {
        if m.tag != Tag::Plain {
            time_ops += 1;
        }
        v = v.class(m.label);
        let (sk, ek) = (format!("s{}", m.k), format!("e{}", m.k));
        match m.tag {
            Tag::Explicit | Tag::Plain => {
                // success rate of the explicit templates (generator health)
                if m.has_err {
                    let root = match c.store % 3 {
                        1 => &oa.metadata,
                        _ => field(&oa.event, "r").unwrap_or(&null),
                    };
                    if field(root, &ek).unwrap_or(&null).is_null() {
                        ok_ops += 1;
                    } else {
                        err_ops += 1;
                        v = v.class(failed_label(m.label));
                    }
                }
            }
            Tag::Permitted | Tag::Derived => {
                let same = field(&da, &sk) == field(&db, &sk);
                let fmt = m.label == "format_timestamp_without_timezone" && !m.tainted;
                v = v
                    .class_if(fmt && same, "format_without_timezone_same_result")
                    .class_if(fmt && !same, "format_without_timezone_differs")
                    .class_if(m.tag == Tag::Derived && same, "derived_op_same_result")
                    .class_if(m.tag == Tag::Derived && !same, "derived_op_differs");
            }
            Tag::Implicit => {
                let (ra, rb) = (field(&da, &sk).unwrap_or(&null), field(&db, &sk).unwrap_or(&null));
                let (xa, xb) = (field(&da, &ek).unwrap_or(&null), field(&db, &ek).unwrap_or(&null));
                let (ta, tb, rest_a, rest_b) = match m.shape {
                    Shape::Whole => (ra.clone(), rb.clone(), Value::Null, Value::Null),
                    Shape::ObjectWithTimestamp => (
                        field(ra, "timestamp").cloned().unwrap_or(Value::Null),
                        field(rb, "timestamp").cloned().unwrap_or(Value::Null),
                        without(ra, "timestamp"),
                        without(rb, "timestamp"),
                    ),
                };
                let both_ok = xa.is_null() && xb.is_null();
                if both_ok && rest_a != rest_b {
                    return V::fail(format!("statement {} ({}): fields other than the timestamp differ: {rest_a} vs {rest_b}\n{}", m.k, m.label, ctx()));
                }
                let Some(w) = &m.wall else { continue };
                match offsets_differ(c.za, c.zb, w) {
                    Some(true) => {
                        must += 1;
                        if (&ta, xa) == (&tb, xb) {
                            let sig = if m.syslog_with_year { "syslog_3164_with_year_ignores_zone" } else { "implicit_op_ignores_zone" };
                            return V::fail_sig(
                                sig,
                                format!(
                                    "statement {} ({}): wall-clock text without zone gave the same result {ta} (err {xa}) under two configured zones whose offsets differ for that wall-clock time\n{}",
                                    m.k,
                                    m.label,
                                    ctx()
                                ),
                            );
                        }
                        v = v.class("implicit_must_differ_checked");
                    }
                    Some(false) => v = v.class("implicit_same_offset"),
                    None => v = v.class("implicit_wall_clock_skipped_or_repeated"),
                }
                if !both_ok {
                    v = v.class("implicit_op_error_in_some_zone");
                }
            }
        }
    }
    // non-trivial: >= 1 time operation and the zones' offsets differ at an instant involved
    let differ = b.metas.iter().filter(|m| m.tag != Tag::Plain).flat_map(|m| m.instants.iter()).any(|s| {
        let t = ts(*s, 0);
        timez::offset_at(c.za, &t) != timez::offset_at(c.zb, &t)
    });
    let has_explicit = b.metas.iter().any(|m| m.tag == Tag::Explicit);
    v.nontrivial(time_ops >= 1 && differ)
        .class_if(must > 0, "has_must_differ_obligation")
        .class_if(has_explicit, "has_explicit_op")
        .class_if(!b.metas.iter().any(|m| matches!(m.tag, Tag::Implicit | Tag::Permitted | Tag::Derived)), "no_zone_dependent_op")
        .class_if(b.metas.iter().any(|m| m.tag == Tag::Derived), "has_derived_op")
        .class_if(ok_ops > 0, "explicit_fallible_op_succeeded")
        .class_if(err_ops > 0, "explicit_fallible_op_failed_identically")
        .class_if(c.za == timez::LOCAL || c.zb == timez::LOCAL, "pair_with_local")
        .class_if(c.za >= 3 && c.za <= 5 || c.zb >= 3 && c.zb <= 5, "pair_with_dst_zone")
}

// ------------------------------------------------------------------------------------------
// generators

/// unix seconds in 1902..2037, 40 % next to a DST transition
fn secs() -> impl Strategy<Value = i64> {
    prop_oneof![
        1 => prop_oneof![Just(0i64), Just(1_700_000_000), Just(951_782_400), Just(1_616_893_200), Just(1_635_642_000), Just(-1), Just(i64::from(i32::MAX) - 86_400)],
        3 => 0i64..2_114_380_800,
        1 => -2_145_916_800i64..0,
        4 => (3u8..6, 0i64..2_082_758_400, prop_oneof![-7300i64..7300, -2i64..=2, Just(-3600i64), Just(3599i64), Just(-1800), Just(1799)])
            .prop_map(|(z, s0, d)| timez::near_transition(z, s0, d)),
    ]
}

/// wall-clock seconds (naive local time as seconds since 1970): an instant shifted by the offset
/// of one of the configured zones, so that gaps and overlaps of that zone are hit
fn wall() -> impl Strategy<Value = i64> {
    (secs(), 0u8..6).prop_map(|(s, z)| s + i64::from(timez::offset_at(z, &ts(s, 0))))
}

fn nanos() -> impl Strategy<Value = u32> {
    prop_oneof![3 => Just(0u32), 1 => (0u32..1000).prop_map(|m| m * 1_000_000), 1 => 0u32..1_000_000_000]
}

fn off_min() -> impl Strategy<Value = i32> {
    prop_oneof![2 => Just(0i32), 3 => prop_oneof![Just(330i32), Just(-300), Just(-240), Just(60), Just(120), Just(630), Just(660), Just(-420)], 1 => -14 * 60..=14 * 60i32]
}

fn src() -> impl Strategy<Value = Src> {
    prop_oneof![
        3 => (secs(), nanos(), off_min()).prop_map(|(s, n, off_min)| Src::Lit { s, n, off_min }),
        3 => (secs(), nanos()).prop_map(|(s, n)| Src::Field { s, n }),
        3 => any::<u8>().prop_map(Src::Prev),
    ]
}

fn opt_zone() -> impl Strategy<Value = Option<u8>> {
    prop_oneof![1 => Just(None), 1 => (0..ARG_ZONES.len() as u8 - 1).prop_map(Some), 1 => prop_oneof![9 => 0..ARG_ZONES.len() as u8 - 1, 1 => Just(ARG_ZONES.len() as u8 - 1)].prop_map(Some)]
}

/// `excl_syslog_year`: open finding D40 — RFC 3164 lines with a year are left out (kind 3 -> 2)
fn stmt(excl_syslog_year: bool) -> impl Strategy<Value = Stmt> {
    prop_oneof![
        1 => src().prop_map(|src| Stmt::Literal { src }),
        2 => (src(), 0u8..3).prop_map(|(src, unit)| Stmt::ToUnix { src, unit }),
        2 => (secs(), 0u8..4, nanos(), any::<bool>()).prop_map(|(s, unit, n, field)| {
            let v = match unit {
                0 => s,
                1 => s * 1_000 + i64::from(n / 1_000_000),
                2 => s * 1_000_000 + i64::from(n / 1_000),
                _ => s * 1_000_000_000 + i64::from(n),
            };
            Stmt::FromUnix { v, unit, field }
        }),
        2 => (src(), 0u8..3).prop_map(|(src, how)| Stmt::ToStr { src, how }),
        2 => (src(), src(), 0u8..6).prop_map(|(a, b, op)| Stmt::Compare { a, b, op }),
        5 => (src(), 0..FORMAT_FORMATS.len() as u8, opt_zone()).prop_map(|(src, fmt, tz)| Stmt::Format { src, fmt, tz }),
        8 => (wall(), nanos(), off_min(), 0..PARSE_FORMATS.len() as u8, opt_zone(), any::<bool>(), prop_oneof![15 => Just(false), 1 => Just(true)])
            .prop_map(|(wall, n, off_min, fmt, tz, field, corrupt)| Stmt::Parse { wall, n, off_min, fmt, tz, field, corrupt }),
        1 => (src(), 0..PARSE_FORMATS.len() as u8).prop_map(|(src, fmt)| Stmt::ParseValue { src, fmt }),
        4 => (0u8..4, wall(), nanos(), off_min(), any::<u8>(), any::<u8>()).prop_map(move |(kind, wall, n, off_min, pri, words)| {
            let kind = if kind == 3 && excl_syslog_year { 2 } else { kind };
            Stmt::Syslog { kind, wall, n, off_min, pri, words }
        }),
        6 => (0u8..6, wall(), off_min(), 0u8..5, any::<u8>(), any::<bool>()).prop_map(|(func, wall, off_min, tsfmt, words, field)| Stmt::Log { func, wall, off_min, tsfmt, words, field }),
        1 => Just(Stmt::TzName),
        3 => (0u8..10, -1000i64..1000, -1000i64..1000, any::<u8>()).prop_map(|(kind, a, b, words)| Stmt::Plain { kind, a, b, words }),
    ]
}

fn case(excl_syslog_year: bool) -> impl Strategy<Value = Case> {
    (proptest::collection::vec(stmt(excl_syslog_year), 1..=8), 0..ZONES.len() as u8, 1..ZONES.len() as u8, 0u8..3).prop_map(|(stmts, za, d, store)| Case { stmts, za, zb: (za + d) % ZONES.len() as u8, store })
}

/// Unix-seconds text names an instant: `parse_timestamp(text, "%s")` must not depend on the
/// configured zone.
#[derive(Clone, Debug, Serialize, Deserialize)]
pub struct UnixCase {
    pub secs: i64,
    /// sub-second digits appended with `%.f` (0 = plain `%s`)
    pub nanos: u32,
    pub zone_a: u8,
    pub zone_b: u8,
}

fn check_unix(c: &UnixCase, exclude_repeated_hour: bool) -> V {
    use chrono::TimeZone as _;
    let t = chrono::Utc.timestamp_opt(c.secs, c.nanos).single().expect("in range");
    // known finding (shared root cause with C35 D39): an instant whose wall-clock reading is
    // ambiguous in the configured zone cannot be parsed with `%s`
    let ambiguous = [c.zone_a, c.zone_b].iter().any(|z| timez::local_map(*z, &timez::wall_clock(*z, &t)).single().is_none());
    if exclude_repeated_hour && ambiguous {
        return V::excluded("c36_unix_seconds_repeated_hour");
    }
    let (text, fmt) = if c.nanos == 0 { (format!("{}", c.secs), "%s") } else { (format!("{}.{:09}", c.secs, c.nanos), "%s%.f") };
    let src = format!(".r = parse_timestamp!(.s, {})\n.i = to_unix_timestamp(.r, unit: \"nanoseconds\")\n", vrlx::str_lit(fmt));
    let res = match vrlx::compile(&src) {
        Ok(r) => r,
        Err(d) => return V::fail(format!("program rejected: {}", vrlx::diag_summary(&d))),
    };
    let ev = vrlx::event_of(&[("s", &TV::Str(text.clone()))]);
    let a = vrlx::run_tz(&res.program, ev.clone(), vrlx::empty_object(), &timez::zone(c.zone_a));
    let b = vrlx::run_tz(&res.program, ev, vrlx::empty_object(), &timez::zone(c.zone_b));
    if a.end != b.end || a.event != b.event {
        return V::fail(format!(
            "parse_timestamp!({text:?}, {fmt:?}) depends on the configured zone: under {} -> {:?} / {}, under {} -> {:?} / {}",
            timez::zone_name(c.zone_a), a.end, a.event, timez::zone_name(c.zone_b), b.end, b.event
        ));
    }
    let want = c.secs as i128 * 1_000_000_000 + i128::from(c.nanos);
    if a.end.is_success() {
        let got = a.event.get(&vrl::path::parse_value_path("i").expect("path")).and_then(|v| v.as_integer());
        if got.map(i128::from) != Some(want) {
            return V::fail(format!("parse_timestamp!({text:?}, {fmt:?}) under {} gives {got:?} ns, the text names {want} ns", timez::zone_name(c.zone_a)));
        }
    } else {
        return V::fail(format!("parse_timestamp!({text:?}, {fmt:?}) failed under {}: {:?}", timez::zone_name(c.zone_a), a.end));
    }
    V::pass().nontrivial(timez::offset_at(c.zone_a, &t) != timez::offset_at(c.zone_b, &t)).class_if(c.nanos != 0, "with_fraction")
}

fn unix_case() -> impl Strategy<Value = UnixCase> {
    (
        prop_oneof![3 => 0i64..2_000_000_000, 1 => (0u8..6, 0i64..2_000_000_000, -7200i64..7200).prop_map(|(z, s, d)| timez::near_transition(z, s, d).clamp(0, 2_000_000_000))],
        prop_oneof![2 => Just(0u32), 1 => 1u32..1_000_000_000],
        0u8..7,
        0u8..7,
    )
        .prop_map(|(secs, nanos, a, b)| UnixCase { secs, nanos, zone_a: a, zone_b: if a == b { (b + 1) % 7 } else { b } })
}

pub fn run(r: &mut Run) {
    let excl = r.excluded("c36_syslog_3164_with_year");
    r.sub("two_zone_runs", 120_000, 8_000_000, move || case(excl), check);
    let excl_hour = r.excluded("c36_unix_seconds_repeated_hour");
    r.sub("unix_seconds_text", 60_000, 3_000_000, unix_case, move |c| check_unix(c, excl_hour));
}
