//! C16 — reported target queries and assignments are complete.

use serde::{Deserialize, Serialize};
use vrl::path::{OwnedTargetPath, PathPrefix};

use crate::engine::{Run, V};
use crate::gens::mutprog::{self, Cfg, MutCase};
use crate::gens::path::{from_owned_path, SegPath};
use crate::gens::prog::program_src;
use crate::gens::proggen::{self, ProgCase};
use crate::gens::value::TV;
use crate::model::targets::{Access, LogTarget, Op};
use crate::props::progdiff;
use crate::vrlx;

pub const RULE: &str = "cases = accepted programs x events, from three sources: (1) `target_functions`: the mutation-heavy generator (gens/mutprog.rs, no read-only paths) with its extras switched on: writes, `|=`, `ok, err =` with event/metadata targets, del with/without compact, get/get!/set!/remove! on `.` and `%` and on top-level fields, exists, unnest, for_each(.)/for_each(%)/map_values(.), queries on object/array literals, templates, quoted field names, negative indices, all of them also inside branches, closure bodies, blocks and short-circuit/coalesce operands; (2) `generated_programs`: the shared type-directed program generator (gens/proggen.rs, BASE preset with returns and aborts); (3) `source_cases`: hand-written programs, one per construct. Each accepted program runs through `Program::resolve` on a Target wrapper around TargetValue that logs the path of every target_get/target_get_mut/target_insert/target_remove. Oracle: every read path is equal to, an ancestor of, or a descendant of (segment-wise equality, same prefix) some entry of `program.info().target_queries`; every inserted path likewise w.r.t. `target_assignments`; every removed path is covered by `target_queries` (the argument of `del` is compiled as a query; the statement defines no third list). Non-trivial = the run accessed >= 2 distinct target paths and at least one access came through a function (a remove, or the program contains exists/get/set/remove/unnest/for_each(.)-style calls), and at least one access is not already covered by a reported root entry (`.` or `%` in the list covers every path of its prefix). Distinct = distinct serialised cases. Rejected programs are discards.";
pub const NOTE: &str = "only accesses that reach the Target trait are observed (reads of variables and of values already copied out of the target are invisible by design); the runtime's own root probe in Runtime::resolve is deliberately not attributed to the program; `covered` compares segments literally, as the compiler reports them";

#[derive(Clone, Debug, Serialize, Deserialize)]
pub struct SrcCase {
    pub name: String,
    pub src: String,
    pub event: TV,
    #[serde(default = "empty_obj")]
    pub meta: TV,
}

fn empty_obj() -> TV {
    TV::Object(Default::default())
}

fn seg_path(p: &OwnedTargetPath) -> (bool, SegPath) {
    (p.prefix == PathPrefix::Metadata, from_owned_path(&p.path))
}

fn covered(a: &Access, list: &[(bool, SegPath)]) -> bool {
    list.iter().any(|(m, q)| *m == a.meta && (q.starts_with(&a.path) || a.path.starts_with(q)))
}

fn render_list(list: &[(bool, SegPath)]) -> String {
    let items: Vec<String> = list
        .iter()
        .map(|(m, p)| crate::gens::prog::target_src(&if *m { crate::gens::prog::Target::Meta(p.clone()) } else { crate::gens::prog::Target::Ev(p.clone()) }))
        .collect();
    format!("[{}]", items.join(", "))
}

const FUNCTION_HINTS: &[&str] = &["exists(", "get(", "get!(", "set!(", "set(", "remove!(", "remove(", "unnest(", "unnest!(", "for_each(.)", "for_each(%)", "map_values(.)", "map_values(%)", "del("];

pub fn check_src(src: &str, event: &TV, meta: &TV) -> V {
    let res = match vrlx::compile(src) {
        Ok(r) => r,
        Err(d) => {
            let code = vrlx::diag_codes(&d).first().copied().unwrap_or(0);
            return V::discard(crate::props::c22::intern(format!("rejected_E{code}")));
        }
    };
    let info = res.program.info();
    let queries: Vec<(bool, SegPath)> = info.target_queries.iter().map(seg_path).collect();
    let assignments: Vec<(bool, SegPath)> = info.target_assignments.iter().map(seg_path).collect();
    let mut target = LogTarget::new(event.to_value(), meta.to_value());
    let (end, _state) = vrlx::run_on(&res.program, &mut target, &vrlx::utc());
    let log = target.accesses();
    for a in &log {
        let (list, which) = match a.op {
            Op::Get | Op::GetMut | Op::Remove => (&queries, "target_queries"),
            Op::Insert => (&assignments, "target_assignments"),
        };
        if !covered(a, list) {
            let sig = format!("c16:{}:{}", match a.op { Op::Get | Op::GetMut => "read", Op::Insert => "insert", Op::Remove => "remove" }, which);
            return V::fail_sig(
                sig,
                format!(
                    "runtime access {} is not covered by the reported {which} {}\n--- program:\n{src}--- target_queries: {}\n--- target_assignments: {}\n--- event: {}\n--- metadata: {}\n--- all accesses: {}",
                    a.render(),
                    render_list(list),
                    render_list(&queries),
                    render_list(&assignments),
                    event.to_value(),
                    meta.to_value(),
                    log.iter().map(Access::render).collect::<Vec<_>>().join(" "),
                ),
            );
        }
    }
    let mut distinct: Vec<(bool, &SegPath)> = log.iter().map(|a| (a.meta, &a.path)).collect();
    distinct.sort();
    distinct.dedup();
    let via_function = log.iter().any(|a| a.op == Op::Remove) || FUNCTION_HINTS.iter().any(|h| src.contains(h));
    // an access that no reported *root* entry covers (a reported `.` covers every event path)
    let has_root = |list: &[(bool, SegPath)], meta: bool| list.iter().any(|(m, p)| *m == meta && p.is_empty());
    let specific = log.iter().any(|a| match a.op {
        Op::Insert => !has_root(&assignments, a.meta),
        _ => !has_root(&queries, a.meta),
    });
    let mut v = V::pass().nontrivial(distinct.len() >= 2 && via_function && specific).class(end.class());
    v = v
        .class_if(!has_root(&queries, false), "event_root_not_in_queries")
        .class_if(!has_root(&queries, true), "metadata_root_not_in_queries")
        .class_if(!has_root(&assignments, false) && !has_root(&assignments, true), "no_root_in_assignments")
        .class_if(specific, "has_access_not_covered_by_a_root_entry");
    v = v
        .class_if(log.iter().any(|a| a.op == Op::Get), "runtime_read")
        .class_if(log.iter().any(|a| a.op == Op::Insert), "runtime_insert")
        .class_if(log.iter().any(|a| a.op == Op::Remove), "runtime_remove")
        .class_if(log.iter().any(|a| a.op == Op::GetMut), "runtime_get_mut")
        .class_if(log.iter().any(|a| a.meta), "metadata_access")
        .class_if(log.iter().any(|a| a.path.is_empty()), "root_access")
        .class_if(log.iter().any(|a| a.op == Op::Insert && a.meta), "metadata_insert")
        .class_if(log.iter().any(|a| a.compact), "remove_with_compact")
        .class_if(log.is_empty(), "no_target_access");
    for h in ["exists(", "get!(", "get(", "set!(", "remove!(", "unnest(", "for_each(.)", "for_each(%)", "map_values(", " |= ", "{{ ", ", err = ", "_, ", "for_each("] {
        if src.contains(h) {
            v = v.class(crate::props::c22::intern(format!("src_has:{}", h.trim())));
        }
    }
    v
}

fn check_mut(c: &MutCase) -> V {
    check_src(&program_src(&c.prog), &c.event, &c.meta)
}

fn check_prog(c: &ProgCase) -> V {
    check_src(&program_src(&c.prog), &c.event, &c.meta)
}

fn check_source_case(c: &SrcCase) -> V {
    let v = check_src(&c.src, &c.event, &c.meta);
    if matches!(v.outcome, crate::engine::Outcome::Discard(_)) {
        V::fail(format!("source case `{}` must compile:\n{}", c.name, c.src))
    } else if v.is_fail() {
        v
    } else {
        v.nontrivial(true)
    }
}

fn source_cases() -> Vec<SrcCase> {
    use crate::props::pinned::ev;
    let e = ev(&[
        ("a", ev(&[("b", TV::Int(1)), ("k", TV::Array(vec![TV::Int(1), TV::Int(2)]))])),
        ("arr", TV::Array(vec![TV::Int(1), ev(&[("x", TV::Int(2))])])),
        ("s", TV::Str("12".into())),
        ("flag", TV::Bool(true)),
    ]);
    let m = ev(&[("m", TV::Int(1)), ("arr", TV::Array(vec![TV::Int(1)]))]);
    let list: &[(&str, &str)] = &[
        ("plain query and assignment", ".x = .a.b\n.y = %m\n%z = .arr[1].x"),
        ("negative indices", ".x = .arr[-1]\n.arr[-2] = 5\n.a.k[-1] = .a.k[0]"),
        ("del and exists", "x = del(.a.b)\ny = exists(.a.k[1])\nz = del(%m, compact: true)\ndel(.arr[0].x)"),
        ("get on the event root", "x = get!(., [\"a\", \"b\"])\ny = get!(., [\"arr\", -1])"),
        ("get on the metadata root", "x = get!(%, [\"m\"])"),
        ("get on a field", "x = get!(.a, [\"k\", 0])"),
        ("set and remove on roots", ". = set!(., [\"a\", \"c\"], 1)\n. = remove!(., [\"arr\", 0])\n% = set!(%, [\"n\"], 2)"),
        ("unnest", "x = unnest!(.arr)\ny = unnest!(.a.k)\nz = unnest(%arr) ?? []"),
        ("iteration over the root", "for_each(.) -> |k, v| { .seen = k }\n.o = map_values(.) -> |v| { v }\n.f = filter(%) -> |_k, _v| { true }"),
        ("merge assignment", ".n = {\"q\": .a}\n.n |= {\"z\": 1}\n%o = {}\n%o |= {\"z\": .s}"),
        ("infallible assignment", ".ok, .err = to_int(.s)\n%ok, err = to_int(.flag)\n_, %e = to_int(.a)\nx, .a.err = to_int(.arr)"),
        ("template", "t = string(.s) ?? \"d\"\n.msg = \"pre {{ t }} post\""),
        ("queries on containers", "x = {\"a\": .a.b}.a\ny = [.s, %m][1]"),
        ("quoted fields", ".\"x y\" = .a.\"k.k\"\ndel(.\"x y\")"),
        ("in closures and branches", "for_each(array(.arr) ?? []) -> |_i, v| { if exists(.a.b) { .c = v } else { del(.a.k) } }\nif .flag == true { %b = .s } else { .e = %m }"),
        ("root assignment", ". = {\"n\": .s}\n% = {\"o\": %m}"),
        ("root query", "x = .\ny = %\n.copy = x"),
        ("abort and return", "if .flag == true { .q = 1; return .a }\nabort"),
        ("short circuit and coalesce", "x = (.flag == true || { .w = 1; true })\ny = to_int(.a) ?? { del(.s); 0 }"),
    ];
    list.iter().map(|(n, s)| SrcCase { name: (*n).into(), src: format!("{s}\n"), event: e.clone(), meta: m.clone() }).collect()
}

pub fn run(r: &mut Run) {
    r.enumerate("source_cases", source_cases(), check_source_case);
    let cfg = Cfg { read_only: false, extras: true, unnest: true, no_final_roots: true, ..Cfg::default() };
    r.sub("target_functions", 110_000, 6_000_000, move || mutprog::strategy(cfg), check_mut);
    let preset = proggen::Preset { returns: 2, aborts: 1, dels: 4, closures: 3, ..progdiff::base_preset(r) };
    r.sub("generated_programs", 40_000, 2_000_000, move || proggen::strategy(preset), check_prog);
}
