//! One module per property; `all()` is the registry used by the CLI.

use crate::engine::Run;

pub struct Prop {
    pub id: &'static str,
    pub rule: &'static str,
    pub note: &'static str,
    pub body: fn(&mut Run),
}

macro_rules! registry {
    ($($m:ident => $id:literal),* $(,)?) => {
        $(pub mod $m;)*
        pub fn all() -> Vec<Prop> {
            vec![$(Prop { id: $id, rule: $m::RULE, note: $m::NOTE, body: $m::run },)*]
        }
    };
}

pub mod c04_calls;
pub mod callsup;
pub mod pinned;
pub mod progdiff;
pub mod typesound;

registry! {
    c01 => "C01",
    c02 => "C02",
    c03 => "C03",
    c04 => "C04",
    c05 => "C05",
    c06 => "C06",
    c07 => "C07",
    c08 => "C08",
    c09 => "C09",
    c10 => "C10",
    c11 => "C11",
    c12 => "C12",
    c13 => "C13",
    c14 => "C14",
    c15 => "C15",
    c16 => "C16",
    c17 => "C17",
    c18 => "C18",
    c19 => "C19",
    c20 => "C20",
    c21 => "C21",
    c22 => "C22",
    c23 => "C23",
    c24 => "C24",
    c25 => "C25",
    c26 => "C26",
    c27 => "C27",
    c28 => "C28",
    c29 => "C29",
    c30 => "C30",
    c31 => "C31",
    c32 => "C32",
    c33 => "C33",
    c34 => "C34",
    c35 => "C35",
    c36 => "C36",
}

pub fn rule(id: &str) -> String {
    all().into_iter().find(|p| p.id == id).map(|p| p.rule.to_string()).unwrap_or_default()
}
