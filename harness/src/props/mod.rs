//! One module per property; `all()` is the registry used by the CLI.

use crate::engine::Run;

pub mod c10;
pub mod c11;
pub mod c18;

pub struct Prop {
    pub id: &'static str,
    pub rule: &'static str,
    pub note: &'static str,
    pub body: fn(&mut Run),
}

pub fn all() -> Vec<Prop> {
    vec![
        Prop { id: "C10", rule: c10::RULE, note: c10::NOTE, body: c10::run },
        Prop { id: "C11", rule: c11::RULE, note: c11::NOTE, body: c11::run },
        Prop { id: "C18", rule: c18::RULE, note: c18::NOTE, body: c18::run },
    ]
}

pub fn rule(id: &str) -> String {
    all().into_iter().find(|p| p.id == id).map(|p| p.rule.to_string()).unwrap_or_default()
}
