//! C18 — value path operations obey get/insert/remove laws.

use proptest::prelude::*;
use serde::{Deserialize, Serialize};
use vrl::value::Value;

use crate::engine::{Run, V};
use crate::gens::path::{path, to_owned_path, Seg, SegPath};
use crate::gens::value::{pick, value, FULL, TV};
use crate::model::vpath;

pub const RULE: &str = "cases = (value tree depth<=4 over all nine Value variants, path of 0..4 field/index segments incl. negative and out-of-range indices — half of the paths are derived from a location that exists in the value —, inserted value, prune flag) and histories of 1..8 insert/remove/get operations; every case is run through Value::{get,insert,remove} and through the harness's own functional model. Non-trivial = the value has something at the path's first segment and the path has >=2 segments or a negative index (histories: >=2 mutating operations of which one hits existing structure). Distinct = distinct serialised cases.";
pub const NOTE: &str = "trusts the ~120-line reference model of get/insert/remove (model/vpath.rs) and the lossless TV<->Value conversion; locations below a container that the insertion replaces because the path segment kind does not match it are exempt from the frame law (documented insert semantics; still compared against the model)";

#[derive(Clone, Debug, Serialize, Deserialize)]
pub struct InsCase {
    pub v: TV,
    pub p: SegPath,
    pub x: TV,
}

#[derive(Clone, Debug, Serialize, Deserialize)]
pub struct RemCase {
    pub v: TV,
    pub p: SegPath,
    pub prune: bool,
}

#[derive(Clone, Debug, Serialize, Deserialize)]
pub enum Op {
    Insert(SegPath, TV),
    Remove(SegPath, bool),
    Get(SegPath),
}

#[derive(Clone, Debug, Serialize, Deserialize)]
pub struct HistCase {
    pub v: TV,
    pub ops: Vec<Op>,
}

/// (value, path) where the path is often derived from an existing location
pub fn value_and_path() -> impl Strategy<Value = (TV, SegPath)> {
    (value(FULL, 4), path(0, 4), any::<u16>(), 0u8..8, path(0, 2)).prop_map(|(v, rnd, sel, mode, extra)| {
        let mut locs = Vec::new();
        vpath::locations(&v, &mut Vec::new(), &mut locs);
        if mode < 4 && !locs.is_empty() {
            let (mut p, _) = pick(&locs, sel);
            // optionally express an index from the back
            if mode == 1 {
                rewrite_last_index_negative(&v, &mut p);
            }
            if mode >= 2 {
                p.extend(extra);
            }
            (v, p)
        } else {
            (v, rnd)
        }
    })
}

fn rewrite_last_index_negative(v: &TV, p: &mut SegPath) {
    if let Some(Seg::I(i)) = p.last().cloned() {
        let parent = &p[..p.len() - 1];
        if let Some(TV::Array(a)) = vpath::get(v, parent) {
            let n = p.len() - 1;
            p[n] = Seg::I(i - a.len() as i64);
        }
    }
}

fn first_segment_hits(v: &TV, p: &[Seg]) -> bool {
    !p.is_empty() && vpath::get(v, &p[..1]).is_some()
}

fn has_negative(p: &[Seg]) -> bool {
    p.iter().any(|s| matches!(s, Seg::I(i) if *i < 0))
}

fn nontrivial(v: &TV, p: &[Seg]) -> bool {
    first_segment_hits(v, p) && (p.len() >= 2 || has_negative(p))
}

fn starts_with(l: &[Seg], prefix: &[Seg]) -> bool {
    l.len() >= prefix.len() && &l[..prefix.len()] == prefix
}

pub fn check_insert(c: &InsCase) -> V {
    let before = c.v.to_value();
    let mut real = before.clone();
    let op = to_owned_path(&c.p);
    let x = c.x.to_value();
    real.insert(&op, x.clone());

    // law 1: read-after-insert
    match real.get(&op) {
        Some(got) if *got == x => {}
        other => return V::fail(format!("get(insert(v,p,x),p) = {other:?}, expected {x:?}")),
    }
    // law 4: differential with the model
    let model = vpath::insert(&c.v, &c.p, &c.x);
    if model.to_value() != real {
        return V::fail(format!("insert differs from the reference model: real={real} model={}", model.to_value()));
    }
    // law 5: frame law on its own
    let mut cur = &c.v;
    let mut resolved: SegPath = Vec::new();
    let mut shifted: Option<SegPath> = None;
    let mut replaced = false;
    let mut complete = true;
    for seg in &c.p {
        match (cur, seg) {
            (TV::Object(o), Seg::F(f)) => {
                resolved.push(seg.clone());
                match o.get(f) {
                    Some(ch) => cur = ch,
                    None => {
                        complete = false;
                        break;
                    }
                }
            }
            (TV::Array(a), Seg::I(i)) => {
                let len = a.len() as i64;
                let idx = if *i >= 0 { *i } else { len + *i };
                if idx >= 0 && idx < len {
                    resolved.push(Seg::I(idx));
                    cur = &a[idx as usize];
                } else {
                    if *i < 0 {
                        shifted = Some(resolved.clone());
                    }
                    resolved.push(Seg::I(idx.max(0)));
                    complete = false;
                    break;
                }
            }
            _ => {
                replaced = true;
                complete = false;
                break;
            }
        }
    }
    let mut locs = Vec::new();
    vpath::locations(&c.v, &mut Vec::new(), &mut locs);
    let mut frame_checked = 0u32;
    for (l, val) in &locs {
        if starts_with(&resolved, l) {
            continue; // l contains the path
        }
        if complete && starts_with(l, &resolved) {
            continue; // l is contained in the path
        }
        if replaced && starts_with(l, &resolved) {
            continue; // below a container replaced wholesale
        }
        if let Some(sp) = &shifted {
            if starts_with(l, sp) && l.len() > sp.len() {
                continue; // re-indexed by front padding
            }
        }
        frame_checked += 1;
        let lp = to_owned_path(l);
        match real.get(&lp) {
            Some(got) if *got == val.to_value() => {}
            other => return V::fail(format!("frame law: location {l:?} changed from {val:?} to {other:?} by insert at {:?}", c.p)),
        }
    }
    V::pass()
        .nontrivial(nontrivial(&c.v, &c.p))
        .class_if(has_negative(&c.p), "negative_index")
        .class_if(shifted.is_some(), "front_padded")
        .class_if(replaced, "replaced_container")
        .class_if(complete, "overwrites_existing")
        .class_if(c.p.is_empty(), "root_path")
        .class_if(frame_checked > 0, "frame_locations_checked")
}

pub fn check_remove(c: &RemCase) -> V {
    let before = c.v.to_value();
    let op = to_owned_path(&c.p);
    let expected = before.get(&op).cloned();
    let model_expected = vpath::get(&c.v, &c.p).map(TV::to_value);
    if expected != model_expected {
        return V::fail(format!("get differs from the reference model: real={expected:?} model={model_expected:?}"));
    }
    let mut real = before.clone();
    let removed = real.remove(&op, c.prune);
    // law 2: remove returns exactly what get returned
    if removed != expected {
        return V::fail(format!("remove returned {removed:?} but get returned {expected:?}"));
    }
    // law 3: nothing found => nothing changed
    if removed.is_none() && real != before {
        return V::fail(format!("remove found nothing but changed the value: {before} -> {real}"));
    }
    // through a non-container
    let mut through_scalar = false;
    for k in 0..c.p.len() {
        if let Some(x) = vpath::get(&c.v, &c.p[..k]) {
            if !x.is_container() {
                through_scalar = true;
                if removed.is_some() {
                    return V::fail("remove through a non-container found something".to_string());
                }
            }
        }
    }
    // law 4: differential
    let mut model = c.v.clone();
    let mremoved = vpath::remove(&mut model, &c.p, c.prune).map(|t| t.to_value());
    if mremoved != removed || model.to_value() != real {
        return V::fail(format!(
            "remove differs from the reference model: real=({removed:?}, {real}) model=({mremoved:?}, {})",
            model.to_value()
        ));
    }
    V::pass()
        .nontrivial(nontrivial(&c.v, &c.p))
        .class_if(removed.is_some(), "found")
        .class_if(c.prune, "prune")
        .class_if(through_scalar, "through_non_container")
        .class_if(has_negative(&c.p), "negative_index")
}

pub fn check_history(c: &HistCase) -> V {
    let mut real: Value = c.v.to_value();
    let mut model = c.v.clone();
    let mut hits = 0;
    let mut muts = 0;
    for (i, op) in c.ops.iter().enumerate() {
        match op {
            Op::Insert(p, x) => {
                muts += 1;
                if first_segment_hits(&model, p) {
                    hits += 1;
                }
                real.insert(&to_owned_path(p), x.to_value());
                model = vpath::insert(&model, p, x);
            }
            Op::Remove(p, prune) => {
                muts += 1;
                if first_segment_hits(&model, p) {
                    hits += 1;
                }
                let r = real.remove(&to_owned_path(p), *prune);
                let m = vpath::remove(&mut model, p, *prune).map(|t| t.to_value());
                if r != m {
                    return V::fail(format!("step {i}: remove returned {r:?}, model {m:?}"));
                }
            }
            Op::Get(p) => {
                let r = real.get(&to_owned_path(p)).cloned();
                let m = vpath::get(&model, p).map(TV::to_value);
                if r != m {
                    return V::fail(format!("step {i}: get returned {r:?}, model {m:?}"));
                }
            }
        }
        if model.to_value() != real {
            return V::fail(format!("step {i} ({op:?}): value {real} differs from model {}", model.to_value()));
        }
    }
    V::pass().nontrivial(muts >= 2 && hits >= 1)
}

fn op_strategy() -> impl Strategy<Value = Op> {
    prop_oneof![
        3 => (path(0, 3), value(FULL, 2)).prop_map(|(p, x)| Op::Insert(p, x)),
        3 => (path(0, 3), any::<bool>()).prop_map(|(p, b)| Op::Remove(p, b)),
        1 => path(0, 3).prop_map(Op::Get),
    ]
}

pub fn run(r: &mut Run) {
    r.sub(
        "insert_get_frame",
        250_000,
        25_000_000,
        || (value_and_path(), value(FULL, 2)).prop_map(|((v, p), x)| InsCase { v, p, x }),
        check_insert,
    );
    r.sub(
        "remove_get",
        250_000,
        25_000_000,
        || (value_and_path(), any::<bool>()).prop_map(|((v, p), prune)| RemCase { v, p, prune }),
        check_remove,
    );
    r.sub(
        "history",
        100_000,
        10_000_000,
        || (value(FULL, 3), proptest::collection::vec(op_strategy(), 1..=8)).prop_map(|(v, ops)| HistCase { v, ops }),
        check_history,
    );
}
