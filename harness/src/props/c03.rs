//! C03 — every stdlib function honours its declared signature.

use crate::engine::workers::{EndClass, Stage, WorkerResult};
use crate::engine::{Run, V};
use crate::gens::call::{self, CallCase, FnSpec, Pos, Profile};
use crate::gens::value::TV;
use crate::props::callsup::{self, Stats};

pub const RULE: &str = "cases = one call `f(args)` / `f!(args)` as the sole expression of a program, for every function of vrl::stdlib::all() except the IO/nondeterministic ones (now, random_bool, random_bytes, random_float, random_int, uuid_v4, uuid_v7, get_hostname, get_env_var, get_timezone_name, http_request, dns_lookup, reverse_dns, log; get_secret/set_secret/remove_secret/set_semantic_meaning/enrichment-table functions are not part of stdlib::all() in this build) and parse_etld's `psl` file parameter. Per parameter (optional ones present with probability 1/2): a value of an admitted kind, a mutated value from the function's own examples() (parsed with vrl::parser::parse, arguments evaluated), an enum variant where Parameter::enum_variants exists, or (15 %) a deliberately wrong kind; scalars are edge-biased (i64::MIN/MAX, +-inf, subnormals, empty/2 KiB strings, invalid UTF-8, extreme timestamps, containers depth<=4). Four positions per argument: literal in source, event field typed with the value's exact kind, event field typed with the union of that kind and one or two (rarely arbitrary many) further kinds (16 % of admitted-kind arguments; the static types `array or object`, `object or string`, .. that branches produce), event field typed any; parameters that must be literals are discovered from the compiler's diagnostics on the examples and pinned; del/exists/unnest take path queries. Closure-taking functions use a small fixed set of closure bodies. Total argument size <= 4 KiB. Bounded because a large value only means 'allocate that much' (multi-GB memory is out of scope): decode_lz4 buf_size in (2^24, u32::MAX] clamped to 2^24 (negative and larger values take the function's own too-large path and stay in), integer segments of set's path within +-64, encode_zstd compression_level <= 19 after i32 truncation (ultra levels allocate ~730 MB). The call runs in a killable worker process (RLIMIT_AS 8 GiB, 16 MiB stack). Declared type = Program::final_type_info().result of the compiled program. Oracles: Ok(v) must satisfy member(v, declared kind) [out_of_type_<mismatch>, mismatch = class of the first offending location: kind (value of a kind the type does not admit) | shape (required field/index absent, or excluded one present) | never (declared type has no members)] and v's kind bit must be in Function::return_kind() [return_kind]; a call accepted without `!` and typed infallible must not end in an error [infallible_error]; with a wrong-kind value in an any-typed position the outcome must be an error or an in-type value, never a panic/abort while running [wrong_kind_panic, class wrong_kind_in_<keyword>; only when the same call with an admitted kind in that position does not panic at the same place, otherwise the panic is left to C04]. Failures carry the signature C03:<function>:<sub-oracle>:<class of first argument: its kind if literal/exactly typed, `anytyped` if any-typed>_arg. Non-trivial = compiled, returned Ok, and the argument tuple differs from every tuple of the function's own examples. Distinct = distinct serialised cases. Timeouts are inconclusive here (C05 decides them).";
pub const NOTE: &str = "trusts model::member (membership predicate written from Kind's documentation), the TV<->Value mirror and that Function::return_kind()/parameters() are the documented signature; a panic on correct-kind arguments is left to C04 and a hang to C05; functions typed `any` are only weakly constrained by construction";

static STATS: Stats = Stats::new();

/// a plain value of an admitted kind for a parameter (from its example pool when possible)
fn right_kind_value(spec: &FnSpec, kw: &str) -> Option<TV> {
    let p = spec.param(kw)?;
    if let Some(v) = p.pool.iter().find(|v| p.mask & call::bit_of_tv(v) != 0) {
        return Some(v.clone());
    }
    let candidates = [
        TV::str("a"),
        TV::Int(1),
        TV::float(1.5),
        TV::Bool(true),
        TV::Object(Default::default()),
        TV::Array(Vec::new()),
        TV::Ts { s: 0, n: 0 },
        TV::Regex("a".to_string()),
        TV::Null,
    ];
    candidates.into_iter().find(|v| p.mask & call::bit_of_tv(v) != 0)
}

/// Is the panic caused by the wrong-kind value(s)? Re-run the call with every wrong-kind argument
/// in an any-typed position replaced by a value of an admitted kind: if it still panics at the
/// same place, the wrong kind is incidental (the panic is C04's) and this oracle stays silent.
fn panic_is_attributable(spec: &FnSpec, c: &CallCase, loc: &str) -> bool {
    let mut variant = c.clone();
    for a in variant.args.iter_mut() {
        if a.pos == Pos::Any && spec.param(&a.kw).is_some_and(|p| p.mask & call::bit_of_tv(&a.v) == 0) {
            match right_kind_value(spec, &a.kw) {
                Some(v) => a.v = v,
                None => return true,
            }
        }
    }
    match callsup::exec_adaptive(&STATS, &variant) {
        WorkerResult::Done(o) => !(o.stage == Stage::Panicked && o.panic.as_ref().is_some_and(|p| p.loc == loc)),
        WorkerResult::Died { .. } => loc != "died",
        _ => true,
    }
}

pub fn check(c: &CallCase) -> V {
    let Some(spec) = call::spec(&c.func) else { return callsup::unknown_function() };
    let res = callsup::exec_adaptive(&STATS, c);
    let cls = c.arg_class();
    let wrong_kw: Option<String> = spec.wrong_kind_args(c).iter().find(|a| a.pos == Pos::Any).map(|a| a.kw.clone());
    let wrong_any = wrong_kw.is_some();
    let wrong_cls = format!("wrong_kind_in_{}", wrong_kw.as_deref().unwrap_or("none"));
    let v = match &res {
        WorkerResult::Timeout | WorkerResult::Starved => V::discard("timeout_inconclusive"),
        WorkerResult::Harness(_) => V::discard("harness_error"),
        WorkerResult::Died { how, stderr } => {
            if wrong_any && !callsup::death_is_resource(how) && panic_is_attributable(spec, c, "died") {
                callsup::fail(
                    &STATS,
                    c,
                    format!("C03:{}:wrong_kind_panic:{wrong_cls}", c.func),
                    format!("worker died ({}) on a wrong-kind argument in an any-typed position: {} :: {stderr}", how.label(), call::describe(c)),
                )
            } else {
                callsup::common_classes(V::pass().class("worker_died_left_to_c04"), spec, c, None)
            }
        }
        WorkerResult::Done(o) => {
            let base = || callsup::common_classes(V::pass(), spec, c, Some(o));
            match o.stage {
                Stage::Rejected => base(),
                Stage::Panicked => {
                    // only a panic while *running* can be caused by a runtime-typed value
                    if wrong_any
                        && o.panic.as_ref().is_some_and(|p| p.phase == "run")
                        && panic_is_attributable(spec, c, o.panic.as_ref().map(|p| p.loc.as_str()).unwrap_or(""))
                    {
                        let p = o.panic.as_ref();
                        callsup::fail(
                            &STATS,
                            c,
                            format!("C03:{}:wrong_kind_panic:{wrong_cls}", c.func),
                            format!(
                                "panic at {} ({}) on a wrong-kind argument in an any-typed position: {}",
                                p.map(|p| p.loc.as_str()).unwrap_or("?"),
                                p.map(|p| p.msg.as_str()).unwrap_or(""),
                                call::describe(c)
                            ),
                        )
                    } else {
                        base().class("panic_left_to_c04")
                    }
                }
                Stage::Ran => match o.end {
                    EndClass::Ok | EndClass::Return => {
                        if !o.member {
                            callsup::fail(
                                &STATS,
                                c,
                                format!("C03:{}:out_of_type_{}:{cls}", c.func, o.mismatch),
                                format!(
                                    "`{}` returned {} which is not a member of its declared type {} [{}]: {} :: {}",
                                    o.src,
                                    o.value.as_ref().map(|v| format!("{v:?}")).unwrap_or_else(|| format!("<{} bytes>", o.value_bytes)),
                                    o.declared,
                                    o.declared_debug,
                                    o.why_not,
                                    call::describe(c)
                                ),
                            )
                        } else if !o.return_bit_ok {
                            callsup::fail(
                                &STATS,
                                c,
                                format!("C03:{}:return_kind:{cls}", c.func),
                                format!(
                                    "`{}` returned a {} but Function::return_kind() is {:#x}: {}",
                                    o.src,
                                    o.value_kind,
                                    o.return_mask,
                                    call::describe(c)
                                ),
                            )
                        } else {
                            base().nontrivial(!spec.is_seed_tuple(c))
                        }
                    }
                    EndClass::Error | EndClass::Abort | EndClass::Other => {
                        if !o.bang && !o.declared_fallible {
                            callsup::fail(
                                &STATS,
                                c,
                                format!("C03:{}:infallible_error:{cls}", c.func),
                                format!("`{}` was accepted without `!` and typed infallible ({}) but failed at run time: {} :: {}", o.src, o.declared, o.error, call::describe(c)),
                            )
                        } else {
                            base().class_if(wrong_any, "wrong_kind_rejected_at_runtime")
                        }
                    }
                    EndClass::None => base(),
                },
            }
        }
    };
    STATS.record(&c.func, &res, v.nontrivial);
    v
}

pub fn run(r: &mut Run) {
    // 600 tuples x ~190 functions in the quick tier; 20 000 per function in the thorough tier
    r.sub("calls", 110_000, 3_800_000, || call::strategy(Profile::Signature), check);
    STATS.publish(r, 20, false);
}
