//! C02 — accepted programs without `!` or `abort` never fail at runtime.

use crate::engine::{Run, V};
use crate::gens::proggen::Preset;
use crate::props::progdiff;
use crate::props::typesound::{self, TCase};
use crate::vrlx::End;

pub const RULE: &str = "cases = as C01 (generated program x event x external environment: default, exact kinds, widened kind), generated without `f!(...)` and without `abort`. Oracle: (a) the run ends Ok or by `return`; an error is a violation unless it is the documented NaN error (`operation would produce NaN`); (b) a program whose ProgramInfo says `fallible == false` never ends with an error and one with `abortable == false` never aborts; (c) with the verif-hooks recorder, no operator or call site that the compiler typed infallible (before `!`) returned a runtime error during the run, even when the error was swallowed later by `??` or `ok, err =`. Non-trivial = the program compiled, and executed at least one infallible-typed operator/call site (hook counter) on data that came from the event. Distinct = distinct serialised cases.";
pub const NOTE: &str = "relies on the verif-hooks recorder in /repo (feature `verif-hooks`) for clause (c); classes known to be unsound on the pinned tree are excluded by generator switches while their known findings are open";

const NAN_MSG: &str = "operation would produce NaN";

pub fn check(c: &TCase) -> V {
    let k = match typesound::compile(c, false) {
        Ok(k) => k,
        Err(_) => return V::discard("rejected_by_compiler"),
    };
    let (out, events, sites) = typesound::run(c, &k);
    let info = k.res.program.info();
    let ctx = |what: String| format!("{what}\n--- program (env mode {}):\n{}--- event: {:?}", c.env, k.src, c.event);
    let mut nan_exempt = false;
    match &out.end {
        End::Ok(_) | End::Return(_) => {}
        End::Error(m) => {
            if m.contains(NAN_MSG) {
                nan_exempt = true;
            } else {
                return V::fail(ctx(format!("a program without `!` and `abort` ended with a runtime error: {m} (ProgramInfo.fallible = {})", info.fallible)));
            }
        }
        End::Abort(m) => return V::fail(ctx(format!("a program without `abort` aborted: {m:?} (ProgramInfo.abortable = {})", info.abortable))),
        End::Other(o) => return V::fail(ctx(format!("run ended with {o}"))),
    }
    for e in &events {
        if !e.message.contains(NAN_MSG) {
            return V::fail(ctx(format!(
                "{} `{}` at ({}:{}) was typed infallible but returned the runtime error: {}",
                e.kind, e.ident, e.start, e.end, e.message
            )));
        }
    }
    V::pass()
        .nontrivial(sites > 0)
        .class_if(nan_exempt, "exempt_nan_error")
        .class(match c.env {
            0 => "env_default_any",
            1 => "env_exact_kinds",
            _ => "env_widened_kind",
        })
        .class_if(sites >= 5, "five_or_more_infallible_sites_executed")
}

pub fn run(r: &mut Run) {
    crate::props::pinned::run(r, pinned_cases());
    let base = progdiff::base_preset(r);
    let p1 = Preset { returns: 1, aborts: 0, bang: false, coalesce: 4, infallible_assign: 3, closures: 3, shadowing: true, ..base };
    r.sub("programs_without_bang_and_abort", 200_000, 10_000_000, move || typesound::strategy(p1), check);
}

fn pinned_cases() -> Vec<crate::props::pinned::Pinned> {
    use crate::gens::value::TV;
    use crate::props::pinned::{case, ev};
    vec![
        case("a fallible dividend is not hidden by a literal divisor", "x = to_int(.q) / 2\nx", ev(&[("q", TV::str("zz"))]), "rejected"),
        case("return in a call argument does not fail", "upcase({ if .a == true { return \"x\" }; \"y\" })", ev(&[("a", TV::Bool(true))]), "success"),
        case("return in an array closure does not fail", "for_each([1, 2]) -> |i, v| { if v == 1 { return 3 }; .x = v }", ev(&[]), "success"),
        case("element removal keeps the following indices typed", ".a = [1.5, 2, \"s\"]\ndel(.a[0])\nupcase(.a[1])", ev(&[]), "success"),
        case("`true && x` with an object x can fail and is rejected", "x = {\"a\": 1}\ntrue && x", ev(&[]), "rejected"),
        case("`y && x` with a constant-true y and a boolean-or-object x is rejected", "x = if .flag == true { {\"a\": 1} } else { false }\ny = true\ny && x", ev(&[("flag", TV::Bool(true))]), "rejected"),
        case("`true && b` with a boolean b is accepted", "b = .flag == true\ntrue && b", ev(&[("flag", TV::Bool(true))]), "success"),
        case("the shifted-out index is no longer typed as a string", ".a = [1.5, 2, \"s\"]\ndel(.a[0])\nupcase(.a[2])", ev(&[]), "rejected"),
    ]
}
