//! C12 — compile-time constant knowledge matches runtime values.

use proptest::prelude::*;
use serde::{Deserialize, Serialize};
use vrl::path::parse_value_path;

use crate::engine::{Run, V};
use crate::gens::value::TV;
use crate::vrlx::{self, End};

pub const RULE: &str = "cases = programs made of a *definition* (a variable `v`, or a field `x.a` of an object variable, assigned a literal or constant arithmetic: non-zero integers, floats, booleans, enum strings), 0..3 *perturbations* between definition and use (conditional reassignment in one branch, unconditional reassignment, reassignment from an event field, reassignment inside a closure body, `del(x.a)`, `x |= {...}` / `merge`, infallible assignment onto the variable, shadowing by a closure parameter of the same name, reassignment inside a block, copying through another variable, assignment in both branches) and a *probe* that the compiler accepts only because it believes the value constant: `10 / V` without error handling (also with a dividend block that reassigns V first: `{ V = c; 10 } / V`), `V || <effect>` / `V && <effect>`, an enum-only argument fed by the variable (`to_unix_timestamp(t, unit: V)`, `encode_base64(s, charset: V)`, `format_int(n, V)` is not enum-only and serves as control). Two-pass metamorphic oracle with public API only: pass 1 runs the accepted program, which records the runtime value r of V right before the probe; it must not end in a runtime error. Pass 2 compiles the same program with V in the probe replaced by the literal of r: it must be accepted too and produce the same outcome, result field and effects. Non-trivial = the probe was accepted and at least one perturbation sits between definition and probe. Distinct = distinct serialised cases.";
pub const NOTE: &str = "decides constant knowledge through its observable consequences only (accepted infallible division, short-circuit typing, enum-only arguments); perturbation classes with open known findings (closure-body reassignment, del on variable paths) are excluded by generator switches";

#[derive(Clone, Copy, Debug, Serialize, Deserialize, PartialEq)]
pub enum Shape {
    /// plain variable `v`
    Var,
    /// field of an object variable: `x.a`
    Field,
}

#[derive(Clone, Debug, Serialize, Deserialize)]
pub enum Pert {
    CondReassign(TV),
    Reassign(TV),
    FromEvent,
    ClosureReassign(TV),
    DelField,
    MergeAssign(TV),
    MergeCall(TV),
    InfallibleAssign,
    ShadowByClosureParam,
    BlockReassign(TV),
    CopyThrough,
    BothBranches(TV, TV),
    Unrelated,
}

#[derive(Clone, Copy, Debug, Serialize, Deserialize, PartialEq)]
pub enum Probe {
    /// `{ V = <other constant>; 10 } / V`: the dividend's block reassigns the divisor
    DivAfterLhsEffect,
    Div,
    DivNested,
    Or,
    And,
    UnixUnit,
    Base64Charset,
    Control,
}

#[derive(Clone, Debug, Serialize, Deserialize)]
pub struct Case {
    pub shape: Shape,
    pub def: TV,
    /// constant arithmetic in the definition (`def * 1 + 0`)
    pub arith: bool,
    pub perts: Vec<Pert>,
    pub probe: Probe,
    pub flag: bool,
    pub n: TV,
}

fn lit(v: &TV) -> String {
    vrlx::literal(v).unwrap_or_else(|| "null".to_string())
}

fn target(shape: Shape) -> &'static str {
    match shape {
        Shape::Var => "v",
        Shape::Field => "x.a",
    }
}

fn setup_src(c: &Case) -> Option<String> {
    let t = target(c.shape);
    let mut s = String::new();
    let d = if c.arith && matches!(c.def, TV::Int(_) | TV::Float(_)) { format!("(({} * 1) + 0)", lit(&c.def)) } else { lit(&c.def) };
    match c.shape {
        Shape::Var => s.push_str(&format!("v = {d}\n")),
        Shape::Field => s.push_str(&format!("x = {{\"a\": {d}, \"b\": 1}}\n")),
    }
    for p in &c.perts {
        match p {
            Pert::CondReassign(o) => s.push_str(&format!("if .flag == true {{ {t} = {} }}\n", lit(o))),
            Pert::Reassign(o) => s.push_str(&format!("{t} = {}\n", lit(o))),
            Pert::FromEvent => s.push_str(&format!("{t} = .n\n")),
            Pert::ClosureReassign(o) => s.push_str(&format!("for_each([1]) -> |_i, _e| {{ {t} = {} }}\n", lit(o))),
            Pert::DelField => {
                if c.shape != Shape::Field {
                    return None;
                }
                s.push_str("del(x.a)\n");
            }
            Pert::MergeAssign(o) => {
                if c.shape != Shape::Field {
                    return None;
                }
                s.push_str(&format!("x |= {{\"a\": {}}}\n", lit(o)));
            }
            Pert::MergeCall(o) => {
                if c.shape != Shape::Field {
                    return None;
                }
                s.push_str(&format!("x = merge(x, {{\"a\": {}}})\n", lit(o)));
            }
            Pert::InfallibleAssign => s.push_str(&format!("{t}, err = to_int(.n)\n")),
            Pert::ShadowByClosureParam => {
                let name = if c.shape == Shape::Var { "v" } else { "x" };
                s.push_str(&format!("for_each({{\"k\": 0}}) -> |{name}, _y| {{ null }}\n"));
            }
            Pert::BlockReassign(o) => s.push_str(&format!("{{ {t} = {} }}\n", lit(o))),
            Pert::CopyThrough => s.push_str(&format!("tmp = {t}\n{t} = tmp\n")),
            Pert::BothBranches(a, b) => s.push_str(&format!("if .flag == true {{ {t} = {} }} else {{ {t} = {} }}\n", lit(a), lit(b))),
            Pert::Unrelated => s.push_str("ok2, err2 = to_int(.n)\n.u = 1\n"),
        }
    }
    Some(s)
}

/// probe whose left operand reassigns the variable that the right operand reads
fn probe_src_lhs(target: &str, other: &TV, operand: &str) -> String {
    format!(".r = {{ {target} = {}; 10 }} / {operand}\n", lit(other))
}

fn probe_src(p: Probe, operand: &str) -> String {
    match p {
        Probe::Div => format!(".r = 10 / {operand}\n"),
        Probe::DivAfterLhsEffect => unreachable!("built by probe_src_lhs"),
        Probe::DivNested => format!(".r = [(10 / {operand}) + 1, 3]\n"),
        Probe::Or => format!(".r = ({operand} || {{ .eff = 1; true }})\n"),
        Probe::And => format!(".r = ({operand} && {{ .eff = 1; true }})\n"),
        Probe::UnixUnit => format!(".r = to_unix_timestamp(t'2021-01-01T00:00:00.123456789Z', unit: {operand})\n"),
        Probe::Base64Charset => format!(".r = encode_base64(\"a?b>c~~\", charset: {operand})\n"),
        Probe::Control => format!(".r = to_string({operand})\n"),
    }
}

#[derive(Clone, Copy, Default)]
pub struct Flags {
    pub no_closure_reassign: bool,
    pub no_del_field: bool,
}

pub fn check(c: &Case, fl: Flags) -> V {
    for p in &c.perts {
        if fl.no_closure_reassign && matches!(p, Pert::ClosureReassign(_)) {
            return V::excluded("closure-assigns-outer-variable");
        }
        if fl.no_del_field && matches!(p, Pert::DelField) {
            return V::excluded("del-on-variable-path");
        }
    }
    let Some(setup) = setup_src(c) else { return V::discard("perturbation_not_applicable_to_shape") };
    let t = target(c.shape);
    let lhs_other = TV::Int(if c.flag { 0 } else { 4 });
    let build = |operand: &str| {
        if c.probe == Probe::DivAfterLhsEffect {
            probe_src_lhs(t, &lhs_other, operand)
        } else {
            probe_src(c.probe, operand)
        }
    };
    // for the lhs-effect probe the value that matters is the one the divisor has when it is read
    let record = if c.probe == Probe::DivAfterLhsEffect { String::new() } else { format!(".__v = {t}\n") };
    let src1 = format!("{setup}{record}{}", build(t));
    let event = vrlx::event_of(&[("flag", &TV::Bool(c.flag)), ("n", &c.n)]);
    let res1 = match vrlx::compile(&src1) {
        Ok(r) => r,
        Err(_) => return V::pass().class("probe_rejected_constant_not_known"),
    };
    let out1 = vrlx::run(&res1.program, event.clone(), vrlx::empty_object());
    if let End::Error(m) = &out1.end {
        if !m.contains("operation would produce NaN") {
            return V::fail(format!("the probe was accepted (constant believed known) but the run failed: {m}\n--- program:\n{src1}--- event: {event}"));
        }
        return V::pass().class("nan_exempt");
    }
    let vpath = parse_value_path("__v").expect("path");
    let r = if c.probe == Probe::DivAfterLhsEffect {
        lhs_other.clone()
    } else {
        match out1.event.get(&vpath).map(TV::from_value) {
            Some(r) => r,
            None => return V::fail(format!("probe value missing\n{src1}")),
        }
    };
    let Some(rlit) = vrlx::literal(&r) else { return V::discard("runtime_value_has_no_literal") };
    let src2 = format!("{setup}{record}{}", build(&rlit));
    let res2 = match vrlx::compile(&src2) {
        Ok(r) => r,
        Err(d) => {
            return V::fail(format!(
                "the probe is accepted with the variable but rejected with the literal of its runtime value {rlit} ({}): the compiler's constant differs from the runtime value\n--- program:\n{src1}--- event: {event}",
                vrlx::diag_summary(&d)
            ))
        }
    };
    let out2 = vrlx::run(&res2.program, event.clone(), vrlx::empty_object());
    if out1.end != out2.end || out1.event != out2.event {
        return V::fail(format!(
            "decisions taken from the compile-time constant do not match the runtime value {rlit}: with the variable the run gives {:?} / {}, with the literal {:?} / {}\n--- program:\n{src1}--- event: {event}",
            out1.end, out1.event, out2.end, out2.event
        ));
    }
    V::pass()
        .nontrivial(!c.perts.is_empty())
        .class("probe_accepted")
        .class(match c.probe {
            Probe::Div | Probe::DivNested => "probe_division",
            Probe::DivAfterLhsEffect => "probe_division_after_lhs_effect",
            Probe::Or | Probe::And => "probe_short_circuit",
            Probe::UnixUnit | Probe::Base64Charset => "probe_enum_argument",
            Probe::Control => "probe_control",
        })
        .class_if(c.perts.iter().any(|p| matches!(p, Pert::Reassign(_) | Pert::BlockReassign(_) | Pert::MergeAssign(_) | Pert::MergeCall(_))), "constant_replaced")
        .class_if(c.perts.iter().any(|p| matches!(p, Pert::ShadowByClosureParam)), "shadowed_by_closure_parameter")
        .class_if(c.perts.iter().any(|p| matches!(p, Pert::CopyThrough)), "copied_through_variable")
}

fn const_for(probe: Probe) -> BoxedStrategy<TV> {
    match probe {
        Probe::Div | Probe::DivNested | Probe::DivAfterLhsEffect | Probe::Control => prop_oneof![
            3 => prop_oneof![Just(1i64), Just(2), Just(-3), Just(7), Just(0), Just(i64::MAX)].prop_map(TV::Int),
            1 => prop_oneof![Just(0.5f64), Just(2.0), Just(0.0), Just(-1.5)].prop_map(TV::float),
        ]
        .boxed(),
        Probe::Or | Probe::And => prop_oneof![Just(TV::Bool(true)), Just(TV::Bool(false)), Just(TV::Null)].boxed(),
        Probe::UnixUnit => prop_oneof![Just("seconds"), Just("milliseconds"), Just("microseconds"), Just("nanoseconds"), Just("minutes")].prop_map(TV::str).boxed(),
        Probe::Base64Charset => prop_oneof![Just("standard"), Just("url_safe")].prop_map(TV::str).boxed(),
    }
}

fn pert(probe: Probe) -> BoxedStrategy<Pert> {
    let c = const_for(probe);
    prop_oneof![
        2 => c.clone().prop_map(Pert::CondReassign),
        3 => c.clone().prop_map(Pert::Reassign),
        1 => Just(Pert::FromEvent),
        2 => c.clone().prop_map(Pert::ClosureReassign),
        1 => Just(Pert::DelField),
        2 => c.clone().prop_map(Pert::MergeAssign),
        1 => c.clone().prop_map(Pert::MergeCall),
        1 => Just(Pert::InfallibleAssign),
        2 => Just(Pert::ShadowByClosureParam),
        2 => c.clone().prop_map(Pert::BlockReassign),
        2 => Just(Pert::CopyThrough),
        1 => (c.clone(), c).prop_map(|(a, b)| Pert::BothBranches(a, b)),
        1 => Just(Pert::Unrelated),
    ]
    .boxed()
}

fn case() -> impl Strategy<Value = Case> {
    let probe = prop_oneof![
        3 => Just(Probe::Div),
        2 => Just(Probe::DivAfterLhsEffect),
        1 => Just(Probe::DivNested),
        2 => Just(Probe::Or),
        2 => Just(Probe::And),
        2 => Just(Probe::UnixUnit),
        2 => Just(Probe::Base64Charset),
        1 => Just(Probe::Control),
    ];
    probe.prop_flat_map(|probe| {
        (
            prop_oneof![Just(Shape::Var), Just(Shape::Field)],
            const_for(probe),
            any::<bool>(),
            proptest::collection::vec(pert(probe), 0..=3),
            any::<bool>(),
            prop_oneof![Just(TV::Int(0)), Just(TV::Int(5)), Just(TV::str("x")), Just(TV::str("3")), Just(TV::Null), Just(TV::Bool(true))],
        )
            .prop_map(move |(shape, def, arith, perts, flag, n)| Case { shape, def, arith, perts, probe, flag, n })
    })
}

pub fn run(r: &mut Run) {
    let fl = Flags { no_closure_reassign: r.excluded("closure-assigns-outer-variable"), no_del_field: r.excluded("del-on-variable-path") };
    r.sub("constant_probes", 150_000, 6_000_000, case, move |c| check(c, fl));
}
