//! C11 — arithmetic follows the documented numeric semantics.

use proptest::prelude::*;
use serde::{Deserialize, Serialize};
use vrl::compiler::value::VrlValueArithmetic;
use vrl::value::Value;

use crate::engine::{Run, V};
use crate::gens::value::{float, int, plain_string, ustring, TV};
use crate::vrlx::{self, End};

pub const RULE: &str = "cases = (operator in + - * /, operand pair, delivery form) with operands over i64 (edges, random, overflow-prone pairs), non-NaN floats (edges, infinities, signed zeros), byte strings and null; delivery forms: literals in source, event fields with exact kinds, event fields typed `any` (then under `?? sentinel`), plus the value-level arithmetic API. The expected result comes from an independent model (128-bit integer arithmetic reduced mod 2^64, IEEE operations on converted operands, NaN => error, string concatenation/repetition). Non-trivial = overflowing integer case, mixed int/float, non-finite operand, zero divisor, or string/null operand. Distinct = distinct serialised cases.";
pub const NOTE: &str = "the model uses the host's IEEE-754 f64 operations for float results (same machine arithmetic as the implementation; what is independent is the dispatch: which conversion and operation each operand pair gets) and i128 arithmetic for integers; operand pairs the statement does not define (e.g. integer + string) are only required not to panic";

#[derive(Clone, Copy, Debug, Serialize, Deserialize, PartialEq, Eq)]
pub enum Opr {
    Add,
    Sub,
    Mul,
    Div,
}

impl Opr {
    fn sym(self) -> &'static str {
        match self {
            Opr::Add => "+",
            Opr::Sub => "-",
            Opr::Mul => "*",
            Opr::Div => "/",
        }
    }
}

#[derive(Clone, Debug, Serialize, Deserialize)]
pub struct Case {
    pub op: Opr,
    pub a: TV,
    pub b: TV,
    /// 0 literals, 1 exact-typed fields, 2 any-typed fields
    pub form: u8,
}

#[derive(Debug, PartialEq)]
enum Want {
    Val(TV),
    Err,
    Unspecified,
}

fn wrap(x: i128) -> i64 {
    // reduce modulo 2^64 into the two's-complement range
    let m = x.rem_euclid(1i128 << 64);
    if m >= (1i128 << 63) {
        (m - (1i128 << 64)) as i64
    } else {
        m as i64
    }
}

fn fl(x: f64) -> Want {
    if x.is_nan() {
        Want::Err
    } else {
        Want::Val(TV::float(x))
    }
}

fn num(t: &TV) -> Option<f64> {
    match t {
        TV::Int(i) => Some(*i as f64),
        TV::Float(f) => Some(f.0),
        _ => None,
    }
}

fn model(op: Opr, a: &TV, b: &TV) -> Want {
    use TV::{Float, Int, Null, Str};
    match (op, a, b) {
        (Opr::Add, Int(x), Int(y)) => Want::Val(Int(wrap(i128::from(*x) + i128::from(*y)))),
        (Opr::Sub, Int(x), Int(y)) => Want::Val(Int(wrap(i128::from(*x) - i128::from(*y)))),
        (Opr::Mul, Int(x), Int(y)) => Want::Val(Int(wrap(i128::from(*x) * i128::from(*y)))),
        (Opr::Div, Int(_) | Float(_), Int(_) | Float(_)) => {
            let (x, y) = (num(a).unwrap(), num(b).unwrap());
            if y == 0.0 {
                Want::Err
            } else {
                fl(x / y)
            }
        }
        (_, Int(_) | Float(_), Int(_) | Float(_)) => {
            let (x, y) = (num(a).unwrap(), num(b).unwrap());
            fl(match op {
                Opr::Add => x + y,
                Opr::Sub => x - y,
                Opr::Mul => x * y,
                Opr::Div => unreachable!(),
            })
        }
        (Opr::Add, Str(x), Str(y)) => Want::Val(Str(format!("{x}{y}"))),
        (Opr::Add, Null, Str(y)) => Want::Val(Str(y.clone())),
        (Opr::Add, Str(x), Null) => Want::Val(Str(x.clone())),
        (Opr::Mul, Str(s), Int(n)) | (Opr::Mul, Int(n), Str(s)) => Want::Val(Str(s.repeat((*n).max(0) as usize))),
        _ => Want::Unspecified,
    }
}

fn same(got: &Value, want: &TV) -> bool {
    match (got, want) {
        (Value::Float(g), TV::Float(w)) => g.into_inner().to_bits() == w.0.to_bits() || (g.into_inner() == 0.0 && w.0 == 0.0),
        _ => *got == want.to_value(),
    }
}

const SENTINEL: &str = "{\"__err__\": true}";

fn is_sentinel(v: &Value) -> bool {
    v.as_object().is_some_and(|o| o.len() == 1 && o.contains_key("__err__"))
}

/// Result of evaluating through compiled VRL: Ok(Some(v)) value, Ok(None) runtime error.
fn eval_compiled(c: &Case) -> Result<Option<Value>, String> {
    let (ea, eb, ev) = match c.form {
        0 => match (vrlx::literal(&c.a), vrlx::literal(&c.b)) {
            (Some(x), Some(y)) => (x, y, vrlx::empty_object()),
            _ => return Err("no literal".into()),
        },
        _ => (".a".to_string(), ".b".to_string(), vrlx::event_of(&[("a", &c.a), ("b", &c.b)])),
    };
    let plain = format!("({ea} {} {eb})", c.op.sym());
    let guarded = format!("({ea} {} {eb}) ?? {SENTINEL}", c.op.sym());
    let comp = |src: &str| if c.form == 1 { vrlx::compile_exact(src, &ev) } else { vrlx::compile(src) };
    let (res, was_guarded) = match comp(&plain) {
        Ok(r) => (r, false),
        Err(_) => match comp(&guarded) {
            Ok(r) => (r, true),
            Err(d) => return Err(format!("rejected: {}", vrlx::diag_summary(&d))),
        },
    };
    let out = vrlx::run(&res.program, ev, vrlx::empty_object());
    match out.end {
        End::Ok(v) => {
            if was_guarded && is_sentinel(&v) {
                Ok(None)
            } else {
                Ok(Some(v))
            }
        }
        End::Error(m) => {
            if was_guarded {
                Err(format!("guarded expression still failed: {m}"))
            } else {
                // accepted without error handling but failed at runtime
                Err(format!("UNGUARDED-FAILURE: `{plain}` was accepted as infallible but failed: {m}"))
            }
        }
        other => Err(format!("unexpected end {other:?}")),
    }
}

fn check(c: &Case) -> V {
    let want = model(c.op, &c.a, &c.b);
    let compiled = eval_compiled(c);
    let api = {
        let (a, b) = (c.a.to_value(), c.b.to_value());
        match c.op {
            Opr::Add => a.try_add(b),
            Opr::Sub => a.try_sub(b),
            Opr::Mul => a.try_mul(b),
            Opr::Div => a.try_div(b),
        }
    };
    // a float result is never NaN (NotNan makes that unrepresentable; assert anyway for clarity)
    if let Ok(Value::Float(f)) = &api {
        if f.into_inner().is_nan() {
            return V::fail("API returned NaN");
        }
    }
    let mut v = V::pass();
    match &want {
        Want::Unspecified => {
            return V::pass().class("unspecified_pair_no_panic");
        }
        Want::Err => {
            if let Ok(x) = &api {
                return V::fail(format!("API: {:?} {} {:?} returned {x}, model says it must fail", c.a, c.op.sym(), c.b));
            }
            match &compiled {
                Ok(None) => {}
                Ok(Some(x)) => return V::fail(format!("compiled(form {}): {:?} {} {:?} returned {x}, model says it must fail", c.form, c.a, c.op.sym(), c.b)),
                Err(e) if e.starts_with("rejected") || e == "no literal" => v = v.class("compile_rejected"),
                Err(e) if e.starts_with("UNGUARDED-FAILURE") && c.op != Opr::Div => {
                    // NaN results are the documented exception to infallibility (C02); for C11 the
                    // value-level outcome (an error) is what the statement asks for.
                    v = v.class("nan_error_in_infallible_position");
                }
                Err(e) => return V::fail(e.clone()),
            }
            v = v.class("expected_error");
        }
        Want::Val(w) => {
            match &api {
                Ok(x) if same(x, w) => {}
                other => return V::fail(format!("API: {:?} {} {:?} gave {other:?}, model says {w:?}", c.a, c.op.sym(), c.b)),
            }
            match &compiled {
                Ok(Some(x)) if same(x, w) => {}
                Err(e) if e.starts_with("rejected") || e == "no literal" => v = v.class("compile_rejected"),
                other => return V::fail(format!("compiled(form {}): {:?} {} {:?} gave {other:?}, model says {w:?}", c.form, c.a, c.op.sym(), c.b)),
            }
        }
    }
    let overflow = match (&c.a, &c.b, c.op) {
        (TV::Int(x), TV::Int(y), Opr::Add) => x.checked_add(*y).is_none(),
        (TV::Int(x), TV::Int(y), Opr::Sub) => x.checked_sub(*y).is_none(),
        (TV::Int(x), TV::Int(y), Opr::Mul) => x.checked_mul(*y).is_none(),
        _ => false,
    };
    let mixed = matches!((&c.a, &c.b), (TV::Int(_), TV::Float(_)) | (TV::Float(_), TV::Int(_)));
    let nonfinite = [&c.a, &c.b].iter().any(|t| matches!(t, TV::Float(f) if !f.0.is_finite()));
    let stringy = [&c.a, &c.b].iter().any(|t| matches!(t, TV::Str(_) | TV::Null));
    let zero_div = c.op == Opr::Div && num(&c.b) == Some(0.0);
    v.nontrivial(overflow || mixed || nonfinite || stringy || zero_div)
        .class_if(overflow, "int_overflow")
        .class_if(mixed, "mixed_int_float")
        .class_if(nonfinite, "non_finite_operand")
        .class_if(stringy, "string_or_null_operand")
        .class_if(zero_div, "zero_divisor")
        .class(match c.form {
            0 => "form_literal",
            1 => "form_exact_field",
            _ => "form_any_field",
        })
}

fn operand() -> impl Strategy<Value = TV> {
    prop_oneof![
        5 => int().prop_map(TV::Int),
        4 => float().prop_map(TV::float),
        2 => prop_oneof![plain_string(), ustring(6)].prop_map(TV::Str),
        1 => Just(TV::Null),
    ]
}

fn overflow_pair() -> impl Strategy<Value = (TV, TV)> {
    prop_oneof![
        (int(), int()).prop_map(|(a, b)| (TV::Int(a), TV::Int(b))),
        (any::<i64>(), any::<i64>()).prop_map(|(a, b)| (TV::Int(a), TV::Int(b))),
        (0u32..64, 0u32..64, any::<bool>(), any::<bool>(), -3i64..=3, -3i64..=3).prop_map(|(s1, s2, n1, n2, d1, d2)| {
            let m = |s: u32, n: bool, d: i64| {
                let v = if s == 63 { i64::MAX } else { 1i64 << s }.wrapping_add(d);
                if n { v.wrapping_neg() } else { v }
            };
            (TV::Int(m(s1, n1, d1)), TV::Int(m(s2, n2, d2)))
        }),
    ]
}

fn repeat_pair() -> impl Strategy<Value = (TV, TV)> {
    (ustring(5), prop_oneof![-3i64..=12, Just(i64::MIN), Just(-1i64), 0i64..=2000], any::<bool>())
        .prop_map(|(s, n, swap)| if swap { (TV::Int(n), TV::Str(s)) } else { (TV::Str(s), TV::Int(n)) })
}

fn case() -> impl Strategy<Value = Case> {
    let op = prop_oneof![Just(Opr::Add), Just(Opr::Sub), Just(Opr::Mul), Just(Opr::Div)];
    let special = || prop_oneof![
        Just(f64::INFINITY), Just(f64::NEG_INFINITY), Just(0.0f64), Just(-0.0f64), Just(f64::MAX), Just(f64::MIN), Just(1.0f64), Just(5e-324f64)
    ];
    let num = || prop_oneof![3 => int().prop_map(TV::Int), 3 => float().prop_map(TV::float), 2 => special().prop_map(TV::float), 1 => Just(TV::Int(0))];
    let pair = prop_oneof![
        3 => (operand(), operand()),
        4 => (num(), num()),
        3 => overflow_pair(),
        1 => repeat_pair(),
        1 => (prop_oneof![plain_string().prop_map(TV::Str), Just(TV::Null)], prop_oneof![ustring(6).prop_map(TV::Str), Just(TV::Null)]),
    ];
    (op, pair, 0u8..3).prop_map(|(op, (a, b), form)| {
        // `string * n` allocates n copies: repetition counts are bounded at 10^4 (memory
        // exhaustion by multi-gigabyte repetition is out of scope by C04's statement)
        let clamp = |t: TV| match t {
            TV::Int(n) if n > 10_000 => TV::Int(n % 10_001),
            t => t,
        };
        let (a, b) = match (&a, &b) {
            (TV::Str(_), TV::Int(_)) | (TV::Int(_), TV::Str(_)) if op == Opr::Mul => (clamp(a), clamp(b)),
            _ => (a, b),
        };
        Case { op, a, b, form }
    })
}

pub fn run(r: &mut Run) {
    r.sub("binary_ops", 800_000, 40_000_000, case, check);
}
