//! C14 — evaluation is deterministic and thread-safe.
//!
//! (a) `compile_twice`: the same source compiled twice on this thread and once on another thread
//!     gives the same accept/reject decision, the same rendered diagnostics, the same
//!     `ProgramInfo` and the same final type info.
//! (b) `cleared_runtime`: result, event and metadata of a run are the same on a fresh `Runtime` and
//!     on one that processed a history of other events and was `clear()`ed after each.
//! (c) `concurrent_shared_program`: N threads share one `Arc<Program>`, start on a barrier and run
//!     the same events in different orders; every run equals the sequential baseline.

use std::panic::{catch_unwind, AssertUnwindSafe};
use std::sync::{Arc, Barrier};

use proptest::prelude::*;
use serde::{Deserialize, Serialize};
use vrl::compiler::runtime::Runtime;
use vrl::compiler::state::TypeInfo;
use vrl::compiler::{Program, ProgramInfo, TargetValue};
use vrl::value::{Secrets, Value};

use crate::engine::{Run, V};
use crate::gens::fnex;
use crate::gens::prog::program_src;
use crate::gens::proggen::{self, Preset};
use crate::gens::sloppy;
use crate::gens::value::TV;
use crate::vrlx;

pub const RULE: &str = "cases carry the program as source text. Programs: (1) type-directed generated programs (assignments to variables/event/metadata, if/else, blocks, `??`, `ok, err =`, del, closures, return, abort), most of them preceded by statements that assign a variable only on some runs (parenthesised assignment in the right operand of `&&`/`||`/`??`) and read it afterwards, with events from the same generator; (2) programs made from the stdlib functions' own examples() for every function except the exempt ones (now, random_*, uuid_v4/v7, get_hostname, get_env_var, get_timezone_name, dns_lookup, reverse_dns, http_request; examples mentioning them are dropped too), 3/4 of the picks going to functions with caches / pools / heavy regex machinery (parse_*, encode_*/decode_*, match*, replace*, format_timestamp, redact, find, split, sieve): where the example's first argument is a constant it is replaced by a typed read of `.msg` and the events carry the documented input and mutations of it (truncations, deletions, doubling, cross-over with other examples of the same function, digit rotation, case change, inserted specials); (3) for compile_twice only: sloppy programs with many warnings and textually corrupted versions of all of these (rejected programs with error diagnostics). compile_twice: compile the source twice on this thread and once on a freshly spawned thread: same accept/reject (or the same panic location), same rendered diagnostics (errors or warnings), equal ProgramInfo, equal final type info (result TypeDef and external env by Debug text, local env by ==). cleared_runtime: outcome (Result<Value, Terminate>), final event and final metadata compared by Debug text between a fresh Runtime and a Runtime that first processed a history of 1-6 other events with clear() after each (is_empty() must hold after every clear()). concurrent_shared_program: 2, 4 or 16 threads share one Arc<Program>, each with its own Runtime (cleared between events), start on a barrier, run the same <= 8 events `repeats` times in a per-thread order derived from the case's seed; every (result, event', metadata') must equal the sequential baseline computed first on fresh runtimes. Non-trivial: compile_twice = the compiler produced at least one diagnostic; cleared_runtime = the program calls a heavy function or assigns a variable, and some history event ends differently (different result, outcome kind or set of assigned variables) than the event under test; concurrent = the program calls a heavy function or assigns variables and at least two events have different outcomes. Distinct = distinct serialised cases.";
pub const NOTE: &str = "interleavings are sampled by stress, not enumerated (the harness does not own the scheduler inside vrl and its dependencies); parse_syslog / parse_timestamp style functions that complete missing years from the current date are compared within one oracle call only (a run straddling New Year's midnight could differ); secrets are not compared; Debug text of values is trusted to be a faithful rendering; a leaked variable is only observable through variables that are assigned on some runs only (the compiler enforces definite assignment everywhere else), which is why such statements are generated on purpose; open known findings: the E701 `did you mean` hint depends on HashMap order (failures whose renderings are equal once the quoted suggestion is masked carry the signature compile_twice:only_did_you_mean_suggestion_differs), shannon_entropy with codepoint/grapheme segmentation sums in HashMap order (switch shannon-entropy-codepoint-or-grapheme-segmentation leaves those example programs out of cleared_runtime and concurrent_shared_program)";

const VAR_NAMES: &[&str] = &["x", "y", "z", "w", "n", "s", "acc", "tmp", "jv", "js", "jo"];

// ------------------------------------------------------------------------------------------
// (a) compile twice

#[derive(Clone, Debug, Serialize, Deserialize)]
pub struct SrcCase {
    pub origin: String,
    pub src: String,
}

struct Compiled {
    accepted: String,
    diagnostics: String,
    info: Option<ProgramInfo>,
    type_info: Option<TypeInfo>,
    n_diags: usize,
}

fn compile_summary(src: &str) -> Compiled {
    crate::engine::panics::clear_last();
    let r = catch_unwind(AssertUnwindSafe(|| vrlx::compile(src)));
    match r {
        Err(p) => {
            let (loc, msg) = crate::engine::panics::last().unwrap_or_else(|| ("unknown".into(), crate::engine::panics::payload_str(&p)));
            Compiled { accepted: format!("panicked at {loc}"), diagnostics: msg, info: None, type_info: None, n_diags: 1 }
        }
        Ok(Err(d)) => {
            let n = d.len();
            Compiled { accepted: "rejected".into(), diagnostics: vrlx::render(src, d), info: None, type_info: None, n_diags: n }
        }
        Ok(Ok(res)) => {
            let n = res.warnings.len();
            let info = res.program.info().clone();
            let ti = res.program.final_type_info();
            Compiled { accepted: "accepted".into(), diagnostics: vrlx::render(src, res.warnings), info: Some(info), type_info: Some(ti), n_diags: n }
        }
    }
}

fn diff_compiled(a: &Compiled, b: &Compiled, what: &str) -> Option<String> {
    if a.accepted != b.accepted {
        return Some(format!("{what}: outcome `{}` vs `{}`", a.accepted, b.accepted));
    }
    if a.diagnostics != b.diagnostics {
        return Some(format!("{what}: rendered diagnostics differ\n--- first\n{}\n--- second\n{}", a.diagnostics, b.diagnostics));
    }
    if a.info != b.info {
        return Some(format!("{what}: ProgramInfo differs: {:?} vs {:?}", a.info, b.info));
    }
    match (&a.type_info, &b.type_info) {
        (Some(x), Some(y)) => {
            let (rx, ry) = (format!("{:?}", x.result), format!("{:?}", y.result));
            if rx != ry {
                return Some(format!("{what}: final result type differs: {rx} vs {ry}"));
            }
            let (ex, ey) = (format!("{:?}", x.state.external), format!("{:?}", y.state.external));
            if ex != ey {
                return Some(format!("{what}: final external type state differs: {ex} vs {ey}"));
            }
            if x.state.local != y.state.local {
                return Some(format!("{what}: final local type state differs: {:?} vs {:?}", x.state.local, y.state.local));
            }
            None
        }
        (None, None) => None,
        _ => Some(format!("{what}: one compilation has type info, the other has not")),
    }
}

pub const SIG_DID_YOU_MEAN: &str = "compile_twice:only_did_you_mean_suggestion_differs";

fn mask_suggestions(rendered: &str) -> String {
    static RE: std::sync::OnceLock<regex::Regex> = std::sync::OnceLock::new();
    RE.get_or_init(|| regex::Regex::new(r#"did you mean "[^"\n]*"\?"#).unwrap()).replace_all(rendered, "did you mean ...?").into_owned()
}

fn check_compile(c: &SrcCase) -> V {
    let first = compile_summary(&c.src);
    let second = compile_summary(&c.src);
    let src = c.src.clone();
    let third = match std::thread::Builder::new().stack_size(16 * 1024 * 1024).spawn(move || compile_summary(&src)) {
        Ok(h) => match h.join() {
            Ok(x) => x,
            Err(_) => return V::fail(format!("compiling on another thread died outside catch_unwind\n{}", c.src)),
        },
        Err(e) => panic!("harness: cannot spawn a thread: {e}"),
    };
    for (other, what) in [(&second, "first vs second compilation on the same thread"), (&third, "this thread vs another thread")] {
        if let Some(m) = diff_compiled(&first, other, what) {
            let msg = format!("{m}\n--- source ({})\n{}", c.origin, c.src);
            // known finding: the `did you mean "x"?` hint of E701 picks among equally close
            // variable names in HashMap iteration order
            if first.accepted == other.accepted && first.diagnostics != other.diagnostics && mask_suggestions(&first.diagnostics) == mask_suggestions(&other.diagnostics) {
                return V::fail_sig(SIG_DID_YOU_MEAN, msg);
            }
            return V::fail(msg);
        }
    }
    let origin: &'static str = match c.origin.as_str() {
        "proggen" => "src_proggen",
        "sloppy" => "src_sloppy",
        "fnex" => "src_function_example",
        "corrupted" => "src_corrupted",
        _ => "src_other",
    };
    V::pass()
        .nontrivial(first.n_diags > 0)
        .class(origin)
        .class(if first.accepted == "accepted" {
            if first.n_diags > 0 {
                "accepted_with_warnings"
            } else {
                "accepted_clean"
            }
        } else if first.accepted == "rejected" {
            "rejected"
        } else {
            "compile_panic_same_everywhere"
        })
        .class_if(first.n_diags >= 2, "two_or_more_diagnostics")
}

fn corrupt(src: &str, ops: &[(u8, u16, u8)]) -> String {
    let mut chars: Vec<char> = src.chars().collect();
    for (op, at, x) in ops {
        if chars.is_empty() {
            break;
        }
        let i = *at as usize % chars.len();
        let n = 1 + (*x as usize % 6);
        let hi = (i + n).min(chars.len());
        match op % 5 {
            0 => {
                chars.drain(i..hi);
            }
            1 => {
                let dup: Vec<char> = chars[i..hi].to_vec();
                for (k, ch) in dup.into_iter().enumerate() {
                    chars.insert(hi + k, ch);
                }
            }
            2 => chars[i] = ['(', ')', '{', '}', '[', ']', '!', '.', ',', '=', '"', '?', ';', '|', '%', '1'][*x as usize % 16],
            3 => chars.insert(i, ['!', '.', '(', '"', ' ', '\n', '?', '{'][*x as usize % 8]),
            _ => {
                chars.swap(i, hi - 1);
            }
        }
    }
    chars.into_iter().collect()
}

fn c14_preset() -> Preset {
    Preset { returns: 2, aborts: 2, closures: 3, ..proggen::BASE }
}

fn sloppy_opts() -> sloppy::Opts {
    sloppy::Opts { base: c14_preset(), no_effects_in_discarded_call_args: false, no_effects_in_discarded_object: false, no_effects_right_of_discarded_short_circuit: false, no_sibling_after_closure: false, no_bang_under_handler: false }
}

pub const SW_SHANNON: &str = "shannon-entropy-codepoint-or-grapheme-segmentation";

fn keep_all(_: &fnex::Template) -> bool {
    false
}

/// known finding: shannon_entropy sums in HashMap order for these segmentations
fn shannon_non_byte(t: &fnex::Template) -> bool {
    t.func == "shannon_entropy" && t.src.contains("segmentation")
}

fn src_strategy() -> impl Strategy<Value = SrcCase> {
    let plain = prop_oneof![
        3 => proggen::strategy(c14_preset()).prop_map(|p| ("proggen", program_src(&p.prog))),
        3 => sloppy::strategy(sloppy_opts()).prop_map(|s| ("sloppy", s.src)),
        2 => fnex::strategy(1, keep_all).prop_map(|f| ("fnex", f.src)),
    ];
    (plain, prop_oneof![2 => Just(Vec::new()), 1 => proptest::collection::vec((any::<u8>(), any::<u16>(), any::<u8>()), 1..4)]).prop_map(|((origin, src), ops)| {
        if ops.is_empty() {
            SrcCase { origin: origin.to_string(), src }
        } else {
            SrcCase { origin: "corrupted".to_string(), src: corrupt(&src, &ops) }
        }
    })
}

// ------------------------------------------------------------------------------------------
// running

#[derive(Clone, Debug, PartialEq)]
struct Obs {
    result: String,
    event: String,
    metadata: String,
    ok: bool,
}

fn run_on(rt: &mut Runtime, program: &Program, event: &Value, meta: &Value) -> (Result<Value, vrl::compiler::runtime::Terminate>, Value, Value) {
    let mut target = TargetValue { value: event.clone(), metadata: meta.clone(), secrets: Secrets::default() };
    let tz = vrlx::utc();
    let r = rt.resolve(&mut target, program, &tz);
    (r, target.value, target.metadata)
}

fn observe(rt: &mut Runtime, program: &Program, event: &Value, meta: &Value) -> Obs {
    let (r, e, m) = run_on(rt, program, event, meta);
    Obs { ok: r.is_ok(), result: format!("{r:?}"), event: format!("{e:?}"), metadata: format!("{m:?}") }
}

/// outcome kind + set of assigned variables of a run with our own runtime state ("which branch")
fn shape(program: &Program, event: &Value, meta: &Value) -> String {
    let out = vrlx::run(program, event.clone(), meta.clone());
    let vars: Vec<&str> = VAR_NAMES.iter().copied().filter(|n| out.state.variable(&vrl::parser::ast::Ident::new(*n)).is_some()).collect();
    format!("{} {:?}", out.end.class(), vars)
}

fn calls_heavy(src: &str) -> bool {
    ["parse_", "encode_", "decode_", "match", "replace", "format_timestamp", "redact(", "find(", "split(", "sieve("].iter().any(|p| src.contains(p))
}

fn assigns_variable(src: &str) -> bool {
    // `name = ` at the start of a (trimmed) line or after `{ `
    src.lines().any(|l| {
        let t = l.trim_start().trim_start_matches("{ ");
        let id: String = t.chars().take_while(|c| c.is_ascii_alphanumeric() || *c == '_').collect();
        !id.is_empty() && t[id.len()..].starts_with(" = ") && !id.chars().next().unwrap().is_ascii_digit()
    })
}

#[derive(Clone, Debug, Serialize, Deserialize)]
pub struct RtCase {
    pub origin: String,
    pub src: String,
    pub event: TV,
    pub meta: TV,
    pub history: Vec<(TV, TV)>,
}

fn check_runtime(c: &RtCase) -> V {
    let res = match vrlx::compile(&c.src) {
        Ok(r) => r,
        Err(_) => return V::discard("rejected"),
    };
    let program = res.program;
    let (event, meta) = (c.event.to_value(), c.meta.to_value());
    let mut fresh = Runtime::default();
    let want = observe(&mut fresh, &program, &event, &meta);
    // a second fresh runtime: plain repeatability
    let mut fresh2 = Runtime::default();
    let again = observe(&mut fresh2, &program, &event, &meta);
    if want != again {
        return V::fail(format!("two runs on fresh runtimes differ\n  first : {want:?}\n  second: {again:?}\n  event={event} metadata={meta}\n--- program ({})\n{}", c.origin, c.src));
    }
    let mut reused = Runtime::default();
    if !reused.is_empty() {
        return V::fail("a default Runtime is not empty");
    }
    let own_shape = shape(&program, &event, &meta);
    let mut other_branch = false;
    for (i, (he, hm)) in c.history.iter().enumerate() {
        let (he, hm) = (he.to_value(), hm.to_value());
        let h = run_on(&mut reused, &program, &he, &hm);
        if format!("{:?}", h.0) != want.result {
            other_branch = true;
        }
        reused.clear();
        if !reused.is_empty() {
            return V::fail(format!("Runtime::is_empty() is false after clear() (history event {i}: {he})\n--- program ({})\n{}", c.origin, c.src));
        }
        if shape(&program, &he, &hm) != own_shape {
            other_branch = true;
        }
    }
    let got = observe(&mut reused, &program, &event, &meta);
    if got != want {
        return V::fail(format!(
            "a cleared, reused runtime behaves differently from a fresh one\n  fresh : {want:?}\n  reused: {got:?}\n  event={event} metadata={meta}\n  history={:?}\n--- program ({})\n{}",
            c.history, c.origin, c.src
        ));
    }
    let stateful = calls_heavy(&c.src) || assigns_variable(&c.src);
    V::pass()
        .nontrivial(stateful && other_branch)
        .class(if c.origin == "proggen" { "prog_generated" } else { "prog_function_example" })
        .class_if(calls_heavy(&c.src), "calls_heavy_function")
        .class_if(assigns_variable(&c.src), "assigns_variables")
        .class_if(other_branch, "history_takes_other_branch")
        .class_if(c.src.contains("(mv0 = "), "reads_maybe_assigned_variable")
        .class(if want.ok { "run_ok" } else { "run_terminated" })
        .class(match c.history.len() {
            1 => "history_1",
            2..=3 => "history_2_3",
            _ => "history_4_6",
        })
}

fn event_pool(n: std::ops::RangeInclusive<usize>) -> impl Strategy<Value = Vec<(TV, TV)>> {
    proptest::collection::vec(proptest::collection::vec(any::<u8>(), 24..60), n).prop_map(|vs| {
        vs.iter()
            .map(|b| {
                let pc = proggen::build(b, proggen::BASE);
                (pc.event, pc.meta)
            })
            .collect()
    })
}

/// Statements in which a variable is assigned only on some runs and read afterwards: an
/// assignment in parentheses (not a block, so the variable stays in scope) in the right operand of
/// `&&`, `||` or `??`. An unassigned variable reads as null, so state that leaks from an earlier
/// event is observable here (and only here: everywhere else the compiler enforces definite
/// assignment). Placed in front of the generated program (which may return or abort early).
fn maybe_assigned_tail(bytes: &[u8]) -> String {
    const CONDS: &[&str] = &[".flag == true", "is_string(.a)", "exists(.c)", "is_null(.d)", "is_array(.b)", "exists(.obj.a)"];
    const VALS: &[&str] = &[".a", ".b", "1", "\"s\"", ".arr", ".n"];
    const FIELDS: &[&str] = &[".a", ".b", ".n", ".s", ".d"];
    let mut o = String::new();
    for (i, ch) in bytes.chunks(3).enumerate() {
        let (b0, b1, b2) = (ch[0] as usize, *ch.get(1).unwrap_or(&0) as usize, *ch.get(2).unwrap_or(&0) as usize);
        let (c, v, f) = (CONDS[b1 % CONDS.len()], VALS[b2 % VALS.len()], FIELDS[b1 % FIELDS.len()]);
        match b0 % 3 {
            0 => o.push_str(&format!(".m{i} = ({c} && (mv{i} = {v}) == {v})\n")),
            1 => o.push_str(&format!(".m{i} = ({c} || (mv{i} = {v}) != {v})\n")),
            _ => o.push_str(&format!(".m{i} = (to_int({f}) ?? (mv{i} = {}))\n", b2 % 7)),
        }
        o.push_str(&format!(".r{i} = mv{i}\n"));
    }
    o
}

/// (origin, src, events ≥ 1) — the first event is the generator's own / the documented input
fn program_with_events(max_events: usize, leave_out: fn(&fnex::Template) -> bool) -> impl Strategy<Value = (String, String, Vec<(TV, TV)>)> {
    let empty = TV::obj([]);
    prop_oneof![
        1 => (proggen::strategy(c14_preset()), event_pool(0..=max_events - 1), proptest::collection::vec(any::<u8>(), 0..10)).prop_map(|(p, mut evs, tail)| {
            evs.insert(0, (p.event, p.meta));
            ("proggen".to_string(), format!("{}{}", maybe_assigned_tail(&tail), program_src(&p.prog)), evs)
        }),
        1 => fnex::strategy(max_events, leave_out).prop_map(move |f| {
            let evs = f.events.into_iter().map(|e| (e, empty.clone())).collect();
            (format!("fnex:{}", f.func), f.src, evs)
        }),
    ]
}

fn rt_strategy(leave_out: fn(&fnex::Template) -> bool) -> impl Strategy<Value = RtCase> {
    program_with_events(7, leave_out).prop_filter_map("needs a history", |(origin, src, mut evs)| {
        if evs.len() < 2 {
            // a history of the same event still exercises clear()
            let e = evs[0].clone();
            evs.push(e);
        }
        // the event under test is the last one, so that the documented input is part of the history
        let (event, meta) = evs.pop()?;
        evs.truncate(6);
        Some(RtCase { origin, src, event, meta, history: evs })
    })
}

// ------------------------------------------------------------------------------------------
// (c) concurrency

#[derive(Clone, Debug, Serialize, Deserialize)]
pub struct ConcCase {
    pub origin: String,
    pub src: String,
    pub events: Vec<(TV, TV)>,
    pub threads: u8,
    pub repeats: u8,
    pub order_seed: u64,
}

/// the order in which thread `t` visits the events: a permutation derived from the case's seed
fn order_for(seed: u64, t: usize, n: usize) -> Vec<usize> {
    let mut s = seed ^ ((t as u64 + 1).wrapping_mul(0x9E37_79B9_7F4A_7C15));
    let mut next = || {
        s ^= s << 13;
        s ^= s >> 7;
        s ^= s << 17;
        s
    };
    let mut idx: Vec<usize> = (0..n).collect();
    for i in (1..n).rev() {
        let j = (next() % (i as u64 + 1)) as usize;
        idx.swap(i, j);
    }
    idx
}

fn check_concurrent(c: &ConcCase) -> V {
    let res = match vrlx::compile(&c.src) {
        Ok(r) => r,
        Err(_) => return V::discard("rejected"),
    };
    let program = Arc::new(res.program);
    let events: Vec<(Value, Value)> = c.events.iter().map(|(e, m)| (e.to_value(), m.to_value())).collect();
    if events.is_empty() {
        return V::discard("no_events");
    }
    // sequential baseline on fresh runtimes
    let baseline: Vec<(Result<Value, vrl::compiler::runtime::Terminate>, Value, Value)> =
        events.iter().map(|(e, m)| run_on(&mut Runtime::default(), &program, e, m)).collect();
    let n_threads = c.threads.clamp(1, 16) as usize;
    let repeats = c.repeats.clamp(1, 8) as usize;
    let barrier = Barrier::new(n_threads);
    let mismatches: Vec<String> = std::thread::scope(|scope| {
        let handles: Vec<_> = (0..n_threads)
            .map(|t| {
                let program = Arc::clone(&program);
                let (events, baseline, barrier) = (&events, &baseline, &barrier);
                let order = order_for(c.order_seed, t, events.len());
                std::thread::Builder::new()
                    .stack_size(16 * 1024 * 1024)
                    .spawn_scoped(scope, move || {
                        let mut rt = Runtime::default();
                        let mut bad: Vec<String> = Vec::new();
                        barrier.wait();
                        let body = catch_unwind(AssertUnwindSafe(|| {
                            for rep in 0..repeats {
                                for &i in &order {
                                    let (e, m) = &events[i];
                                    let got = run_on(&mut rt, &program, e, m);
                                    rt.clear();
                                    if got != baseline[i] && bad.len() < 3 {
                                        bad.push(format!(
                                            "thread {t} (repeat {rep}) event #{i} {e}:\n    sequential: {:?}\n    concurrent: {:?}",
                                            baseline[i], got
                                        ));
                                    }
                                }
                            }
                        }));
                        if body.is_err() {
                            let (loc, msg) = crate::engine::panics::last().unwrap_or_else(|| ("unknown".into(), "panic".into()));
                            bad.push(format!("thread {t} panicked at {loc}: {msg} (the sequential baseline did not)"));
                        }
                        bad
                    })
                    .expect("spawn worker")
            })
            .collect();
        handles.into_iter().flat_map(|h| h.join().unwrap_or_else(|_| vec!["worker thread died".to_string()])).collect()
    });
    if !mismatches.is_empty() {
        return V::fail(format!(
            "concurrent runs of one shared program differ from the sequential baseline ({} threads)\n  {}\n--- program ({})\n{}",
            n_threads,
            mismatches.join("\n  "),
            c.origin,
            c.src
        ));
    }
    let distinct_outcomes = {
        let mut d: Vec<String> = baseline.iter().map(|b| format!("{:?}", b.0)).collect();
        d.sort();
        d.dedup();
        d.len()
    };
    let stateful = calls_heavy(&c.src) || assigns_variable(&c.src);
    V::pass()
        .nontrivial(stateful && distinct_outcomes >= 2)
        .class(if c.origin == "proggen" { "prog_generated" } else { "prog_function_example" })
        .class_if(calls_heavy(&c.src), "calls_heavy_function")
        .class_if(assigns_variable(&c.src), "assigns_variables")
        .class(match n_threads {
            0..=2 => "threads_2",
            3..=4 => "threads_4",
            _ => "threads_16",
        })
        .class_if(distinct_outcomes >= 2, "events_with_different_outcomes")
        .class_if(c.src.contains("(mv0 = "), "reads_maybe_assigned_variable")
        .class_if(baseline.iter().any(|b| b.0.is_err()), "some_run_terminates")
}

fn conc_strategy(max_repeats: u8, leave_out: fn(&fnex::Template) -> bool) -> impl Strategy<Value = ConcCase> {
    (program_with_events(8, leave_out), prop_oneof![2 => Just(2u8), 2 => Just(4u8), 1 => Just(16u8)], 1..=max_repeats, any::<u64>()).prop_map(
        |((origin, src, events), threads, repeats, order_seed)| ConcCase { origin, src, events, threads, repeats, order_seed },
    )
}

pub fn run(r: &mut Run) {
    r.sub("compile_twice", 6_000, 600_000, src_strategy, check_compile);
    let leave_out: fn(&fnex::Template) -> bool = if r.excluded(SW_SHANNON) { shannon_non_byte } else { keep_all };
    r.sub("cleared_runtime", 50_000, 5_000_000, move || rt_strategy(leave_out), check_runtime);
    let reps: u8 = if r.tier == crate::engine::Tier::Quick { 3 } else { 8 };
    r.sub("concurrent_shared_program", 2_500, 250_000, move || conc_strategy(reps, leave_out), check_concurrent);
}
