//! Thin wrappers over vrl's public API: compile with external kinds, run with our own runtime
//! state, classify the outcome.

use std::collections::BTreeMap;
use std::sync::OnceLock;

use vrl::compiler::state::{ExternalEnv, RuntimeState};
use vrl::compiler::{
    compile_with_external, CompilationResult, CompileConfig, Context, ExpressionError, Function, Program, Target, TargetValue,
    TimeZone,
};
use vrl::diagnostic::{DiagnosticList, Formatter};
use vrl::value::{Kind, Secrets, Value};

use crate::gens::value::TV;

/// How a run ended.
#[derive(Debug, Clone, PartialEq)]
pub enum End {
    Ok(Value),
    Return(Value),
    Error(String),
    Abort(Option<String>),
    /// `ExpressionError::Fallible` / `Missing` (should not occur in accepted programs)
    Other(String),
}

impl End {
    pub fn class(&self) -> &'static str {
        match self {
            End::Ok(_) => "end_ok",
            End::Return(_) => "end_return",
            End::Error(_) => "end_error",
            End::Abort(_) => "end_abort",
            End::Other(_) => "end_other",
        }
    }
    /// the value of a successful end (Ok or Return)
    pub fn value(&self) -> Option<&Value> {
        match self {
            End::Ok(v) | End::Return(v) => Some(v),
            _ => None,
        }
    }
    pub fn is_success(&self) -> bool {
        matches!(self, End::Ok(_) | End::Return(_))
    }
}

pub fn fns() -> &'static [Box<dyn Function>] {
    static FNS: OnceLock<Vec<Box<dyn Function>>> = OnceLock::new();
    FNS.get_or_init(vrl::stdlib::all)
}

pub fn utc() -> TimeZone {
    TimeZone::Named(chrono_tz::UTC)
}

pub fn render(src: &str, d: DiagnosticList) -> String {
    Formatter::new(src, d).to_string()
}

/// first diagnostic code + message, for classification
pub fn diag_summary(d: &DiagnosticList) -> String {
    d.iter().map(|x| format!("E{} {}", x.code, x.message)).collect::<Vec<_>>().join(" | ")
}

pub fn diag_codes(d: &DiagnosticList) -> Vec<usize> {
    d.iter().map(|x| x.code).collect()
}

pub fn compile(src: &str) -> Result<CompilationResult, DiagnosticList> {
    compile_with_external(src, fns(), &ExternalEnv::default(), CompileConfig::default())
}

pub fn compile_ext(src: &str, event_kind: Kind, metadata_kind: Kind) -> Result<CompilationResult, DiagnosticList> {
    compile_with_external(src, fns(), &ExternalEnv::new_with_kind(event_kind, metadata_kind), CompileConfig::default())
}

pub fn compile_cfg(src: &str, ext: &ExternalEnv, cfg: CompileConfig) -> Result<CompilationResult, DiagnosticList> {
    compile_with_external(src, fns(), ext, cfg)
}

/// Compile against an event whose fields get their *exact* kinds (so typed calls are accepted
/// without `!`).
pub fn compile_exact(src: &str, event: &Value) -> Result<CompilationResult, DiagnosticList> {
    compile_ext(src, Kind::from(event), Kind::object(vrl::value::kind::Collection::any()))
}

pub struct RunOut {
    pub end: End,
    pub event: Value,
    pub metadata: Value,
    pub state: RuntimeState,
}

pub fn classify(r: Result<Value, ExpressionError>) -> End {
    match r {
        Ok(v) => End::Ok(v),
        Err(ExpressionError::Return { value, .. }) => End::Return(value),
        Err(ExpressionError::Abort { message, .. }) => End::Abort(message),
        Err(ExpressionError::Error { message, .. }) => End::Error(message),
        Err(e @ (ExpressionError::Fallible { .. } | ExpressionError::Missing { .. })) => End::Other(format!("{e:?}")),
    }
}

/// Runs through `Program::resolve` with a fresh runtime state (so `Return` stays visible).
pub fn run_tz(program: &Program, event: Value, metadata: Value, tz: &TimeZone) -> RunOut {
    let mut target = TargetValue { value: event, metadata, secrets: Secrets::default() };
    let mut state = RuntimeState::default();
    let end = {
        let mut ctx = Context::new(&mut target, &mut state, tz);
        classify(program.resolve(&mut ctx))
    };
    RunOut { end, event: target.value, metadata: target.metadata, state }
}

pub fn run(program: &Program, event: Value, metadata: Value) -> RunOut {
    run_tz(program, event, metadata, &utc())
}

/// Runs on an arbitrary target (logging / fault-injecting wrappers).
pub fn run_on(program: &Program, target: &mut dyn Target, tz: &TimeZone) -> (End, RuntimeState) {
    let mut state = RuntimeState::default();
    let end = {
        let mut ctx = Context::new(target, &mut state, tz);
        classify(program.resolve(&mut ctx))
    };
    (end, state)
}

pub fn empty_object() -> Value {
    Value::Object(BTreeMap::new())
}

/// Compile (default external env: event is `object(any)`) and run on `event`.
/// `Err` carries the rendered compile diagnostics summary.
pub fn eval(src: &str, event: &Value) -> Result<RunOut, String> {
    match compile(src) {
        Ok(res) => Ok(run(&res.program, event.clone(), empty_object())),
        Err(d) => Err(diag_summary(&d)),
    }
}

/// Compile with exact field kinds and run.
pub fn eval_exact(src: &str, event: &Value) -> Result<RunOut, String> {
    match compile_exact(src, event) {
        Ok(res) => Ok(run(&res.program, event.clone(), empty_object())),
        Err(d) => Err(diag_summary(&d)),
    }
}

/// Convenience: event object from (field, value) pairs.
pub fn event_of(fields: &[(&str, &TV)]) -> Value {
    Value::Object(fields.iter().map(|(k, v)| ((*k).into(), v.to_value())).collect())
}

// ------------------------------------------------------------------------------------------
// printing values as VRL literals

/// VRL string literal for arbitrary text (double-quoted, with the lexer's escapes; `{{` is
/// broken up so that it is not read as a template).
pub fn str_lit(s: &str) -> String {
    let mut o = String::with_capacity(s.len() + 2);
    o.push('"');
    let mut prev_brace = false;
    for c in s.chars() {
        match c {
            '"' => o.push_str("\\\""),
            '\\' => o.push_str("\\\\"),
            '\n' => o.push_str("\\n"),
            '\r' => o.push_str("\\r"),
            '\t' => o.push_str("\\t"),
            '\0' => o.push_str("\\0"),
            '{' => {
                if prev_brace {
                    // "{{" would open a template: escape the second brace
                    o.push_str("\\{");
                } else {
                    o.push('{');
                }
            }
            c => o.push(c),
        }
        prev_brace = c == '{';
    }
    o.push('"');
    o
}

/// Can this float be written as a VRL literal that the lexer reads back bit-exactly?
/// (The lexer has no exponent syntax; Rust's `{:?}` prints exponents outside 1e-5..1e16.)
pub fn float_lit(x: f64) -> Option<String> {
    if !x.is_finite() {
        return None;
    }
    let s = format!("{x:?}");
    if s.contains('e') || s.contains('E') {
        return None;
    }
    Some(if x.is_sign_negative() { format!("({s})") } else { s })
}

pub fn int_lit(i: i64) -> String {
    if i == i64::MIN {
        "(-9223372036854775807 - 1)".to_string()
    } else if i < 0 {
        format!("({i})")
    } else {
        i.to_string()
    }
}

/// Literal source for a value, if it has one (no NaN/inf/exponent floats, no invalid UTF-8,
/// timestamps within years 0..9999).
pub fn literal(v: &TV) -> Option<String> {
    Some(match v {
        TV::Null => "null".to_string(),
        TV::Bool(b) => b.to_string(),
        TV::Int(i) => int_lit(*i),
        TV::Float(x) => float_lit(x.0)?,
        TV::Str(s) => str_lit(s),
        TV::Bin(_) => return None,
        TV::Ts { s, n } => {
            if !(-62_167_219_200..253_402_300_800).contains(s) {
                return None;
            }
            let t = crate::gens::value::ts(*s, *n);
            format!("t'{}'", t.to_rfc3339_opts(chrono::SecondsFormat::AutoSi, true))
        }
        TV::Regex(r) => {
            if r.contains('\'') || r.contains('\\') {
                return None;
            }
            format!("r'{r}'")
        }
        TV::Array(a) => {
            let mut parts = Vec::with_capacity(a.len());
            for x in a {
                parts.push(literal(x)?);
            }
            format!("[{}]", parts.join(", "))
        }
        TV::Object(o) => {
            let mut parts = Vec::with_capacity(o.len());
            for (k, x) in o {
                parts.push(format!("{}: {}", str_lit(k), literal(x)?));
            }
            format!("{{{}}}", parts.join(", "))
        }
    })
}
