//! Stdlib call generator (DESIGN.md 2.6): self-contained, serialisable call cases for every
//! deterministic function of `vrl::stdlib::all()`.
//!
//! A case names the function, lists `(keyword, value, position)` per argument, an optional closure
//! and the call form; `CallCase::build` turns it into the VRL source, the event and the event's
//! external kind, so that a replay re-executes exactly the same call.

use std::collections::{BTreeMap, BTreeSet};
use std::panic::{catch_unwind, AssertUnwindSafe};
use std::sync::OnceLock;

use proptest::prelude::*;
use serde::{Deserialize, Serialize};
use vrl::parser::ast;
use vrl::value::kind::Collection;
use vrl::value::{Kind, Value};

use crate::gens::value::{self as gv, TV};
use crate::vrlx;

// ------------------------------------------------------------------------------------------
// what is left out

/// Functions that do IO or are nondeterministic (clock, randomness, environment, network,
/// logging, secrets/enrichment tables of the embedder). Names that are not part of
/// `vrl::stdlib::all()` in this build are listed for completeness.
pub const IO_FUNCTIONS: &[&str] = &[
    "now",
    "random_bool",
    "random_bytes",
    "random_float",
    "random_int",
    "uuid_v4",
    "uuid_v7",
    "get_hostname",
    "get_env_var",
    "get_timezone_name",
    "http_request",
    "dns_lookup",
    "reverse_dns",
    "log",
    "get_secret",
    "set_secret",
    "remove_secret",
    "set_semantic_meaning",
    "get_enrichment_table_record",
    "find_enrichment_table_records",
];

/// Parameters that are never passed because they name a file to read at run time.
pub const SKIPPED_PARAMS: &[(&str, &str)] = &[("parse_etld", "psl")];

/// Parameters that take a path *query* (`del(.a0)`), not a value: never a literal.
pub const QUERY_PARAMS: &[(&str, &str)] = &[("del", "target"), ("exists", "field"), ("unnest", "path")];

/// Parameters pinned to the literal position by hand (in addition to the ones discovered from the
/// compile diagnostics of the function's own examples).
pub const PINNED_BY_HAND: &[(&str, &str)] = &[];

/// Integer parameters whose value only means "allocate / repeat that much": bounded, because
/// multi-GB memory exhaustion is out of scope by C04's statement. `(function, keyword, lo, hi)`.
/// Parameters for which the function documents (and enforces) its own limit are NOT listed.
pub const INT_BOUNDS: &[(&str, &str, i64, i64)] = &[];

/// decode_lz4 allocates `buf_size` bytes up front when it fits a u32 (anything else — negative or
/// larger — takes the function's own "too large" path, which stays in the domain): sizes between
/// 16 MiB and u32::MAX are pure allocation size and are clamped to 16 MiB.
pub const LZ4_MAX_BUF: i64 = 1 << 24;

/// zstd's "ultra" levels 20..22 (and anything above, which zstd clamps to 22) make the encoder
/// allocate ~730 MB of tables and spend seconds initialising them whatever the input: that is
/// the memory axis again. The level is bounded to <= 19 *after* the function's own `as i32`
/// truncation, so huge i64 values that wrap to small or negative levels stay in.
pub const ZSTD_MAX_LEVEL: i32 = 19;

/// Extra seed values for parameters whose examples provide none.
pub const MANUAL_POOL: &[(&str, &str, &[&str])] = &[
    ("strip_ansi_escape_codes", "value", &["\u{1b}[46mfoo\u{1b}[0m bar", "\u{1b}[1;31mred\u{1b}[m", "\u{1b}]0;title\u{7}x"]),
    ("encrypt", "key", &["01234567890123456789012345678912", "0123456789012345", "32_byte_house_key_sample_1234567"]),
    ("encrypt", "iv", &["0123456789012345", "012345678901", "012345678901234567890123"]),
    (
        "to_syslog_facility_code",
        "value",
        &[
            "kern", "user", "mail", "daemon", "auth", "syslog", "lpr", "news", "uucp", "cron", "authpriv", "ftp", "ntp", "security", "console",
            "solaris-cron", "local0", "local1", "local2", "local3", "local4", "local5", "local6", "local7",
        ],
    ),
    ("to_syslog_severity", "value", &["emerg", "panic", "alert", "crit", "err", "error", "warning", "warn", "notice", "info", "debug"]),
    ("ip_aton", "value", &["0.0.0.0", "255.255.255.255", "10.0.0.1", "127.0.0.1"]),
    ("ip_pton", "value", &["0.0.0.0", "255.255.255.255", "::", "::1", "2001:db8::ff00:42:8329"]),
    ("ip_to_ipv6", "value", &["0.0.0.0", "255.255.255.255", "10.1.2.3"]),
    ("ipv6_to_ipv4", "value", &["::ffff:0.0.0.0", "::ffff:255.255.255.255", "::ffff:10.1.2.3", "::1.2.3.4"]),
    ("ip_subnet", "subnet", &["/0", "/1", "/8", "/31", "/32", "/33", "/64", "/128", "255.0.0.0", "ffff::"]),
    ("ip_cidr_contains", "cidr", &["0.0.0.0/0", "10.0.0.0/8", "192.168.0.0/16", "::/0", "2001:db8::/32", "1.2.3.4/32"]),
    ("ip_cidr_contains", "value", &["10.1.2.3", "192.168.10.32", "1.2.3.4", "::1", "2001:db8::1"]),
];

/// Seed values computed by running a trusted expression at start-up (inverse functions need
/// well-formed input that no mutation of one example reaches).
pub const DERIVED_POOL: &[(&str, &str, &str)] = &[
    ("decode_gzip", "value", "encode_gzip(\"hello hello hello hello\")"),
    ("decode_gzip", "value", "encode_gzip(\"\")"),
    ("decode_zlib", "value", "encode_zlib(\"hello hello hello hello\")"),
    ("decode_zlib", "value", "encode_zlib(\"\", 0)"),
    ("decode_snappy", "value", "encode_snappy(\"hello hello hello hello\")"),
    ("decode_snappy", "value", "encode_snappy(\"\")"),
    ("decode_zstd", "value", "encode_zstd(\"hello hello hello hello\")"),
    ("decode_zstd", "value", "encode_zstd(\"\", 1)"),
    ("decode_lz4", "value", "encode_lz4(\"hello hello hello hello\")"),
    ("decode_lz4", "value", "encode_lz4(\"abc\", prepend_size: false)"),
    ("decode_base64", "value", "encode_base64(\"\\0 binary?> ~\", charset: \"url_safe\")"),
    ("decode_base16", "value", "encode_base16(\"any bytes\")"),
    ("decode_punycode", "value", "encode_punycode!(\"www.caf\u{e9}.com\")"),
    ("decode_percent", "value", "encode_percent(\"a b/c?d=\u{e9}\")"),
    ("decode_mime_q", "value", "\"=?utf-8?B?aGVsbG8=?= and =?iso-8859-1?Q?=E9t=E9?=\""),
    ("ip_ntop", "value", "ip_pton!(\"10.1.2.3\")"),
    ("ip_ntop", "value", "ip_pton!(\"2001:db8::1\")"),
    ("decrypt", "ciphertext", "encrypt!(\"secret data 1234\", \"AES-256-CFB\", key: \"01234567890123456789012345678912\", iv: \"0123456789012345\")"),
    ("parse_cbor", "value", "decode_base64!(\"oWNmb2/1\")"),
    ("uuid_from_friendly_id", "value", "\"3s87yEvnmkiPBMHsj8bwwc\""),
];

/// Functions whose `path` argument is an array of segments where an integer segment n makes
/// `set` allocate n elements: integer segments are clamped to -64..=64.
pub const PATH_ARRAY_PARAMS: &[(&str, &str)] = &[("set", "path")];
pub const PATH_INDEX_BOUND: i64 = 64;

pub const MAX_TOTAL_BYTES: usize = 4096;
pub const MAX_STRING_BYTES: usize = 2048;

// kind bits of `Parameter::kind` / `Function::return_kind` (vrl::compiler::value::kind)
pub const BYTES: u16 = 1 << 1;
pub const INTEGER: u16 = 1 << 2;
pub const FLOAT: u16 = 1 << 3;
pub const BOOLEAN: u16 = 1 << 4;
pub const OBJECT: u16 = 1 << 5;
pub const ARRAY: u16 = 1 << 6;
pub const TIMESTAMP: u16 = 1 << 7;
pub const REGEX: u16 = 1 << 8;
pub const NULL: u16 = 1 << 9;
pub const UNDEFINED: u16 = 1 << 10;
pub const ALL_DEFINED: u16 = BYTES | INTEGER | FLOAT | BOOLEAN | OBJECT | ARRAY | TIMESTAMP | REGEX | NULL;
const BITS: [u16; 9] = [BYTES, INTEGER, FLOAT, BOOLEAN, OBJECT, ARRAY, TIMESTAMP, REGEX, NULL];

pub fn bit_of_tv(v: &TV) -> u16 {
    match v {
        TV::Null => NULL,
        TV::Bool(_) => BOOLEAN,
        TV::Int(_) => INTEGER,
        TV::Float(_) => FLOAT,
        TV::Str(_) | TV::Bin(_) => BYTES,
        TV::Ts { .. } => TIMESTAMP,
        TV::Regex(_) => REGEX,
        TV::Array(_) => ARRAY,
        TV::Object(_) => OBJECT,
    }
}

pub fn bit_of_value(v: &Value) -> u16 {
    match v {
        Value::Null => NULL,
        Value::Boolean(_) => BOOLEAN,
        Value::Integer(_) => INTEGER,
        Value::Float(_) => FLOAT,
        Value::Bytes(_) => BYTES,
        Value::Timestamp(_) => TIMESTAMP,
        Value::Regex(_) => REGEX,
        Value::Array(_) => ARRAY,
        Value::Object(_) => OBJECT,
    }
}

pub fn bit_name(b: u16) -> &'static str {
    match b {
        BYTES => "string",
        INTEGER => "integer",
        FLOAT => "float",
        BOOLEAN => "boolean",
        OBJECT => "object",
        ARRAY => "array",
        TIMESTAMP => "timestamp",
        REGEX => "regex",
        NULL => "null",
        _ => "other",
    }
}

// ------------------------------------------------------------------------------------------
// the case type

#[derive(Clone, Copy, Debug, PartialEq, Eq, Serialize, Deserialize)]
pub enum Pos {
    /// literal in the source (falls back to `Exact` when the value has no exact literal)
    Lit,
    /// event field `.aN` whose external kind is the value's exact kind
    Exact,
    /// event field `.aN` typed `any`
    Any,
    /// event field `.aN` whose external kind is the union of the value's exact kind and the
    /// kinds named by the mask (array/object bits: any array / any object)
    Union(u16),
}

/// the kind named by a bit mask
pub fn kind_of_mask(mask: u16) -> Kind {
    let mut k = Kind::never();
    for b in BITS {
        if mask & b != 0 {
            k = k.union(match b {
                BYTES => Kind::bytes(),
                INTEGER => Kind::integer(),
                FLOAT => Kind::float(),
                BOOLEAN => Kind::boolean(),
                OBJECT => Kind::object(Collection::any()),
                ARRAY => Kind::array(Collection::any()),
                TIMESTAMP => Kind::timestamp(),
                REGEX => Kind::regex(),
                _ => Kind::null(),
            });
        }
    }
    k
}

#[derive(Clone, Copy, Debug, PartialEq, Eq, Serialize, Deserialize)]
pub enum Form {
    /// `f(..)`, and `f!(..)` iff the compiler rejects the former only for being fallible
    /// (E100/E103, or E110 when an argument is merely typed too widely); deterministic, so a replay resolves it the same way
    Auto,
    /// exactly `f(..)`
    Plain,
    /// exactly `f!(..)`
    Bang,
}

#[derive(Clone, Debug, PartialEq, Serialize, Deserialize)]
pub struct Arg {
    pub kw: String,
    pub v: TV,
    pub pos: Pos,
    /// written as `kw: value` (otherwise positional)
    pub named: bool,
}

#[derive(Clone, Debug, PartialEq, Serialize, Deserialize)]
pub struct CallCase {
    pub func: String,
    pub args: Vec<Arg>,
    /// closure source text appended to the call (`-> |k, v| { .. }`)
    pub closure: Option<String>,
    pub form: Form,
}

pub struct Built {
    pub src: String,
    pub event: Value,
    pub event_kind: Kind,
}

/// literal source for a value (extends `vrlx::literal` by regexes with backslashes)
pub fn lit(v: &TV) -> Option<String> {
    match v {
        TV::Regex(r) => {
            if r.contains('\'') || r.contains('\n') || r.ends_with('\\') {
                None
            } else {
                Some(format!("r'{r}'"))
            }
        }
        TV::Array(a) => {
            let mut parts = Vec::with_capacity(a.len());
            for x in a {
                parts.push(lit(x)?);
            }
            Some(format!("[{}]", parts.join(", ")))
        }
        TV::Object(o) => {
            let mut parts = Vec::with_capacity(o.len());
            for (k, x) in o {
                parts.push(format!("{}: {}", vrlx::str_lit(k), lit(x)?));
            }
            Some(format!("{{{}}}", parts.join(", ")))
        }
        other => vrlx::literal(other),
    }
}

impl CallCase {
    pub fn build(&self, bang: bool) -> Built {
        let mut known: BTreeMap<vrl::value::kind::Field, Kind> = BTreeMap::new();
        let mut event: BTreeMap<vrl::value::KeyString, Value> = BTreeMap::new();
        let mut parts: Vec<String> = Vec::with_capacity(self.args.len());
        for (i, a) in self.args.iter().enumerate() {
            let literal = if a.pos == Pos::Lit { lit(&a.v) } else { None };
            let expr = match literal {
                Some(s) => s,
                None => {
                    let name = format!("a{i}");
                    let val = a.v.to_value();
                    let k = match a.pos {
                        Pos::Any => Kind::any(),
                        Pos::Union(mask) => Kind::from(&val).union(kind_of_mask(mask)),
                        _ => Kind::from(&val),
                    };
                    known.insert(name.as_str().into(), k);
                    event.insert(name.as_str().into(), val);
                    format!(".{name}")
                }
            };
            if a.named {
                parts.push(format!("{}: {}", a.kw, expr));
            } else {
                parts.push(expr);
            }
        }
        let mut src = format!("{}{}({})", self.func, if bang { "!" } else { "" }, parts.join(", "));
        if let Some(c) = &self.closure {
            src.push(' ');
            src.push_str(c);
        }
        Built { src, event: Value::Object(event), event_kind: Kind::object(Collection::from_parts(known, Kind::undefined())) }
    }

    /// the source as the worker will first try it
    pub fn source(&self) -> String {
        self.build(self.form == Form::Bang).src
    }

    pub fn input_bytes(&self) -> usize {
        self.args.iter().map(|a| tv_bytes(&a.v)).sum()
    }

    /// coarse argument-shape class used in known-finding signatures: what the compiler knows
    /// about the first argument — its kind when it is a literal or exactly typed, `anytyped`
    /// when it is an event field typed `any`
    pub fn arg_class(&self) -> String {
        match self.args.first() {
            None => "no_args".to_string(),
            Some(a) if a.pos == Pos::Any => "anytyped_arg".to_string(),
            Some(a) => format!("{}_arg", bit_name(bit_of_tv(&a.v))),
        }
    }
}

pub fn tv_bytes(v: &TV) -> usize {
    match v {
        TV::Null | TV::Bool(_) => 1,
        TV::Int(_) | TV::Float(_) | TV::Ts { .. } => 8,
        TV::Str(s) => s.len(),
        TV::Bin(h) => h.len() / 2,
        TV::Regex(r) => r.len(),
        TV::Array(a) => 2 + a.iter().map(tv_bytes).sum::<usize>(),
        TV::Object(o) => 2 + o.iter().map(|(k, x)| k.len() + tv_bytes(x)).sum::<usize>(),
    }
}

pub fn value_bytes(v: &Value) -> u64 {
    match v {
        Value::Null | Value::Boolean(_) => 1,
        Value::Integer(_) | Value::Float(_) | Value::Timestamp(_) => 8,
        Value::Bytes(b) => b.len() as u64,
        Value::Regex(r) => r.as_str().len() as u64,
        Value::Array(a) => 2 + a.iter().map(value_bytes).sum::<u64>(),
        Value::Object(o) => 2 + o.iter().map(|(k, x)| k.len() as u64 + value_bytes(x)).sum::<u64>(),
    }
}

// ------------------------------------------------------------------------------------------
// function specifications (built once per process, parent side only)

pub struct ParamSpec {
    pub kw: &'static str,
    pub mask: u16,
    pub required: bool,
    pub variants: Vec<&'static str>,
    /// must be a literal (discovered from compile diagnostics, or pinned by hand)
    pub pinned_lit: bool,
    /// must be a path query
    pub query: bool,
    pub skipped: bool,
    /// values seen for this parameter in the function's own examples
    pub pool: Vec<TV>,
}

pub struct FnSpec {
    pub name: &'static str,
    pub params: Vec<ParamSpec>,
    pub closures: Vec<&'static str>,
    pub return_kind: u16,
    /// argument tuples of the function's own examples
    pub seeds: Vec<Vec<(String, TV)>>,
    pub seed_hashes: BTreeSet<u64>,
}

impl FnSpec {
    pub fn param(&self, kw: &str) -> Option<&ParamSpec> {
        self.params.iter().find(|p| p.kw == kw)
    }
    /// the call repeats one of the function's own examples: same values, all passed as literals
    /// (the examples pass literals; the same values through runtime-typed fields take another
    /// path through the function's type definition)
    pub fn is_seed_tuple(&self, c: &CallCase) -> bool {
        c.args.iter().all(|a| a.pos == Pos::Lit && lit(&a.v).is_some())
            && self.seed_hashes.contains(&tuple_hash(c.args.iter().map(|a| (a.kw.as_str(), &a.v))))
    }
    /// does the case carry a value whose kind the parameter does not admit?
    pub fn wrong_kind_args<'a>(&self, c: &'a CallCase) -> Vec<&'a Arg> {
        c.args.iter().filter(|a| self.param(&a.kw).is_some_and(|p| p.mask & bit_of_tv(&a.v) == 0)).collect()
    }
}

fn tuple_hash<'a>(it: impl Iterator<Item = (&'a str, &'a TV)>) -> u64 {
    let mut items: Vec<String> = it.map(|(k, v)| format!("{k}={}", serde_json::to_string(v).unwrap_or_default())).collect();
    items.sort();
    crate::engine::fnv64(items.join("\u{1}").as_bytes())
}

fn closures_for(name: &str) -> Vec<&'static str> {
    match name {
        "for_each" => vec!["-> |_k, _v| { null }", "-> |k, v| { .seen = [k, v] }", "-> |_k, v| { v }"],
        "map_keys" => vec!["-> |k| { upcase(k) }", "-> |k| { k + \"_x\" }", "-> |_k| { \"same\" }", "-> |k| { slice!(k, 0, 1) }"],
        "map_values" => vec!["-> |v| { v }", "-> |_v| { null }", "-> |v| { to_string(v) ?? [v] }", "-> |v| { {\"w\": v} }"],
        "filter" => vec![
            "-> |_k, v| { v != null }",
            "-> |_k, _v| { true }",
            "-> |_k, _v| { false }",
            "-> |k, _v| { is_string(k) }",
            "-> |k, v| { k == v }",
        ],
        "replace_with" => vec![
            "-> |m| { upcase(m.string) }",
            "-> |_m| { \"\" }",
            "-> |m| { m.string + m.string }",
            "-> |m| { to_string(length(m.captures)) }",
        ],
        _ => Vec::new(),
    }
}

pub fn is_io(name: &str) -> bool {
    IO_FUNCTIONS.contains(&name)
}

pub fn specs() -> &'static [FnSpec] {
    static SPECS: OnceLock<Vec<FnSpec>> = OnceLock::new();
    SPECS.get_or_init(build_specs)
}

pub fn spec(name: &str) -> Option<&'static FnSpec> {
    specs().iter().find(|s| s.name == name)
}

/// strings harvested from all examples (cross-feeding one function's inputs to another)
pub fn global_strings() -> &'static [String] {
    static POOL: OnceLock<Vec<String>> = OnceLock::new();
    POOL.get_or_init(|| {
        let mut set: BTreeSet<String> = BTreeSet::new();
        fn walk(v: &TV, set: &mut BTreeSet<String>) {
            match v {
                TV::Str(s) if !s.is_empty() && s.len() <= 1024 => {
                    set.insert(s.clone());
                }
                TV::Array(a) => a.iter().for_each(|x| walk(x, set)),
                TV::Object(o) => o.values().for_each(|x| walk(x, set)),
                _ => {}
            }
        }
        for s in specs() {
            for p in &s.params {
                for v in &p.pool {
                    walk(v, &mut set);
                }
            }
        }
        let mut v: Vec<String> = set.into_iter().collect();
        if v.is_empty() {
            v.push("a".to_string());
        }
        v
    })
}

fn build_specs() -> Vec<FnSpec> {
    let mut out = Vec::new();
    for f in vrlx::fns() {
        let name = f.identifier();
        if is_io(name) {
            continue;
        }
        let mut params: Vec<ParamSpec> = f
            .parameters()
            .iter()
            .map(|p| ParamSpec {
                kw: p.keyword,
                mask: p.kind & ALL_DEFINED,
                required: p.required,
                variants: p.enum_variants.map(|v| v.iter().map(|e| e.value).collect()).unwrap_or_default(),
                pinned_lit: PINNED_BY_HAND.contains(&(name, p.keyword)),
                query: QUERY_PARAMS.contains(&(name, p.keyword)),
                skipped: SKIPPED_PARAMS.contains(&(name, p.keyword)),
                pool: Vec::new(),
            })
            .collect();
        let closures = closures_for(name);
        // --- seeds from the function's own examples
        let mut seeds: Vec<Vec<(String, TV)>> = Vec::new();
        for ex in f.examples() {
            let got = catch_unwind(AssertUnwindSafe(|| example_tuples(name, f.parameters(), ex.source, ex.input))).unwrap_or_default();
            for t in got {
                if !t.is_empty() && !seeds.contains(&t) {
                    seeds.push(t);
                }
            }
        }
        if let Some(def) = f.closure() {
            for inp in &def.inputs {
                let got = catch_unwind(AssertUnwindSafe(|| example_tuples(name, f.parameters(), inp.example.source, inp.example.input)))
                    .unwrap_or_default();
                for t in got {
                    if !t.is_empty() && !seeds.contains(&t) {
                        seeds.push(t);
                    }
                }
            }
        }
        for t in &seeds {
            for (kw, v) in t {
                if let Some(p) = params.iter_mut().find(|p| p.kw == kw) {
                    if !p.pool.contains(v) && p.pool.len() < 24 {
                        p.pool.push(v.clone());
                    }
                }
            }
        }
        // --- which parameters must be literals: discovered from the compiler's answer
        for t in seeds.iter().take(6) {
            let base = CallCase {
                func: name.to_string(),
                args: t
                    .iter()
                    .map(|(kw, v)| Arg {
                        kw: kw.clone(),
                        v: v.clone(),
                        pos: if QUERY_PARAMS.contains(&(name, kw.as_str())) { Pos::Exact } else { Pos::Lit },
                        named: true,
                    })
                    .collect(),
                closure: closures.first().map(|s| (*s).to_string()),
                form: Form::Auto,
            };
            if !compiles(&base) {
                continue;
            }
            for (j, a) in base.args.iter().enumerate() {
                if a.pos != Pos::Lit || lit(&a.v).is_none() {
                    continue;
                }
                let mut variant = base.clone();
                variant.args[j].pos = Pos::Exact;
                if !compiles(&variant) {
                    if let Some(p) = params.iter_mut().find(|p| p.kw == a.kw) {
                        p.pinned_lit = true;
                    }
                }
            }
        }
        for (f2, kw, vals) in MANUAL_POOL {
            if *f2 == name {
                if let Some(p) = params.iter_mut().find(|p| p.kw == *kw) {
                    for v in *vals {
                        let tv = TV::Str((*v).to_string());
                        if !p.pool.contains(&tv) {
                            p.pool.push(tv);
                        }
                    }
                }
            }
        }
        for (f2, kw, src) in DERIVED_POOL {
            if *f2 == name {
                let got = catch_unwind(AssertUnwindSafe(|| vrlx::eval(src, &vrlx::empty_object()).ok().and_then(|o| o.end.value().cloned()))).ok().flatten();
                if let (Some(v), Some(p)) = (got, params.iter_mut().find(|p| p.kw == *kw)) {
                    let tv = TV::from_value(&v);
                    if !p.pool.contains(&tv) {
                        p.pool.push(tv);
                    }
                }
            }
        }
        let seed_hashes = seeds.iter().map(|t| tuple_hash(t.iter().map(|(k, v)| (k.as_str(), v)))).collect();
        out.push(FnSpec { name, params, closures, return_kind: f.return_kind(), seeds, seed_hashes });
    }
    out
}

/// in-process compile (spec building only: arguments come from the function's own examples)
fn compiles(c: &CallCase) -> bool {
    catch_unwind(AssertUnwindSafe(|| {
        let b = c.build(false);
        let meta = Kind::object(Collection::any());
        match vrlx::compile_ext(&b.src, b.event_kind.clone(), meta.clone()) {
            Ok(_) => true,
            Err(d) => {
                if d.iter().any(|x| x.code == 100 || x.code == 103 || x.code == 110) {
                    let b = c.build(true);
                    vrlx::compile_ext(&b.src, b.event_kind, meta).is_ok()
                } else {
                    false
                }
            }
        }
    }))
    .unwrap_or(false)
}

// ----- example extraction

/// root of the vrl checkout: examples name files relative to it (`tests/data/...`)
pub fn repo_root() -> String {
    std::env::var("VCHECK_REPO").unwrap_or_else(|_| "/repo".to_string())
}

/// a string that names an existing file relative to the repository becomes an absolute path
fn absolutise(v: Value) -> Value {
    if let Value::Array(items) = v {
        return Value::Array(items.into_iter().map(absolutise).collect());
    }
    if let Value::Bytes(b) = &v {
        if let Ok(s) = std::str::from_utf8(b) {
            if !s.is_empty() && !s.starts_with('/') && s.len() < 200 && s.contains('/') && !s.contains(' ') {
                let abs = format!("{}/{}", repo_root(), s);
                if std::path::Path::new(&abs).is_file() {
                    return Value::from(abs);
                }
            }
        }
    }
    v
}

struct FoundCall {
    args: Vec<(Option<String>, (usize, usize))>,
    /// start of the root statement that contains the call (filled in by the caller)
    root_start: usize,
}

fn find_calls(e: ast::Expr, name: &str, out: &mut Vec<FoundCall>) {
    match e {
        ast::Expr::Literal(_) | ast::Expr::Variable(_) => {}
        ast::Expr::Container(c) => find_in_container(c.into_inner(), name, out),
        ast::Expr::IfStatement(i) => {
            let i = i.into_inner();
            match i.predicate.into_inner() {
                ast::Predicate::One(x) => find_calls(x.into_inner(), name, out),
                ast::Predicate::Many(xs) => xs.into_iter().for_each(|x| find_calls(x.into_inner(), name, out)),
            }
            i.if_node.into_inner().into_inner().into_iter().for_each(|x| find_calls(x.into_inner(), name, out));
            if let Some(b) = i.else_node {
                b.into_inner().into_inner().into_iter().for_each(|x| find_calls(x.into_inner(), name, out));
            }
        }
        ast::Expr::Op(o) => {
            let ast::Op(l, _, r) = o.into_inner();
            find_calls(l.into_inner(), name, out);
            find_calls(r.into_inner(), name, out);
        }
        ast::Expr::Assignment(a) => match a.into_inner() {
            ast::Assignment::Single { expr, .. } | ast::Assignment::Infallible { expr, .. } => find_calls(expr.into_inner(), name, out),
        },
        ast::Expr::Query(q) => match q.into_inner().target.into_inner() {
            ast::QueryTarget::FunctionCall(fc) => find_in_call(fc, name, out),
            ast::QueryTarget::Container(c) => find_in_container(c, name, out),
            _ => {}
        },
        ast::Expr::FunctionCall(fc) => find_in_call(fc.into_inner(), name, out),
        ast::Expr::Unary(u) => match u.into_inner() {
            ast::Unary::Not(n) => {
                let (_, x) = n.into_inner().take();
                find_calls(x.into_inner(), name, out);
            }
        },
        ast::Expr::Abort(a) => {
            if let Some(m) = a.into_inner().message {
                find_calls(m.into_inner(), name, out);
            }
        }
        ast::Expr::Return(r) => find_calls(r.into_inner().expr.into_inner(), name, out),
    }
}

fn find_in_container(c: ast::Container, name: &str, out: &mut Vec<FoundCall>) {
    match c {
        ast::Container::Group(g) => find_calls(g.into_inner().into_inner().into_inner(), name, out),
        ast::Container::Block(b) => b.into_inner().into_inner().into_iter().for_each(|x| find_calls(x.into_inner(), name, out)),
        ast::Container::Array(a) => a.into_inner().into_iter().for_each(|x| find_calls(x.into_inner(), name, out)),
        ast::Container::Object(o) => o.into_inner().into_iter().for_each(|(_, x)| find_calls(x.into_inner(), name, out)),
    }
}

fn find_in_call(fc: ast::FunctionCall, name: &str, out: &mut Vec<FoundCall>) {
    if fc.ident.inner().to_string() == name {
        let args = fc
            .arguments
            .iter()
            .map(|a| (a.inner().ident.as_ref().map(|i| i.inner().to_string()), (a.inner().expr.start(), a.inner().expr.end())))
            .collect();
        out.push(FoundCall { args, root_start: 0 });
    }
    for a in fc.arguments {
        find_calls(a.into_inner().expr.into_inner(), name, out);
    }
    if let Some(c) = fc.closure {
        c.into_inner().block.into_inner().into_inner().into_iter().for_each(|x| find_calls(x.into_inner(), name, out));
    }
}

fn mentions_io(src: &str) -> bool {
    // comments do not count (`iv = "..." # typically you would call random_bytes(16)`)
    let code: String = src
        .lines()
        .map(|l| match l.find(" #") {
            Some(i) => &l[..i],
            None if l.trim_start().starts_with('#') => "",
            None => l,
        })
        .collect::<Vec<_>>()
        .join("\n");
    IO_FUNCTIONS.iter().any(|f| code.contains(&format!("{f}(")) || code.contains(&format!("{f}!(")))
}

/// argument tuples of the calls to `name` in one example: each argument's source text is
/// evaluated on its own against the example's input event
fn example_tuples(name: &str, params: &[vrl::compiler::Parameter], source: &str, input: Option<&str>) -> Vec<Vec<(String, TV)>> {
    let Ok(program) = vrl::parser::parse(source) else { return Vec::new() };
    let mut calls = Vec::new();
    for root in program.0 {
        let start = root.start();
        if let ast::RootExpr::Expr(e) = root.into_inner() {
            let before = calls.len();
            find_calls(e.into_inner(), name, &mut calls);
            for c in calls[before..].iter_mut() {
                c.root_start = start;
            }
        }
    }
    let event: Value = input
        .and_then(|s| serde_json::from_str::<serde_json::Value>(s).ok())
        .map(Value::from)
        .filter(|v| matches!(v, Value::Object(_)))
        .unwrap_or_else(vrlx::empty_object);
    let mut tuples = Vec::new();
    for call in calls {
        // the compiler's rule: named arguments first, positional ones fill the gaps in order
        let mut slots: Vec<Option<(usize, usize)>> = vec![None; params.len()];
        let mut unnamed = Vec::new();
        let mut ok = true;
        for (kw, span) in &call.args {
            match kw {
                Some(k) => match params.iter().position(|p| p.keyword == k) {
                    Some(i) => slots[i] = Some(*span),
                    None => ok = false,
                },
                None => unnamed.push(*span),
            }
        }
        let mut pos = 0;
        for span in unnamed {
            while pos < slots.len() && slots[pos].is_some() {
                pos += 1;
            }
            if pos >= slots.len() {
                ok = false;
                break;
            }
            slots[pos] = Some(span);
        }
        if !ok {
            continue;
        }
        let mut tuple = Vec::new();
        // first choice: evaluate all argument expressions together, after the statements that
        // precede the call's statement (so variables and event fields of the example exist)
        let present: Vec<(usize, &str)> =
            slots.iter().enumerate().filter_map(|(i, s)| s.and_then(|(a, b)| source.get(a..b)).map(|t| (i, t))).collect();
        let mut in_context: Option<Vec<Value>> = None;
        if !present.is_empty() && !present.iter().any(|(_, t)| mentions_io(t)) {
            if let Some(prefix) = source.get(..call.root_start) {
                if !mentions_io(prefix) {
                    let texts: Vec<&str> = present.iter().map(|(_, t)| *t).collect();
                    let probe = format!("{prefix}\n[{}]", texts.join(", "));
                    if let Ok(res) = vrlx::compile(&probe) {
                        let out = vrlx::run(&res.program, event.clone(), vrlx::empty_object());
                        if let Some(Value::Array(items)) = out.end.value() {
                            if items.len() == present.len() {
                                in_context = Some(items.clone());
                            }
                        }
                    }
                }
            }
        }
        for (n, (i, text)) in present.iter().enumerate() {
            let v: Value = match &in_context {
                Some(items) => items[n].clone(),
                None => {
                    if mentions_io(text) {
                        continue;
                    }
                    let is_path = text.trim_start().starts_with('.') || text.trim_start().starts_with('%');
                    let Ok(res) = vrlx::compile(text) else { continue };
                    let out = vrlx::run(&res.program, event.clone(), vrlx::empty_object());
                    let Some(v) = out.end.value() else { continue };
                    if is_path && matches!(v, Value::Null) {
                        // a path into state built by earlier statements: not available
                        continue;
                    }
                    v.clone()
                }
            };
            let v = absolutise(v);
            if matches!(v, Value::Float(_)) || value_bytes(&v) <= MAX_STRING_BYTES as u64 {
                tuple.push((params[*i].keyword.to_string(), TV::from_value(&v)));
            }
        }
        tuples.push(tuple);
    }
    tuples
}

// ------------------------------------------------------------------------------------------
// value generators per kind bit

#[derive(Clone, Copy, Debug, PartialEq, Eq)]
pub enum Profile {
    /// C03: broad kinds, moderate edges
    Signature,
    /// C04: edge-value profile
    Edge,
    /// C05: size-bounded profile, integers biased to extremes, long strings
    Termination,
}

pub const EDGE_STRINGS: &[&str] = &[
    "", " ", "\n", "\t", "0", "-0", "1", "-1", "00", "+1", "1.0", "1.", ".5", "1e10", "1e400", "-1e400", "1e-400", "NaN", "nan", "inf", "-inf",
    "Infinity", "true", "false", "null", "yes", "9223372036854775807", "9223372036854775808", "-9223372036854775808",
    "-9223372036854775809", "18446744073709551616", "340282366920938463463374607431768211456", "0x10", "0b1", "0o7", "1_000", "١٢٣", "１２",
    "127.0.0.1", "::1", "::ffff:1.2.3.4", "255.255.255.255", "256.0.0.1", "192.168.0.0/16", "::/0", "0.0.0.0/0", "1.2.3.4/33", "::1/129",
    "/", "//", "/a/b/", ".", "..", "a.b.c", "a..b", ".a", "a[0]", "%", "%ZZ", "%25", "%E4", "%E4%B8", "{}", "[]", "{\"a\":1}", "[[[[[[[[",
    "{\"a\":{\"a\":{\"a\":{\"a\":{\"a\":1}}}}}", "{{", "}}", "\"", "'", "\\", "\\\\", "=?utf-8?Q?a?=", "=?x?B??=", "=?utf-8?Q?=?=", "xn--",
    "xn--a", "xn--ls8h", "1s", "1.5h", "-1s", "1 s", "9999999999999999999d", "1 GiB", "1e100 EB", "-5 kB", "2021-02-03T04:05:06Z",
    "2021-02-30T00:00:00Z", "10/Oct/2000:13:55:36 -0700", "%Y-%m-%d", "%+", "%s", "%Q", "%:::z", "%-", "%3f", "%.3f", "%99999999999Y", "%c%c%c",
    "UTC", "Europe/Paris", "local", "+25:00", "<a/>", "<a b='c'>d</a>", "<?xml", "<a><a><a><a><a>", "<!DOCTYPE x [<!ENTITY e \"ee\">]><a>&e;</a>",
    "a=b c=d", "k=\"v", "a=", "=b", "\u{1b}[0m", "\u{1b}[", "http://a", "http://[::1]:80/p?q#f", "https://u:p@h:99999/", "a@b", "?a=b&c",
    "a,b,c", "\"a\",\"b", ",", "a\0b", "\u{feff}", "🏳️‍🌈", "é", "ß", "İ", "aaaaaaaaaaaaaaaaaaaaaaaaaaaaaaaaaaaaaaaaaaaaaaaaaaaaaaaaaaaaaaaa",
    "%{", "%{NUMBER:n}", "%{NUMBER:n:int}", "%{DATA:a.b}", "%{x", "(?<n>a)", "(", "[", "*", "a{99999}", "(?i)", "\\p{Greek}", "<13>", "<999>1 ",
    "CEF:0|", "CEF:0|a|b|c|d|e|f|k=v", "I0101 00:00:00.000000 1 a.go:1] m", "application/json", "SHA-256", "AES-256-CFB", "standard",
];

const LONG_UNITS: &[&str] = &["a", "ab ", "é", "\n", "%", "{", "[", "<a>", "\\", "0", "\"", "=", ",", " ", "9", "a=b ", "(", "%{", "\u{1b}[", "/", ".", "日", "😀", "\0", "a.", "[0]", "%25", "=?", "-"];

pub const EXTRA_REGEXES: &[&str] = &[".*", "(a)(b)?", "(?P<x>\\d+)-(?P<y>\\w*)", "\\b", "^$", "(?m)^.", "[^a]", "a|", "(?:)", "\\pL+", "(.)(.)(.)", "x*"];

fn str_tv(s: String) -> TV {
    TV::Str(s)
}

fn long_string() -> impl Strategy<Value = TV> {
    (0..LONG_UNITS.len(), prop_oneof![3 => 200usize..=700, 2 => 1000usize..=2048, 1 => Just(2048usize), 1 => 255usize..=257])
        .prop_map(|(u, n)| {
            let unit = LONG_UNITS[u];
            let reps = (n / unit.len()).max(1);
            TV::Str(unit.repeat(reps))
        })
}

fn numeric_string() -> impl Strategy<Value = TV> {
    prop_oneof![
        3 => gv::int().prop_map(|i| TV::Str(i.to_string())),
        2 => gv::float().prop_map(|x| TV::Str(format!("{x}"))),
        1 => gv::float().prop_map(|x| TV::Str(format!("{x:e}"))),
        1 => (gv::int(), "[a-zA-Z%]{1,3}").prop_map(|(i, u)| TV::Str(format!("{i}{u}"))),
        1 => (gv::small_int(), gv::small_int()).prop_map(|(a, b)| TV::Str(format!("{a}.{b}"))),
        1 => (any::<u8>(), any::<u8>(), any::<u8>(), any::<u8>(), 0u8..40).prop_map(|(a, b, c, d, p)| TV::Str(format!("{a}.{b}.{c}.{d}/{p}"))),
        1 => (any::<u8>(), any::<u8>(), any::<u8>(), any::<u8>()).prop_map(|(a, b, c, d)| TV::Str(format!("{a}.{b}.{c}.{d}"))),
        1 => (any::<u16>(), any::<u16>()).prop_map(|(a, b)| TV::Str(format!("{a:x}::{b:x}"))),
    ]
}

pub fn bytes_value(prof: Profile) -> BoxedStrategy<TV> {
    if matches!(prof, Profile::Termination) {
        return prop_oneof![45 => bytes_value_base(prof), 2 => deep_nested_text(), 1 => deep_nested_xml()].boxed();
    }
    bytes_value_base(prof)
}

fn bytes_value_base(prof: Profile) -> BoxedStrategy<TV> {
    let long_w = match prof {
        Profile::Signature => 4,
        Profile::Edge => 8,
        Profile::Termination => 18,
    };
    prop_oneof![
        30 => gv::ustring(16).prop_map(str_tv),
        14 => (any::<u16>(), mutations(0, 2)).prop_map(|(i, m)| {
            let g = global_strings();
            apply_mutations(gv::pick(g, i).as_bytes(), &m)
        }),
        16 => (0..EDGE_STRINGS.len()).prop_map(|i| TV::Str(EDGE_STRINGS[i].to_string())),
        10 => gv::raw_bytes(16).prop_map(|b| TV::bytes(&b)),
        long_w => long_string(),
        10 => numeric_string(),
        4 => gv::raw_bytes(600).prop_map(|b| TV::bytes(&b)),
    ]
    .boxed()
}

pub fn int_value(prof: Profile) -> BoxedStrategy<TV> {
    let extremes = prop_oneof![
        3 => Just(i64::MIN),
        3 => Just(i64::MAX),
        2 => Just(0i64),
        2 => Just(1i64),
        2 => Just(-1i64),
        3 => (0u32..=18).prop_map(|e| 10i64.pow(e)),
        2 => (0u32..=18).prop_map(|e| -(10i64.pow(e))),
        2 => -100_000i64..0,
        1 => Just(i64::MIN + 1),
        1 => Just(i64::from(i32::MAX) + 1),
        1 => Just(i64::from(u32::MAX) + 1),
    ];
    match prof {
        Profile::Termination => prop_oneof![5 => extremes, 3 => gv::int(), 2 => -40i64..=40].prop_map(TV::Int).boxed(),
        Profile::Edge => prop_oneof![3 => extremes, 5 => gv::int(), 2 => -40i64..=40].prop_map(TV::Int).boxed(),
        Profile::Signature => prop_oneof![1 => extremes, 5 => gv::int(), 4 => -40i64..=40].prop_map(TV::Int).boxed(),
    }
}

fn flat_object() -> impl Strategy<Value = TV> {
    proptest::collection::btree_map(gv::field(), prop_oneof![3 => gv::ustring(10).prop_map(str_tv), 1 => gv::scalar(gv::FULL)], 0..=5).prop_map(TV::Object)
}

fn homogeneous_array(prof: Profile) -> BoxedStrategy<TV> {
    prop_oneof![
        3 => proptest::collection::vec(gv::ustring(8).prop_map(str_tv), 0..=5),
        1 => proptest::collection::vec(bytes_value(prof), 0..=4),
        2 => proptest::collection::vec(int_value(prof), 0..=5),
        1 => proptest::collection::vec(gv::float().prop_map(TV::float), 0..=4),
        1 => proptest::collection::vec(gv::regex_src().prop_map(TV::Regex), 0..=3),
        2 => proptest::collection::vec(proptest::collection::vec(gv::scalar(gv::FULL), 0..=3).prop_map(TV::Array), 0..=4),
        1 => proptest::collection::vec(flat_object(), 0..=3),
        1 => proptest::collection::vec(prop_oneof![gv::field().prop_map(str_tv), (-5i64..=5).prop_map(TV::Int)], 0..=4),
    ]
    .prop_map(TV::Array)
    .boxed()
}

fn homogeneous_or_mixed_array(prof: Profile) -> BoxedStrategy<TV> {
    prop_oneof![3 => proptest::collection::vec(gv::value(gv::FULL, 3), 0..=5).prop_map(TV::Array), 3 => homogeneous_array(prof)].boxed()
}

fn regex_value() -> impl Strategy<Value = TV> {
    prop_oneof![
        2 => gv::regex_src().prop_map(TV::Regex),
        2 => (0..EXTRA_REGEXES.len()).prop_map(|i| TV::Regex(EXTRA_REGEXES[i].to_string())),
    ]
}

/// a small value nested 12..=72 levels deep (each level a one- or two-member array or object):
/// a few hundred bytes at most, but any per-level repetition of work multiplies up
pub fn deep_nested(outer_array: bool) -> BoxedStrategy<TV> {
    (12usize..=72, any::<u64>(), any::<u64>(), prop_oneof![2 => gv::scalar(gv::FULL), 1 => Just(TV::Array(vec![])), 1 => Just(TV::Object(Default::default()))], gv::field())
        .prop_map(move |(depth, shape, extra, leaf, key)| {
            let mut v = leaf;
            for level in (0..depth).rev() {
                let as_array = if level == 0 { outer_array } else { (shape >> (level % 64)) & 1 == 0 };
                let sibling = (extra >> (level % 64)) & 7 == 0;
                v = if as_array {
                    if sibling {
                        TV::Array(vec![TV::Null, v])
                    } else {
                        TV::Array(vec![v])
                    }
                } else {
                    let mut m = std::collections::BTreeMap::new();
                    if sibling {
                        m.insert("z".to_string(), TV::Str(String::new()));
                    }
                    m.insert(key.clone(), v);
                    TV::Object(m)
                };
            }
            v
        })
        .boxed()
}

/// text of a deeply nested XML document: a chain of single-child elements (every sixth level
/// with an attribute or a sibling), 7+ bytes per level
pub fn deep_nested_xml() -> BoxedStrategy<TV> {
    (6usize..=90, any::<u64>(), prop_oneof![Just("x"), Just(""), Just("1")])
        .prop_map(|(depth, shape, leaf)| {
            let mut open = String::new();
            let mut close = String::new();
            for level in 0..depth {
                match (shape >> (level % 64)) & 7 {
                    0 => {
                        open.push_str("<a k=\"v\">");
                        close.insert_str(0, "</a>");
                    }
                    1 => {
                        open.push_str("<a><b/>");
                        close.insert_str(0, "</a>");
                    }
                    _ => {
                        open.push_str("<a>");
                        close.insert_str(0, "</a>");
                    }
                }
            }
            TV::Str(format!("{open}{leaf}{close}"))
        })
        .boxed()
}

/// text of a deeply nested JSON-like document (for the recursive-descent parsers)
pub fn deep_nested_text() -> BoxedStrategy<TV> {
    (8usize..=140, any::<u64>(), prop_oneof![Just("1"), Just("\"a\""), Just("null"), Just("")], 0usize..3)
        .prop_map(|(depth, shape, leaf, unclosed)| {
            let mut open = String::new();
            let mut close = String::new();
            for level in 0..depth {
                if (shape >> (level % 64)) & 1 == 0 {
                    open.push('[');
                    close.insert(0, ']');
                } else {
                    open.push_str("{\"k\":");
                    close.insert(0, '}');
                }
            }
            let keep = close.len().saturating_sub(unclosed);
            TV::Str(format!("{open}{leaf}{}", &close[..keep]))
        })
        .boxed()
}

/// a value of exactly the kind named by one bit
pub fn value_of_bit(bit: u16, prof: Profile) -> BoxedStrategy<TV> {
    if matches!(prof, Profile::Termination) {
        match bit {
            OBJECT => return prop_oneof![8 => value_of_bit(bit, Profile::Edge), 1 => deep_nested(false)].boxed(),
            ARRAY => return prop_oneof![8 => homogeneous_or_mixed_array(prof), 1 => deep_nested(true)].boxed(),
            _ => {}
        }
    }
    match bit {
        BYTES => bytes_value(prof),
        INTEGER => int_value(prof),
        FLOAT => gv::float().prop_map(TV::float).boxed(),
        BOOLEAN => any::<bool>().prop_map(TV::Bool).boxed(),
        OBJECT => prop_oneof![3 => gv::object(gv::FULL, 3), 2 => flat_object()].boxed(),
        ARRAY => homogeneous_or_mixed_array(prof),
        TIMESTAMP => gv::timestamp().prop_map(|(s, n)| TV::Ts { s, n }).boxed(),
        REGEX => regex_value().boxed(),
        _ => Just(TV::Null).boxed(),
    }
}

fn bits_in(mask: u16) -> Vec<u16> {
    BITS.iter().copied().filter(|b| mask & b != 0).collect()
}

// ------------------------------------------------------------------------------------------
// mutation of example-derived values

#[derive(Clone, Debug)]
pub enum Mut {
    Trunc(u16),
    Del(u16, u8),
    Ins(u16, char),
    InsEdge(u16, u16),
    Dup(u16, u8, u8),
    Flip(u16, u8),
    SwapCase(u16),
    /// replace the n-th run of ASCII digits by an edge integer
    Digits(u8, i64),
    Grow(u8),
    /// replace one ASCII letter by another (keeps the shape of structured text)
    Letter(u16, u8),
    /// replace the n-th run of ASCII digits by a small number
    SmallDigits(u8, u16),
}

fn mutation() -> impl Strategy<Value = Mut> {
    prop_oneof![
        2 => any::<u16>().prop_map(Mut::Trunc),
        2 => (any::<u16>(), 1u8..8).prop_map(|(p, n)| Mut::Del(p, n)),
        3 => (any::<u16>(), gv::special_char()).prop_map(|(p, c)| Mut::Ins(p, c)),
        2 => (any::<u16>(), any::<u16>()).prop_map(|(p, e)| Mut::InsEdge(p, e)),
        2 => (any::<u16>(), 1u8..12, 1u8..6).prop_map(|(p, n, t)| Mut::Dup(p, n, t)),
        1 => (any::<u16>(), any::<u8>()).prop_map(|(p, x)| Mut::Flip(p, x)),
        1 => any::<u16>().prop_map(Mut::SwapCase),
        3 => (0u8..6, gv::int()).prop_map(|(n, i)| Mut::Digits(n, i)),
        1 => (1u8..6).prop_map(Mut::Grow),
        4 => (any::<u16>(), 0u8..26).prop_map(|(p, l)| Mut::Letter(p, l)),
        4 => (0u8..8, prop_oneof![3 => 0u16..100, 1 => 0u16..=u16::MAX]).prop_map(|(n, v)| Mut::SmallDigits(n, v)),
    ]
}

pub fn mutations(min: usize, max: usize) -> impl Strategy<Value = Vec<Mut>> {
    proptest::collection::vec(mutation(), min..=max)
}

fn idx(p: u16, len: usize) -> usize {
    // monotone map of a generated u16 onto 0..=len
    (p as usize * (len + 1)) >> 16
}

pub fn apply_mutations(src: &[u8], muts: &[Mut]) -> TV {
    let mut b: Vec<u8> = src.to_vec();
    for m in muts {
        match m {
            Mut::Trunc(p) => {
                let i = idx(*p, b.len());
                b.truncate(i);
            }
            Mut::Del(p, n) => {
                let i = idx(*p, b.len());
                let e = (i + *n as usize).min(b.len());
                b.drain(i..e);
            }
            Mut::Ins(p, c) => {
                let i = idx(*p, b.len());
                let mut buf = [0u8; 4];
                let s = c.encode_utf8(&mut buf).as_bytes().to_vec();
                b.splice(i..i, s);
            }
            Mut::InsEdge(p, e) => {
                let i = idx(*p, b.len());
                let s = gv::pick(EDGE_STRINGS, *e).as_bytes().to_vec();
                b.splice(i..i, s);
            }
            Mut::Dup(p, n, t) => {
                let i = idx(*p, b.len());
                let e = (i + *n as usize).min(b.len());
                let piece: Vec<u8> = b[i..e].to_vec();
                let mut ins = Vec::new();
                for _ in 0..*t {
                    ins.extend_from_slice(&piece);
                }
                b.splice(e..e, ins);
            }
            Mut::Flip(p, x) => {
                if !b.is_empty() {
                    let i = idx(*p, b.len() - 1);
                    b[i] ^= *x | 1;
                }
            }
            Mut::SwapCase(p) => {
                if !b.is_empty() {
                    let i = idx(*p, b.len() - 1);
                    if b[i].is_ascii_lowercase() {
                        b[i] = b[i].to_ascii_uppercase();
                    } else if b[i].is_ascii_uppercase() {
                        b[i] = b[i].to_ascii_lowercase();
                    }
                }
            }
            Mut::Digits(n, v) => {
                // locate the runs of ASCII digits
                let mut runs = Vec::new();
                let mut i = 0;
                while i < b.len() {
                    if b[i].is_ascii_digit() {
                        let s = i;
                        while i < b.len() && b[i].is_ascii_digit() {
                            i += 1;
                        }
                        runs.push((s, i));
                    } else {
                        i += 1;
                    }
                }
                if !runs.is_empty() {
                    let (s, e) = runs[*n as usize % runs.len()];
                    b.splice(s..e, v.to_string().into_bytes());
                }
            }
            Mut::Letter(p, l) => {
                let letters: Vec<usize> = b.iter().enumerate().filter(|(_, c)| c.is_ascii_alphabetic()).map(|(i, _)| i).collect();
                if !letters.is_empty() {
                    let i = letters[idx(*p, letters.len() - 1)];
                    let base = if b[i].is_ascii_uppercase() { b'A' } else { b'a' };
                    b[i] = base + *l;
                }
            }
            Mut::SmallDigits(n, v) => {
                let mut runs = Vec::new();
                let mut i = 0;
                while i < b.len() {
                    if b[i].is_ascii_digit() {
                        let s = i;
                        while i < b.len() && b[i].is_ascii_digit() {
                            i += 1;
                        }
                        runs.push((s, i));
                    } else {
                        i += 1;
                    }
                }
                if !runs.is_empty() {
                    let (s, e) = runs[*n as usize % runs.len()];
                    b.splice(s..e, v.to_string().into_bytes());
                }
            }
            Mut::Grow(t) => {
                let piece = b.clone();
                for _ in 0..*t {
                    if b.len() + piece.len() > MAX_STRING_BYTES {
                        break;
                    }
                    b.extend_from_slice(&piece);
                }
            }
        }
        if b.len() > MAX_STRING_BYTES {
            b.truncate(MAX_STRING_BYTES);
        }
    }
    TV::bytes(&b)
}

fn count_leaves(v: &TV) -> usize {
    match v {
        TV::Array(a) => a.iter().map(count_leaves).sum::<usize>(),
        TV::Object(o) => o.values().map(count_leaves).sum::<usize>(),
        _ => 1,
    }
}

/// replace the n-th scalar leaf (DFS order) through `f`
fn map_leaf(v: &mut TV, n: &mut usize, f: &mut dyn FnMut(&TV) -> TV) -> bool {
    match v {
        TV::Array(a) => {
            for x in a.iter_mut() {
                if map_leaf(x, n, f) {
                    return true;
                }
            }
            false
        }
        TV::Object(o) => {
            for x in o.values_mut() {
                if map_leaf(x, n, f) {
                    return true;
                }
            }
            false
        }
        leaf => {
            if *n == 0 {
                *leaf = f(leaf);
                true
            } else {
                *n -= 1;
                false
            }
        }
    }
}

/// mutate a pool value: strings through byte mutations, containers through one leaf, other
/// scalars are replaced by a fresh value of the same kind
fn mutated_pool_value(base: TV, prof: Profile) -> BoxedStrategy<TV> {
    match &base {
        TV::Str(_) | TV::Bin(_) => {
            let bytes = base.as_bytes().unwrap_or_default();
            prop_oneof![
                2 => Just(base.clone()),
                5 => mutations(1, 3).prop_map(move |m| apply_mutations(&bytes, &m)),
            ]
            .boxed()
        }
        TV::Array(_) | TV::Object(_) => {
            let leaves = count_leaves(&base);
            if leaves == 0 {
                return Just(base).boxed();
            }
            let b2 = base.clone();
            prop_oneof![
                2 => Just(base.clone()),
                3 => (0..leaves, mutations(1, 2), gv::scalar(gv::FULL), any::<bool>()).prop_map(move |(i, m, fresh, use_fresh)| {
                    let mut v = b2.clone();
                    let mut n = i;
                    map_leaf(&mut v, &mut n, &mut |leaf| match leaf {
                        TV::Str(s) if !use_fresh => apply_mutations(s.as_bytes(), &m),
                        _ => fresh.clone(),
                    });
                    v
                }),
            ]
            .boxed()
        }
        TV::Regex(_) => Just(base).boxed(),
        other => {
            let bit = bit_of_tv(other);
            prop_oneof![1 => Just(base.clone()), 2 => value_of_bit(bit, prof)].boxed()
        }
    }
}

// ------------------------------------------------------------------------------------------
// argument and call strategies

fn variant_value(p: &'static ParamSpec) -> BoxedStrategy<TV> {
    let vs: &'static [&'static str] = &p.variants;
    if p.mask & BYTES != 0 {
        prop_oneof![
            18 => (0..vs.len()).prop_map(move |i| TV::Str(vs[i].to_string())),
            1 => (0..vs.len(), mutations(1, 1)).prop_map(move |(i, m)| apply_mutations(vs[i].as_bytes(), &m)),
            1 => (0..vs.len()).prop_map(move |i| TV::Str(vs[i].to_lowercase())),
        ]
        .boxed()
    } else {
        // array of variants (snakecase's excluded_boundaries)
        proptest::collection::vec(
            prop_oneof![
                12 => (0..vs.len()).prop_map(move |i| TV::Str(vs[i].to_string())),
                1 => gv::ustring(6).prop_map(str_tv),
            ],
            0..=3,
        )
        .prop_map(TV::Array)
        .boxed()
    }
}

fn arg_value(p: &'static ParamSpec, prof: Profile) -> BoxedStrategy<(TV, bool)> {
    // (value, deliberately wrong kind?)
    let admitted = bits_in(p.mask);
    let wrong: Vec<u16> = BITS.iter().copied().filter(|b| p.mask & b == 0).collect();
    let mut opts: Vec<(u32, BoxedStrategy<(TV, bool)>)> = Vec::new();
    if !p.variants.is_empty() {
        opts.push((60, variant_value(p).prop_map(|v| (v, false)).boxed()));
    }
    if !p.pool.is_empty() && p.pinned_lit && p.variants.is_empty() {
        // a pinned literal is usually needed intact for the call to compile at all
        let pool: &'static [TV] = &p.pool;
        opts.push((300, (0..pool.len()).prop_map(move |i| (pool[i].clone(), false)).boxed()));
    }
    if !p.pool.is_empty() {
        let pool: &'static [TV] = &p.pool;
        opts.push((
            if p.variants.is_empty() { 45 } else { 10 },
            (0..pool.len()).prop_flat_map(move |i| mutated_pool_value(pool[i].clone(), prof)).prop_map(|v| (v, false)).boxed(),
        ));
    }
    if !admitted.is_empty() {
        let a = admitted.clone();
        opts.push((
            if p.variants.is_empty() { 40 } else { 5 },
            (0..a.len()).prop_flat_map(move |i| value_of_bit(a[i], prof)).prop_map(|v| (v, false)).boxed(),
        ));
    }
    if !wrong.is_empty() {
        let w = wrong.clone();
        opts.push((15, (0..w.len()).prop_flat_map(move |i| value_of_bit(w[i], prof)).prop_map(|v| (v, true)).boxed()));
    }
    if opts.is_empty() {
        return Just((TV::Null, false)).boxed();
    }
    // a mutated pool value may have left the admitted kinds (never for strings): recompute
    let mask = p.mask;
    proptest::strategy::Union::new_weighted(opts).prop_map(move |(v, _)| {
        let wrong = mask & bit_of_tv(&v) == 0;
        (v, wrong)
    })
    .boxed()
}

fn arg_strategy(p: &'static ParamSpec, prof: Profile) -> BoxedStrategy<Option<Arg>> {
    if p.skipped {
        return Just(None).boxed();
    }
    let pinned = p.pinned_lit;
    let query = p.query;
    let required = p.required;
    // union masks: mostly one or two extra kinds (the interesting static types are small unions)
    let union_mask = prop_oneof![
        3 => (0usize..BITS.len()).prop_map(|i| BITS[i]),
        3 => (0usize..BITS.len(), 0usize..BITS.len()).prop_map(|(i, j)| BITS[i] | BITS[j]),
        1 => any::<u16>().prop_map(|m| m & 0x3fe),
    ];
    (arg_value(p, prof), 0u8..100, 0u8..100, any::<bool>(), union_mask)
        .prop_map(move |((v, wrong), pr, nm, present, umask)| {
            if !required && !present {
                return None;
            }
            let pos = if query {
                if pr < 50 {
                    Pos::Exact
                } else {
                    Pos::Any
                }
            } else if pinned {
                Pos::Lit
            } else if wrong {
                // a wrong kind is only accepted by the compiler in an `any` position
                if pr < 75 {
                    Pos::Any
                } else if pr < 88 {
                    Pos::Exact
                } else {
                    Pos::Lit
                }
            } else if pr < 32 {
                Pos::Lit
            } else if pr < 56 {
                Pos::Exact
            } else if pr < 72 {
                Pos::Union(umask)
            } else {
                Pos::Any
            };
            Some(Arg { kw: p.kw.to_string(), v, pos, named: nm < 30 })
        })
        .boxed()
}

fn clamp_path_indices(v: &mut TV) {
    if let TV::Array(a) = v {
        for x in a.iter_mut() {
            if let TV::Int(i) = x {
                *i = (*i).clamp(-PATH_INDEX_BOUND, PATH_INDEX_BOUND);
            }
        }
    }
}

fn shrink_strings(v: &mut TV, factor: usize) {
    match v {
        TV::Str(s) => {
            let mut n = s.len() / factor;
            while !s.is_char_boundary(n) {
                n -= 1;
            }
            s.truncate(n);
        }
        TV::Bin(h) => {
            let n = (h.len() / 2 / factor) * 2;
            h.truncate(n);
            if std::str::from_utf8(&hex::decode(&*h).unwrap_or_default()).is_ok() {
                *v = TV::bytes(&hex::decode(&*h).unwrap_or_default());
            }
        }
        TV::Array(a) => a.iter_mut().for_each(|x| shrink_strings(x, factor)),
        TV::Object(o) => o.values_mut().for_each(|x| shrink_strings(x, factor)),
        _ => {}
    }
}

/// generator fix-ups that keep a case inside the documented domain (all deterministic)
pub fn normalise(mut c: CallCase) -> CallCase {
    // positional arguments fill the parameter list in order: after a gap everything is named
    if let Some(f) = vrlx::fns().iter().find(|f| f.identifier() == c.func) {
        let mut gap = false;
        let mut it = c.args.iter_mut().peekable();
        for p in f.parameters() {
            match it.peek() {
                Some(a) if a.kw == p.keyword => {
                    let a = it.next().expect("peeked");
                    if gap {
                        a.named = true;
                    }
                    if a.named {
                        // a named argument followed by positional ones is legal (they fill the
                        // gaps), but keeps the mapping simple to read: name the rest as well
                        gap = true;
                    }
                }
                _ => gap = true,
            }
        }
    }
    for a in c.args.iter_mut() {
        for (f, kw, lo, hi) in INT_BOUNDS {
            if *f == c.func && *kw == a.kw {
                if let TV::Int(i) = &mut a.v {
                    *i = (*i).clamp(*lo, *hi);
                }
            }
        }
        if PATH_ARRAY_PARAMS.contains(&(c.func.as_str(), a.kw.as_str())) {
            clamp_path_indices(&mut a.v);
        }
    }
    if c.func == "decode_lz4" {
        for a in c.args.iter_mut() {
            if a.kw == "buf_size" {
                if let TV::Int(i) = &mut a.v {
                    if *i > LZ4_MAX_BUF && *i <= i64::from(u32::MAX) {
                        *i = LZ4_MAX_BUF;
                    }
                }
            }
        }
    }
    if c.func == "encode_zstd" {
        for a in c.args.iter_mut() {
            if a.kw == "compression_level" {
                if let TV::Int(i) = &mut a.v {
                    if (*i as i32) > ZSTD_MAX_LEVEL {
                        // spread over 0..=19 instead of piling everything on the slowest level
                        *i = i.rem_euclid(i64::from(ZSTD_MAX_LEVEL) + 1);
                    }
                }
            }
        }
    }
    let mut guard = 0;
    while c.input_bytes() > MAX_TOTAL_BYTES && guard < 12 {
        // halve the largest argument's strings
        if let Some(a) = c.args.iter_mut().max_by_key(|a| tv_bytes(&a.v)) {
            shrink_strings(&mut a.v, 2);
        }
        guard += 1;
    }
    c
}

/// a whole argument tuple of one of the function's examples, with each argument kept (70 %) or
/// regenerated for its parameter, and absent optional parameters occasionally added: keeps the
/// arguments coherent with each other (cipher/key/iv, format/line, cidr/address ...)
fn seeded_args(f: &'static FnSpec, seed: usize, prof: Profile) -> BoxedStrategy<Vec<Option<Arg>>> {
    let tuple = &f.seeds[seed];
    let parts: Vec<BoxedStrategy<Option<Arg>>> = f
        .params
        .iter()
        .map(|p| match tuple.iter().find(|(kw, _)| kw == p.kw) {
            Some((_, v)) if !p.skipped => {
                let v = v.clone();
                let pinned = p.pinned_lit;
                let query = p.query;
                (arg_strategy(p, prof), 0u8..100, 0u8..100)
                    .prop_map(move |(fresh, keep, pr)| {
                        if keep < 70 || fresh.is_none() {
                            let pos = if query {
                                if pr < 50 {
                                    Pos::Exact
                                } else {
                                    Pos::Any
                                }
                            } else if pinned || pr < 40 {
                                Pos::Lit
                            } else if pr < 70 {
                                Pos::Exact
                            } else {
                                Pos::Any
                            };
                            Some(Arg { kw: p.kw.to_string(), v: v.clone(), pos, named: pr % 3 == 0 })
                        } else {
                            fresh
                        }
                    })
                    .boxed()
            }
            _ => (arg_strategy(p, prof), 0u8..100).prop_map(|(a, add)| if add < 15 { a } else { None }).boxed(),
        })
        .collect();
    parts.boxed()
}

pub fn call_of(f: &'static FnSpec, prof: Profile) -> BoxedStrategy<CallCase> {
    let independent: BoxedStrategy<Vec<Option<Arg>>> = f.params.iter().map(|p| arg_strategy(p, prof)).collect::<Vec<_>>().boxed();
    let params: BoxedStrategy<Vec<Option<Arg>>> = if f.seeds.is_empty() {
        independent
    } else {
        let n = f.seeds.len();
        prop_oneof![
            60 => independent,
            40 => (0..n).prop_flat_map(move |i| seeded_args(f, i, prof)),
        ]
        .boxed()
    };
    let nclos = f.closures.len();
    (params, any::<u16>(), 0u8..100)
        .prop_map(move |(args, clos, form)| {
            let closure = if nclos == 0 { None } else { Some(gv::pick(&f.closures, clos).to_string()) };
            let form = if form < 94 {
                Form::Auto
            } else if form < 97 {
                Form::Plain
            } else {
                Form::Bang
            };
            normalise(CallCase { func: f.name.to_string(), args: args.into_iter().flatten().collect(), closure, form })
        })
        .boxed()
}

/// uniform over the non-IO functions; the function choice does not shrink (a failure stays with
/// its function)
pub fn strategy(prof: Profile) -> BoxedStrategy<CallCase> {
    let n = specs().len();
    any::<u32>().no_shrink().prop_flat_map(move |i| call_of(&specs()[i as usize % n], prof)).boxed()
}

/// human-readable one-liner for messages
pub fn describe(c: &CallCase) -> String {
    let args: Vec<String> = c.args.iter().map(|a| format!("{}={:?}@{:?}", a.kw, a.v, a.pos)).collect();
    let mut s = format!("{} [{}]", c.source(), args.join(", "));
    if s.len() > 900 {
        let mut n = 900;
        while !s.is_char_boundary(n) {
            n -= 1;
        }
        s.truncate(n);
        s.push('…');
    }
    s
}
