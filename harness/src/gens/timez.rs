//! Configured-timezone vocabulary shared by C35 and C36, plus an independent view of the zones'
//! offsets (straight from `chrono_tz` / `chrono::Local`, never through vrl).

use chrono::{DateTime, Local, MappedLocalTime, NaiveDateTime, Offset, TimeZone as _, Utc};
use chrono_tz::Tz;
use vrl::compiler::TimeZone;

/// index 6 is `TimeZone::Local` (whatever `TZ` / /etc/localtime resolve to in this process)
pub const ZONES: &[&str] = &["UTC", "Etc/GMT+5", "Asia/Kolkata", "America/New_York", "Europe/Berlin", "Australia/Lord_Howe", "local"];
pub const LOCAL: u8 = 6;

pub fn zone_name(i: u8) -> &'static str {
    ZONES[i as usize % ZONES.len()]
}

fn named(i: u8) -> Option<Tz> {
    let n = zone_name(i);
    if n == "local" {
        None
    } else {
        Some(n.parse::<Tz>().expect("zone names in ZONES are valid"))
    }
}

/// the vrl `TimeZone` configuration for zone index `i`
pub fn zone(i: u8) -> TimeZone {
    match named(i) {
        Some(tz) => TimeZone::Named(tz),
        None => TimeZone::Local,
    }
}

/// How a wall-clock time maps into a zone: offsets are seconds east of UTC.
#[derive(Clone, Copy, Debug, PartialEq, Eq)]
pub enum LocalMap {
    /// the wall-clock time is skipped (spring-forward gap)
    Gap,
    Single(i32),
    /// the wall-clock time occurs twice (fall-back overlap): (earlier, later) offsets
    Ambiguous(i32, i32),
}

impl LocalMap {
    pub fn single(self) -> Option<i32> {
        match self {
            LocalMap::Single(o) => Some(o),
            _ => None,
        }
    }
}

fn lm<T: chrono::TimeZone>(r: MappedLocalTime<DateTime<T>>) -> LocalMap {
    match r {
        MappedLocalTime::None => LocalMap::Gap,
        MappedLocalTime::Single(t) => LocalMap::Single(t.offset().fix().local_minus_utc()),
        MappedLocalTime::Ambiguous(a, b) => LocalMap::Ambiguous(a.offset().fix().local_minus_utc(), b.offset().fix().local_minus_utc()),
    }
}

/// offset(s) of zone `i` for the wall-clock time `naive`
pub fn local_map(i: u8, naive: &NaiveDateTime) -> LocalMap {
    match named(i) {
        Some(tz) => lm(tz.from_local_datetime(naive)),
        None => lm(Local.from_local_datetime(naive)),
    }
}

/// offset of zone `i` at the instant `t` (seconds east of UTC)
pub fn offset_at(i: u8, t: &DateTime<Utc>) -> i32 {
    match named(i) {
        Some(tz) => t.with_timezone(&tz).offset().fix().local_minus_utc(),
        None => t.with_timezone(&Local).offset().fix().local_minus_utc(),
    }
}

/// wall-clock reading of the instant `t` in zone `i`
pub fn wall_clock(i: u8, t: &DateTime<Utc>) -> NaiveDateTime {
    match named(i) {
        Some(tz) => t.with_timezone(&tz).naive_local(),
        None => t.with_timezone(&Local).naive_local(),
    }
}

/// `t` rendered with a strftime format in zone `i`
pub fn render_in(i: u8, t: &DateTime<Utc>, fmt: &str) -> String {
    match named(i) {
        Some(tz) => t.with_timezone(&tz).format(fmt).to_string(),
        None => t.with_timezone(&Local).format(fmt).to_string(),
    }
}

/// The first offset transition of zone `i` in (`s0`, `s0` + 400 days], as the unix second at
/// which the new offset starts; `None` when the zone has no transition there.
pub fn next_transition(i: u8, s0: i64) -> Option<i64> {
    let at = |s: i64| Utc.timestamp_opt(s, 0).single().map(|t| offset_at(i, &t));
    let o0 = at(s0)?;
    let step = 7 * 86_400;
    let mut lo = s0;
    let mut hi = None;
    for _ in 0..58 {
        let nx = lo + step;
        if at(nx)? != o0 {
            hi = Some(nx);
            break;
        }
        lo = nx;
    }
    let mut hi = hi?;
    // invariant: offset(lo) == o0 != offset(hi)
    while hi - lo > 1 {
        let mid = lo + (hi - lo) / 2;
        if at(mid)? == o0 {
            lo = mid;
        } else {
            hi = mid;
        }
    }
    Some(hi)
}

/// `s0` moved next to a DST transition of zone `i` (when it has one within 400 days): the
/// transition second plus `delta`.
pub fn near_transition(i: u8, s0: i64, delta: i64) -> i64 {
    match next_transition(i, s0) {
        Some(t) => t + delta,
        None => s0 + delta,
    }
}
