//! Byte-string payload generators for the codec / cipher round-trip properties (C22, C23):
//! incompressible, periodic, run-shaped and text-like payloads with lengths biased towards the
//! block boundaries of the codecs (3/4 for base64, 16 for AES, 64 for hash-table compressors).

use proptest::prelude::*;

use super::value::{raw_bytes, ustring};

/// lengths at which block-oriented codecs change behaviour
pub const BOUNDARY_LENS: &[usize] = &[
    0, 1, 2, 3, 4, 5, 6, 7, 8, 9, 11, 12, 13, 15, 16, 17, 31, 32, 33, 47, 48, 49, 63, 64, 65, 127, 128, 129, 255, 256, 257, 511, 512, 513, 1023, 1024, 1025,
    2047, 2048, 2049, 4095, 4096,
];

/// a length in `0..=max`, biased towards boundaries and small values
pub fn length(max: usize) -> BoxedStrategy<usize> {
    let bl: Vec<usize> = BOUNDARY_LENS.iter().copied().filter(|l| *l <= max).collect();
    prop_oneof![
        3 => (0..bl.len()).prop_map(move |i| bl[i]),
        3 => 0..=max.min(40),
        2 => 0..=max.min(300),
        2 => 0..=max,
    ]
    .boxed()
}

const WORDS: &[&str] = &[
    "the", "quick", "brown", "fox", "GET", "POST", "/index.html", "200", "404", "error", "warn", "host=", "user_id", "10.0.0.1", "timestamp", "é", "日本", "\n", " ",
    " ", "\"", "{", "}", ":", ",", "%", "%41", "=", "&", "+", "-", "0", "a",
];

/// arbitrary bytes, `0..=max` long, in shapes that exercise both the literal and the match paths
/// of compressors and every byte value for the text codecs
pub fn payload(max: usize) -> BoxedStrategy<Vec<u8>> {
    prop_oneof![
        // short, edge-biased (invalid UTF-8, NULs, 0xff)
        3 => raw_bytes(max.min(48)),
        // incompressible
        3 => length(max).prop_flat_map(|n| proptest::collection::vec(any::<u8>(), n)),
        // periodic: a short pattern repeated (highly compressible, long matches)
        2 => (proptest::collection::vec(any::<u8>(), 1..=24), length(max)).prop_map(|(pat, n)| pat.iter().cycle().take(n).copied().collect::<Vec<u8>>()),
        // a single run
        1 => (any::<u8>(), length(max)).prop_map(|(b, n)| vec![b; n]),
        // runs of runs: segments of random length, each either a run or noise
        2 => proptest::collection::vec((any::<bool>(), any::<u8>(), 1usize..200, proptest::collection::vec(any::<u8>(), 0..12)), 0..24).prop_map(move |segs| {
            let mut out = Vec::new();
            for (is_run, b, n, noise) in segs {
                if is_run { out.extend(std::iter::repeat(b).take(n)); } else { out.extend(noise); }
            }
            out.truncate(max);
            out
        }),
        // text-like (log lines over a small vocabulary)
        2 => proptest::collection::vec(0..WORDS.len(), 0..400).prop_map(move |ix| {
            let mut s = String::new();
            for i in ix { s.push_str(WORDS[i]); }
            let mut b = s.into_bytes();
            b.truncate(max);
            b
        }),
        // small alphabet noise (entropy between the extremes)
        1 => length(max).prop_flat_map(|n| proptest::collection::vec(prop_oneof![Just(b'a'), Just(b'b'), Just(0u8), Just(0xffu8)], n)),
        // unicode stress text
        1 => ustring(max.min(64) / 4).prop_map(String::into_bytes),
    ]
    .boxed()
}

/// exactly `n` bytes: random, all-zero, all-0xff, or counting (keys, IVs)
pub fn exact(n: usize) -> BoxedStrategy<Vec<u8>> {
    prop_oneof![
        8 => proptest::collection::vec(any::<u8>(), n),
        1 => Just(vec![0u8; n]),
        1 => Just(vec![0xffu8; n]),
        1 => Just((0..n).map(|i| i as u8).collect::<Vec<u8>>()),
        1 => (any::<u8>(), 0..n.max(1)).prop_map(move |(b, k)| { let mut v = vec![0xffu8; n]; if n > 0 { v[k] = b; } v }),
    ]
    .boxed()
}
