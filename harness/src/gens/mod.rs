pub mod path;
pub mod value;
