pub mod bytes;
pub mod ddquery;
pub mod kind;
pub mod path;
pub mod prog;
pub mod proggen;
pub mod timez;
pub mod value;
