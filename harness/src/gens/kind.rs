//! Serialisable kind descriptors (`KD`), conversion to `vrl::value::Kind`, random kinds and
//! direct construction of members of a kind (`value_of`).

use std::collections::BTreeMap;

use proptest::prelude::*;
use serde::{Deserialize, Serialize};
use vrl::value::kind::{Collection, Field, Index};
use vrl::value::Kind;

use super::value::{self, field, TV};

pub const BYTES: u8 = 1;
pub const INTEGER: u8 = 2;
pub const FLOAT: u8 = 4;
pub const BOOLEAN: u8 = 8;
pub const TIMESTAMP: u8 = 16;
pub const REGEX: u8 = 32;
pub const NULL: u8 = 64;
pub const UNDEFINED: u8 = 128;

#[derive(Clone, PartialEq, Serialize, Deserialize)]
pub struct KD {
    /// bit mask of primitive states (see the constants above)
    pub prim: u8,
    #[serde(default, skip_serializing_if = "Option::is_none")]
    pub arr: Option<Box<ArrD>>,
    #[serde(default, skip_serializing_if = "Option::is_none")]
    pub obj: Option<Box<ObjD>>,
}

#[derive(Clone, PartialEq, Serialize, Deserialize, Debug)]
pub struct ArrD {
    pub known: BTreeMap<usize, KD>,
    pub unknown: UK,
}

#[derive(Clone, PartialEq, Serialize, Deserialize, Debug)]
pub struct ObjD {
    pub known: BTreeMap<String, KD>,
    pub unknown: UK,
}

/// kind of the unknown fields / indices of a collection
#[derive(Clone, PartialEq, Serialize, Deserialize, Debug)]
pub enum UK {
    Closed,
    Any,
    Json,
    Exact(Box<KD>),
}

impl std::fmt::Debug for KD {
    fn fmt(&self, f: &mut std::fmt::Formatter<'_>) -> std::fmt::Result {
        write!(f, "{}", self.to_kind())?;
        if self.arr.is_some() || self.obj.is_some() {
            write!(f, "⟨{:?}⟩", self.to_kind())?;
        }
        Ok(())
    }
}

impl UK {
    fn to_kind(&self) -> Kind {
        match self {
            UK::Closed => Kind::undefined(),
            UK::Any => Kind::any(),
            UK::Json => Kind::json(),
            UK::Exact(k) => k.to_kind(),
        }
    }
    pub fn admits_defined(&self) -> bool {
        match self {
            UK::Closed => false,
            UK::Any | UK::Json => true,
            UK::Exact(k) => k.has_defined_state(),
        }
    }
}

impl KD {
    pub fn prim(mask: u8) -> KD {
        KD { prim: mask, arr: None, obj: None }
    }
    pub fn has_defined_state(&self) -> bool {
        self.prim & !UNDEFINED != 0 || self.arr.is_some() || self.obj.is_some()
    }
    pub fn admits_undefined(&self) -> bool {
        self.prim & UNDEFINED != 0
    }
    pub fn to_kind(&self) -> Kind {
        let mut k = Kind::never();
        if self.prim & BYTES != 0 {
            k.add_bytes();
        }
        if self.prim & INTEGER != 0 {
            k.add_integer();
        }
        if self.prim & FLOAT != 0 {
            k.add_float();
        }
        if self.prim & BOOLEAN != 0 {
            k.add_boolean();
        }
        if self.prim & TIMESTAMP != 0 {
            k.add_timestamp();
        }
        if self.prim & REGEX != 0 {
            k.add_regex();
        }
        if self.prim & NULL != 0 {
            k.add_null();
        }
        if self.prim & UNDEFINED != 0 {
            k.add_undefined();
        }
        if let Some(a) = &self.arr {
            let known: BTreeMap<Index, Kind> = a.known.iter().map(|(i, kd)| (Index::from(*i), kd.to_kind())).collect();
            k.add_array(Collection::from_parts(known, a.unknown.to_kind()));
        }
        if let Some(o) = &self.obj {
            let known: BTreeMap<Field, Kind> = o.known.iter().map(|(f, kd)| (Field::from(f.as_str()), kd.to_kind())).collect();
            k.add_object(Collection::from_parts(known, o.unknown.to_kind()));
        }
        k
    }
}

fn prim_mask(allow_undefined: bool) -> impl Strategy<Value = u8> {
    prop_oneof![
        4 => (0u8..7).prop_map(|i| 1 << i),
        2 => (0u8..7, 0u8..7).prop_map(|(i, j)| (1 << i) | (1 << j)),
        1 => any::<u8>().prop_map(|m| m & 0x7f),
        1 => Just(0u8),
    ]
    .prop_flat_map(move |m| {
        if allow_undefined {
            prop_oneof![3 => Just(m), 1 => Just(m | UNDEFINED)].boxed()
        } else {
            Just(m).boxed()
        }
    })
}

fn uk(inner: BoxedStrategy<KD>) -> impl Strategy<Value = UK> {
    prop_oneof![
        8 => Just(UK::Closed),
        5 => Just(UK::Any),
        1 => Just(UK::Json),
        6 => inner.prop_map(|k| UK::Exact(Box::new(k))),
    ]
}

/// Random inhabited kind descriptor. `undef` says whether the root may admit `undefined`
/// (only meaningful for kinds of fields).
pub fn kd(depth: u32, undef: bool) -> BoxedStrategy<KD> {
    if depth == 0 {
        return prim_mask(undef).prop_map(|m| KD::prim(if m & !UNDEFINED == 0 { m | INTEGER } else { m })).boxed();
    }
    let child = kd(depth - 1, true);
    let unknown_child = kd(depth - 1, false);
    let objd = (proptest::collection::btree_map(field(), child.clone(), 0..=3), uk(unknown_child.clone()))
        .prop_map(|(known, unknown)| ObjD { known, unknown });
    let arrd = (proptest::collection::vec(child, 0..=3), uk(unknown_child), any::<u8>()).prop_map(|(items, unknown, holes)| {
        let mut known = BTreeMap::new();
        let open = unknown.admits_defined();
        let mut idx = 0usize;
        for (n, it) in items.into_iter().enumerate() {
            // holes between known indices only when unknown elements can exist
            if open && (holes >> n) & 1 == 1 {
                idx += 1;
            }
            known.insert(idx, it);
            idx += 1;
        }
        // a closed array cannot have a known index that admits undefined followed by one that
        // does not (it would be uninhabited): make admits-undefined suffix-closed
        if !open {
            let mut seen_optional = false;
            for (_, k) in known.iter_mut() {
                if seen_optional {
                    k.prim |= UNDEFINED;
                }
                if k.admits_undefined() {
                    seen_optional = true;
                }
            }
        }
        ArrD { known, unknown }
    });
    (prim_mask(undef), proptest::option::weighted(0.45, arrd), proptest::option::weighted(0.55, objd))
        .prop_map(|(prim, arr, obj)| {
            let mut k = KD { prim, arr: arr.map(Box::new), obj: obj.map(Box::new) };
            if !k.has_defined_state() {
                k.prim |= INTEGER;
            }
            k
        })
        .boxed()
}

/// Direct construction of a member of `kd` (which must have a defined state).
pub fn value_of(k: &KD) -> BoxedStrategy<TV> {
    let mut opts: Vec<BoxedStrategy<TV>> = Vec::new();
    if k.prim & BYTES != 0 {
        opts.push(prop_oneof![value::ustring(8).prop_map(TV::Str), value::raw_bytes(6).prop_map(|b| TV::bytes(&b))].boxed());
    }
    if k.prim & INTEGER != 0 {
        opts.push(value::int().prop_map(TV::Int).boxed());
    }
    if k.prim & FLOAT != 0 {
        opts.push(value::float().prop_map(TV::float).boxed());
    }
    if k.prim & BOOLEAN != 0 {
        opts.push(any::<bool>().prop_map(TV::Bool).boxed());
    }
    if k.prim & TIMESTAMP != 0 {
        opts.push(value::timestamp().prop_map(|(s, n)| TV::Ts { s, n }).boxed());
    }
    if k.prim & REGEX != 0 {
        opts.push(value::regex_src().prop_map(TV::Regex).boxed());
    }
    if k.prim & NULL != 0 {
        opts.push(Just(TV::Null).boxed());
    }
    if let Some(a) = &k.arr {
        opts.push(array_of(a));
    }
    if let Some(o) = &k.obj {
        opts.push(object_of(o));
    }
    assert!(!opts.is_empty(), "value_of needs a kind with a defined state");
    proptest::strategy::Union::new(opts).boxed()
}

fn unknown_value(u: &UK) -> Option<BoxedStrategy<TV>> {
    match u {
        UK::Closed => None,
        UK::Any => Some(value::value(value::FULL, 1)),
        UK::Json => Some(value::value(value::JSON, 1)),
        UK::Exact(k) => k.has_defined_state().then(|| value_of(k)),
    }
}

fn object_of(o: &ObjD) -> BoxedStrategy<TV> {
    // each known field: Some(value) or None (absent, only if it admits undefined)
    let mut fields: Vec<BoxedStrategy<Option<(String, TV)>>> = Vec::new();
    for (name, kd) in &o.known {
        let name = name.clone();
        if !kd.has_defined_state() {
            continue; // undefined only: always absent
        }
        let present = value_of(kd).prop_map(move |v| Some((name.clone(), v))).boxed();
        if kd.admits_undefined() {
            fields.push(prop_oneof![2 => present, 1 => Just(None)].boxed());
        } else {
            fields.push(present);
        }
    }
    let known_names: Vec<String> = o.known.keys().cloned().collect();
    let extra: BoxedStrategy<Vec<(String, TV)>> = match unknown_value(&o.unknown) {
        Some(vs) => proptest::collection::vec((field(), vs), 0..=2)
            .prop_map(move |v| v.into_iter().filter(|(k, _)| !known_names.contains(k)).collect())
            .boxed(),
        None => Just(Vec::new()).boxed(),
    };
    (fields, extra)
        .prop_map(|(known, extra)| {
            let mut m: BTreeMap<String, TV> = BTreeMap::new();
            for (k, v) in known.into_iter().flatten() {
                m.insert(k, v);
            }
            for (k, v) in extra {
                m.insert(k, v);
            }
            TV::Object(m)
        })
        .boxed()
}

fn array_of(a: &ArrD) -> BoxedStrategy<TV> {
    let max_known = a.known.keys().max().copied();
    let min_len = a.known.iter().filter(|(_, k)| !k.admits_undefined()).map(|(i, _)| i + 1).max().unwrap_or(0);
    let unknown = unknown_value(&a.unknown);
    // first index that cannot be filled (not known, unknown closed)
    let upper_known = max_known.map_or(0, |m| m + 1);
    let cap = if unknown.is_some() {
        upper_known + 2
    } else {
        (0..=upper_known).find(|i| !a.known.get(i).is_some_and(KD::has_defined_state)).unwrap_or(upper_known)
    };
    let cap = cap.max(min_len);
    let known = a.known.clone();
    (min_len..=cap)
        .prop_flat_map(move |len| {
            let mut elems: Vec<BoxedStrategy<TV>> = Vec::with_capacity(len);
            for i in 0..len {
                match known.get(&i) {
                    Some(k) if k.has_defined_state() => elems.push(value_of(k)),
                    _ => elems.push(unknown.clone().unwrap_or_else(|| Just(TV::Null).boxed())),
                }
            }
            elems.prop_map(TV::Array)
        })
        .boxed()
}

/// (kind, member of the kind)
pub fn kind_and_member(depth: u32) -> BoxedStrategy<(KD, TV)> {
    kd(depth, false).prop_flat_map(|k| (Just(k.clone()), value_of(&k))).boxed()
}

// ------------------------------------------------------------------------------------------
// bottom-up construction: start from a value, take its exact kind and widen it. The value
// shrinks like any value and the widening bytes shrink towards "no widening", so failures
// minimise well (unlike the dependent top-down construction above).

struct Cur<'a> {
    b: &'a [u8],
    i: usize,
}

impl Cur<'_> {
    fn next(&mut self) -> u8 {
        let v = self.b.get(self.i).copied().unwrap_or(0);
        self.i += 1;
        v
    }
}

fn bit_of(v: &TV) -> u8 {
    match v {
        TV::Null => NULL,
        TV::Bool(_) => BOOLEAN,
        TV::Int(_) => INTEGER,
        TV::Float(_) => FLOAT,
        TV::Str(_) | TV::Bin(_) => BYTES,
        TV::Ts { .. } => TIMESTAMP,
        TV::Regex(_) => REGEX,
        TV::Array(_) | TV::Object(_) => 0,
    }
}

fn json_like(v: &TV) -> bool {
    match v {
        TV::Ts { .. } | TV::Regex(_) => false,
        TV::Array(a) => a.iter().all(json_like),
        TV::Object(o) => o.values().all(json_like),
        _ => true,
    }
}

fn small_kd(c: &mut Cur) -> KD {
    // a small kind for fields that are absent from the value / alternative states
    let m = c.next();
    let mut k = KD::prim(1 << (m % 7));
    if m & 0x80 != 0 {
        k.prim |= 1 << ((m >> 3) % 7);
    }
    match c.next() % 8 {
        1 => k.obj = Some(Box::new(ObjD { known: BTreeMap::new(), unknown: UK::Any })),
        2 => k.arr = Some(Box::new(ArrD { known: BTreeMap::new(), unknown: UK::Closed })),
        3 => {
            let mut known = BTreeMap::new();
            known.insert("a".to_string(), KD::prim(INTEGER));
            k.obj = Some(Box::new(ObjD { known, unknown: UK::Closed }));
        }
        4 => {
            let mut known = BTreeMap::new();
            known.insert(0usize, KD::prim(BYTES));
            k.arr = Some(Box::new(ArrD { known, unknown: UK::Exact(Box::new(KD::prim(INTEGER))) }));
        }
        _ => {}
    }
    k
}

fn unknown_for(children: &[&TV], c: &mut Cur) -> UK {
    if children.is_empty() {
        return match c.next() % 16 {
            0..=6 => UK::Closed,
            7..=10 => UK::Any,
            11 => UK::Json,
            _ => UK::Exact(Box::new(small_kd(c))),
        };
    }
    let all_scalar = children.iter().all(|v| !v.is_container());
    let sel0 = c.next() % 12;
    let sel = if sel0 == 11 { 3 } else { sel0 % 3 };
    if all_scalar && sel != 0 {
        let mut m = 0u8;
        for v in children {
            m |= bit_of(v);
        }
        if sel == 2 {
            m |= 1 << (c.next() % 7);
        }
        return UK::Exact(Box::new(KD::prim(m)));
    }
    if sel == 3 && children.iter().all(|v| json_like(v)) {
        return UK::Json;
    }
    UK::Any
}

fn widen(v: &TV, c: &mut Cur, depth: u32) -> KD {
    let w = c.next();
    let mut k = KD::prim(bit_of(v));
    // extra alternative states
    match w % 8 {
        5 => k.prim |= 1 << (c.next() % 7),
        6 => {
            let extra = small_kd(c);
            k.prim |= extra.prim;
            if !matches!(v, TV::Array(_)) {
                k.arr = extra.arr;
            }
            if !matches!(v, TV::Object(_)) {
                k.obj = extra.obj;
            }
        }
        7 => k.prim |= c.next() & 0x7f,
        _ => {}
    }
    match v {
        TV::Array(items) => {
            let mode = c.next();
            let mut known = BTreeMap::new();
            let mut unknown_children: Vec<&TV> = Vec::new();
            for (i, it) in items.iter().enumerate() {
                // mode bit pattern decides which elements stay known
                let keep = depth > 0 && (mode % 5 == 0 || (mode % 5 <= 2 && (c.next() % 3 != 0)));
                if keep {
                    let mut ck = widen(it, c, depth - 1);
                    if c.next() % 6 == 0 {
                        ck.prim |= UNDEFINED;
                    }
                    known.insert(i, ck);
                } else {
                    unknown_children.push(it);
                }
            }
            let unknown = unknown_for(&unknown_children, c);
            // known indices beyond the length must admit undefined
            let extra = c.next() % 6;
            if extra >= 4 {
                let at = items.len() + usize::from(extra == 5 && unknown.admits_defined());
                let mut ek = small_kd(c);
                ek.prim |= UNDEFINED;
                known.insert(at, ek);
            }
            k.arr = Some(Box::new(ArrD { known, unknown }));
        }
        TV::Object(o) => {
            let mode = c.next();
            let mut known = BTreeMap::new();
            let mut unknown_children: Vec<&TV> = Vec::new();
            for (name, it) in o {
                let keep = depth > 0 && (mode % 5 == 0 || (mode % 5 <= 2 && (c.next() % 3 != 0)));
                if keep {
                    let mut ck = widen(it, c, depth - 1);
                    if c.next() % 6 == 0 {
                        ck.prim |= UNDEFINED;
                    }
                    known.insert(name.clone(), ck);
                } else {
                    unknown_children.push(it);
                }
            }
            let unknown = unknown_for(&unknown_children, c);
            let extra = c.next() % 6;
            if extra >= 4 {
                let name = value::FIELDS[(c.next() as usize) % 8].to_string();
                if !o.contains_key(&name) {
                    let mut ek = small_kd(c);
                    ek.prim |= UNDEFINED;
                    known.insert(name, ek);
                }
            }
            k.obj = Some(Box::new(ObjD { known, unknown }));
        }
        _ => {}
    }
    k
}

/// the kind of `v` widened by the decisions in `bytes` (`v` stays a member)
pub fn widen_value(v: &TV, bytes: &[u8]) -> KD {
    let mut c = Cur { b: bytes, i: 0 };
    let mut k = widen(v, &mut c, 3);
    // the root of an event is an object and nothing else
    k.prim = 0;
    k.arr = None;
    loosen_arrays(&mut k);
    k
}

/// Array kinds with known indices that may be undefined, or with exact unknown element kinds, hit
/// the open known findings of C19 (D39 family) in almost every program that touches them; the
/// external kinds used for whole-program checks keep arrays as `array(any)` instead.
fn loosen_arrays(k: &mut KD) {
    // an object alternative inside a union keeps no required fields (C19 D40: insertion through
    // a union of a collection and something else)
    if k.obj.is_some() && (k.prim != 0 || k.arr.is_some()) {
        k.obj = Some(Box::new(ObjD { known: BTreeMap::new(), unknown: UK::Any }));
    }
    if let Some(a) = &mut k.arr {
        a.known.clear();
        a.unknown = UK::Any;
    }
    if let Some(o) = &mut k.obj {
        for v in o.known.values_mut() {
            loosen_arrays(v);
        }
        if let UK::Exact(u) = &mut o.unknown {
            loosen_arrays(u);
        }
    }
}

/// (kind, member) built bottom-up from a value; shrinks well
pub fn widened(depth: u32) -> BoxedStrategy<(KD, TV)> {
    (value::value(value::FULL, depth), proptest::collection::vec(any::<u8>(), 0..96))
        .prop_map(move |(v, bytes)| {
            let mut c = Cur { b: &bytes, i: 0 };
            let k = widen(&v, &mut c, depth + 1);
            (k, v)
        })
        .boxed()
}

/// mixture used by the kind-level checks: mostly bottom-up (good shrinking), some top-down
/// (kinds that no concrete value suggests)
pub fn kind_member_mix(depth: u32) -> BoxedStrategy<(KD, TV)> {
    prop_oneof![4 => widened(depth), 1 => kind_and_member(depth)].boxed()
}
