//! Mutation-heavy program generator (C15, C16, C17): programs made of writes and deletes on
//! event/metadata paths *near* a set of read-only paths (parents, children, siblings, other
//! indices of the same array, root, `|=`, `del(.., compact: true)`, `ok, err =` targets), placed
//! at top level, in branches, in closure bodies, in blocks on right-hand sides, behind `||`/`??`;
//! plus (switch `extras`) the path functions and other constructs that touch the target
//! (`get`/`set`/`remove` on `.` and `%`, `exists`, `unnest`, `for_each(.)`, `map_values(.)`,
//! queries on containers, templates, quoted fields).
//!
//! Produces the shared AST (`gens::prog::E`) so that `program_src` prints it. `E::Var(text, [])`
//! with free text is used as a raw-source escape for the few forms the AST cannot express
//! (`|=`, templates).

use std::collections::BTreeMap;

use proptest::prelude::*;
use serde::{Deserialize, Serialize};

use super::path::{Seg, SegPath};
use super::prog::{expr_src, target_src, BinOp, Target, E};
use super::value::TV;
use crate::model::vpath;

#[derive(Clone, Debug, PartialEq, Eq, PartialOrd, Ord, Serialize, Deserialize)]
pub struct RoPath {
    pub meta: bool,
    pub path: SegPath,
    pub recursive: bool,
}

impl RoPath {
    pub fn render(&self) -> String {
        let t = if self.meta { Target::Meta(self.path.clone()) } else { Target::Ev(self.path.clone()) };
        format!("{}{}", target_src(&t), if self.recursive { " (recursive)" } else { " (non-recursive)" })
    }
}

#[derive(Clone, Debug, Serialize, Deserialize)]
pub struct MutCase {
    pub ro: Vec<RoPath>,
    pub prog: Vec<E>,
    pub event: TV,
    pub meta: TV,
    /// how often the generator replaced a candidate mutation because its class is switched off
    /// by an open known finding (class -> count); informational only
    #[serde(default)]
    pub avoided: BTreeMap<String, u32>,
}

// known-finding classes of C15 (names of the generator switches)
pub const SW_NEG_INDEX: &str = "c15-negative-index-aliases-read-only-index";
pub const SW_BELOW_NONREC: &str = "c15-write-below-non-recursive-read-only-non-container";
pub const SW_COMPACT_DEL: &str = "c15-compacting-delete-near-read-only-path";
pub const SW_DEL_SHIFT: &str = "c15-delete-shifts-read-only-index";
pub const SW_KIND_MISMATCH: &str = "c15-write-through-sibling-of-other-segment-kind";
pub const SW_PADDING: &str = "c15-index-padding-creates-absent-read-only-index";
pub const ALL_SWITCHES: &[&str] = &[SW_NEG_INDEX, SW_BELOW_NONREC, SW_COMPACT_DEL, SW_DEL_SHIFT, SW_KIND_MISMATCH, SW_PADDING];

#[derive(Clone, Copy, Debug, Default)]
pub struct Cfg {
    /// generate 1-4 read-only paths and aim the mutations at their neighbourhood
    pub read_only: bool,
    /// path functions, exists, for_each(.), container queries, templates, quoted fields
    pub extras: bool,
    /// `unnest!(path)` statements (only with `extras`)
    pub unnest: bool,
    /// do not end the program with `[., %]` (C16: a root query covers every read)
    pub no_final_roots: bool,
    /// switches of open known findings: true = leave the class out by construction
    pub no_neg_index: bool,
    pub no_below_nonrec: bool,
    pub no_compact_del: bool,
    pub no_del_shift: bool,
    pub no_kind_mismatch: bool,
    pub no_padding: bool,
}

impl Cfg {
    fn off(&self, class: &str) -> bool {
        match class {
            SW_NEG_INDEX => self.no_neg_index,
            SW_BELOW_NONREC => self.no_below_nonrec,
            SW_COMPACT_DEL => self.no_compact_del,
            SW_DEL_SHIFT => self.no_del_shift,
            SW_KIND_MISMATCH => self.no_kind_mismatch,
            SW_PADDING => self.no_padding,
            _ => false,
        }
    }
}

#[derive(Clone, Copy, Debug, PartialEq, Eq)]
pub enum MutKind {
    Write,
    Del,
    DelCompact,
}

fn is_index(s: &Seg) -> bool {
    matches!(s, Seg::I(_))
}

fn matches_container(v: Option<&TV>, next: &Seg) -> bool {
    matches!((v, next), (Some(TV::Object(_)), Seg::F(_)) | (Some(TV::Array(_)), Seg::I(_)))
}

/// The known-finding classes (C15) a single mutation of path `q` belongs to, given the read-only
/// set and the *initial* event/metadata. Purely a function of paths and initial values; used by
/// the generator (to leave switched-off classes out by construction) and by the C15 oracle (to
/// label a failure with the classes of the mutations the run performed).
pub fn known_classes(ro: &[RoPath], event: &TV, meta: &TV, q_meta: bool, q: &[Seg], kind: MutKind) -> Vec<&'static str> {
    let mut out: Vec<&'static str> = Vec::new();
    let mut add = |c: &'static str| {
        if !out.contains(&c) {
            out.push(c);
        }
    };
    for r in ro {
        if r.meta != q_meta {
            continue;
        }
        let p = &r.path;
        let root = if r.meta { meta } else { event };
        let k = p.iter().zip(q.iter()).take_while(|(a, b)| a == b).count();
        if kind == MutKind::DelCompact {
            // compaction may remove any emptied element `q[..j]` of an array on the way up; the
            // elements behind it shift, and the same index then names another element
            for j in 1..q.len() {
                if let (Seg::I(qi), true) = (&q[j - 1], p.len() >= j && p[..j - 1] == q[..j - 1]) {
                    if let Seg::I(pi) = &p[j - 1] {
                        if pi >= qi || *pi < 0 || *qi < 0 {
                            add(SW_COMPACT_DEL);
                        }
                    }
                }
            }
        }
        if k < p.len() && k < q.len() {
            // the two paths diverge at position k
            match (&q[k], &p[k]) {
                (Seg::I(qi), Seg::I(pi)) => {
                    if *qi < 0 || *pi < 0 {
                        add(SW_NEG_INDEX);
                    } else {
                        match kind {
                            MutKind::Write => {
                                if qi > pi && vpath::get(root, &p[..=k]).is_none() {
                                    add(SW_PADDING);
                                }
                            }
                            MutKind::Del | MutKind::DelCompact => {
                                if qi < pi {
                                    if q.len() == k + 1 {
                                        add(SW_DEL_SHIFT);
                                    } else if kind == MutKind::DelCompact {
                                        add(SW_COMPACT_DEL);
                                    }
                                }
                            }
                        }
                    }
                }
                (a, b) if is_index(a) != is_index(b) => {
                    if kind == MutKind::Write {
                        add(SW_KIND_MISMATCH);
                    }
                }
                _ => {}
            }
        } else if k == p.len() && q.len() > p.len() && !r.recursive {
            // strictly below a non-recursive read-only path
            match kind {
                MutKind::Write => {
                    if !matches_container(vpath::get(root, p), &q[k]) {
                        add(SW_BELOW_NONREC);
                    }
                }
                MutKind::DelCompact => add(SW_COMPACT_DEL),
                MutKind::Del => {}
            }
        }
    }
    out
}

/// Would the compiler's documented rule reject a mutation of `q`? (parent-or-equal of a read-only
/// path; below a recursive one.) Used only to steer the acceptance rate of generated programs.
fn documented_reject(ro: &[RoPath], q_meta: bool, q: &[Seg]) -> bool {
    ro.iter().any(|r| r.meta == q_meta && (r.path.starts_with(q) || (r.recursive && q.starts_with(&r.path))))
}

struct Cur<'a> {
    b: &'a [u8],
    i: usize,
}

impl Cur<'_> {
    fn byte(&mut self) -> u8 {
        let v = self.b.get(self.i).copied().unwrap_or(0);
        self.i += 1;
        v
    }
    fn below(&mut self, n: usize) -> usize {
        if n <= 1 {
            return 0;
        }
        (self.byte() as usize * n) >> 8
    }
    fn chance(&mut self, num: u8, den: u8) -> bool {
        (self.byte() % den) < num
    }
    fn exhausted(&self) -> bool {
        self.i >= self.b.len()
    }
}

const TOP: &[&str] = &["a", "b", "arr", "obj"];
const SUB: &[&str] = &["a", "b", "k"];
const META_TOP: &[&str] = &["a", "arr", "m"];
const INDICES: &[i64] = &[0, 1, 2, 0, 1, -1, -2, 3, -3, 4];
const SCALARS: &[&str] = &["v0", "s", "flag"];

fn f(s: &str) -> Seg {
    Seg::F(s.to_string())
}

fn scalar(c: &mut Cur) -> TV {
    match c.below(7) {
        0 => TV::Null,
        1 => TV::Bool(c.chance(1, 2)),
        2 | 3 => TV::Int([0, 1, 7, -3, 42][c.below(5)]),
        4 => TV::float([1.5, -2.25][c.below(2)]),
        _ => TV::Str(["", "x", "foo", "12"][c.below(4)].to_string()),
    }
}

fn value(c: &mut Cur, d: usize) -> TV {
    if d == 0 {
        return scalar(c);
    }
    match c.below(10) {
        0..=3 => scalar(c),
        4..=6 => {
            let n = c.below(4);
            TV::Object((0..n).map(|_| (SUB[c.below(SUB.len())].to_string(), value(c, d - 1))).collect())
        }
        _ => {
            let n = c.below(5);
            TV::Array((0..n).map(|_| value(c, d - 1)).collect())
        }
    }
}

fn event_value(c: &mut Cur) -> TV {
    let mut m = BTreeMap::new();
    for t in TOP {
        if c.chance(7, 8) {
            let v = match *t {
                "arr" if c.chance(3, 4) => TV::Array((0..c.below(5)).map(|_| value(c, 1)).collect()),
                "obj" if c.chance(3, 4) => TV::Object((0..c.below(4)).map(|_| (SUB[c.below(SUB.len())].to_string(), value(c, 1))).collect()),
                _ => value(c, 2),
            };
            m.insert((*t).to_string(), v);
        }
    }
    m.insert("v0".into(), scalar(c));
    m.insert("v1".into(), TV::Object([("a".to_string(), scalar(c)), ("k".to_string(), value(c, 1))].into_iter().collect()));
    m.insert("v2".into(), TV::Array((0..1 + c.below(3)).map(|_| value(c, 1)).collect()));
    m.insert("s".into(), TV::Str(["12", "foo", "x y"][c.below(3)].to_string()));
    if c.chance(7, 8) {
        m.insert("flag".into(), TV::Bool(c.chance(1, 2)));
    }
    TV::Object(m)
}

fn meta_value(c: &mut Cur) -> TV {
    let mut m = BTreeMap::new();
    for t in META_TOP {
        if c.chance(3, 4) {
            let v = match *t {
                "arr" => TV::Array((0..c.below(4)).map(|_| value(c, 1)).collect()),
                "m" => scalar(c),
                _ => value(c, 2),
            };
            m.insert((*t).to_string(), v);
        }
    }
    TV::Object(m)
}

struct G<'a> {
    c: Cur<'a>,
    cfg: Cfg,
    ro: Vec<RoPath>,
    event: TV,
    meta: TV,
    avoided: BTreeMap<String, u32>,
    /// closure parameters in scope that hold element values
    params: Vec<String>,
    depth: usize,
    var_n: usize,
    /// > 0 inside closure bodies (loops): no reads of target containers on right-hand sides and
    /// no further loops over target collections there, so that values cannot embed themselves
    /// repeatedly (`.b[4] = .b` in a nested loop doubles the event per iteration)
    in_loop: usize,
    /// statements that copy the whole root into the target (bounded per program)
    root_copies: usize,
}

impl G<'_> {
    fn seg(&mut self) -> Seg {
        if self.c.chance(5, 9) {
            f(SUB[self.c.below(SUB.len())])
        } else {
            Seg::I(INDICES[self.c.below(INDICES.len())])
        }
    }

    fn other_seg(&mut self, s: &Seg, same_kind: bool) -> Seg {
        let want_index = is_index(s) == same_kind;
        for _ in 0..4 {
            let n = if want_index { Seg::I(INDICES[self.c.below(INDICES.len())]) } else { f(SUB[self.c.below(SUB.len())]) };
            if n != *s {
                return n;
            }
        }
        if want_index {
            Seg::I(9)
        } else {
            f("z")
        }
    }

    fn rand_path(&mut self, meta: bool) -> SegPath {
        let tops = if meta { META_TOP } else { TOP };
        let mut p = vec![f(tops[self.c.below(tops.len())])];
        let extra = [0, 0, 1, 1, 1, 2, 2, 3][self.c.below(8)];
        for _ in 0..extra {
            let s = self.seg();
            p.push(s);
        }
        p
    }

    /// a path in the neighbourhood of a read-only path (or a random one)
    fn near_path(&mut self) -> (bool, SegPath) {
        if self.ro.is_empty() || self.c.chance(1, 6) {
            let meta = self.c.chance(1, 5);
            return (meta, self.rand_path(meta));
        }
        let r = self.ro[self.c.below(self.ro.len())].clone();
        let mut meta = r.meta;
        if self.c.chance(1, 12) {
            meta = !meta;
        }
        let p = r.path;
        let n = p.len();
        let mut q: SegPath = match self.c.below(12) {
            0 => p.clone(),
            1 => p[..n.saturating_sub(1)].to_vec(),
            2 | 3 => {
                let mut q = p.clone();
                let s = self.seg();
                q.push(s);
                q
            }
            4 | 5 if n > 0 => {
                let mut q = p[..n - 1].to_vec();
                let s = self.other_seg(&p[n - 1], true);
                q.push(s);
                q
            }
            6 | 7 if p.iter().any(is_index) => {
                // another index of the same array (alias or neighbour), keeping the tail
                let pos: Vec<usize> = p.iter().enumerate().filter(|(_, s)| is_index(s)).map(|(i, _)| i).collect();
                let at = pos[self.c.below(pos.len())];
                let mut q = p.clone();
                let Seg::I(i) = p[at] else { unreachable!() };
                q[at] = Seg::I(match self.c.below(6) {
                    0 => i - 1,
                    1 => i + 1,
                    2 => -1,
                    3 => i - [1, 2, 3, 4][self.c.below(4)] as i64,
                    4 => 0,
                    _ => -(i.abs()) - 1,
                });
                if self.c.chance(1, 3) {
                    q.truncate(at + 1);
                }
                q
            }
            8 if n > 0 => {
                let mut q = p[..n - 1].to_vec();
                let s = self.other_seg(&p[n - 1], false);
                q.push(s);
                q
            }
            9 => {
                let mut q = p.clone();
                let s = self.seg();
                q.push(s);
                let s = self.seg();
                q.push(s);
                q
            }
            10 => vec![],
            _ => {
                let cut = self.c.below(n + 1);
                let mut q = p[..cut].to_vec();
                let s = self.seg();
                q.push(s);
                if self.c.chance(1, 3) {
                    let s = self.seg();
                    q.push(s);
                }
                q
            }
        };
        q.truncate(4);
        // event/metadata roots are objects: a first segment is a field (the generator keeps to
        // the documented shape of events)
        if let Some(Seg::I(_)) = q.first() {
            let tops = if meta { META_TOP } else { TOP };
            q[0] = f(tops[self.c.below(tops.len())]);
        }
        (meta, q)
    }

    /// a mutation target: retries while the candidate belongs to a switched-off class, and
    /// (3 times out of 4) while the documented rule would reject it
    fn mutation_target(&mut self, kind: MutKind) -> (bool, SegPath) {
        let keep_rejected = self.c.chance(1, 4);
        for _ in 0..6 {
            let (meta, q) = self.near_path();
            let classes = known_classes(&self.ro, &self.event, &self.meta, meta, &q, kind);
            let mut off = false;
            for c in classes {
                if self.cfg.off(c) {
                    *self.avoided.entry(c.to_string()).or_default() += 1;
                    off = true;
                }
            }
            if off {
                continue;
            }
            if !keep_rejected && documented_reject(&self.ro, meta, &q) {
                continue;
            }
            return (meta, q);
        }
        // a harmless location outside every vocabulary
        (false, vec![f("scratch")])
    }

    fn tgt(meta: bool, q: SegPath) -> Target {
        if meta {
            Target::Meta(q)
        } else {
            Target::Ev(q)
        }
    }

    fn read(meta: bool, q: SegPath) -> E {
        if meta {
            E::Meta(q)
        } else {
            E::Ev(q)
        }
    }

    fn lit_scalar(&mut self) -> E {
        E::Lit(scalar(&mut self.c))
    }

    fn obj_lit(&mut self, d: usize) -> E {
        let n = self.c.below(3);
        let mut members: Vec<(String, E)> = Vec::new();
        for _ in 0..n {
            let k = SUB[self.c.below(SUB.len())].to_string();
            if members.iter().any(|(kk, _)| *kk == k) {
                continue;
            }
            let v = if d > 0 && self.c.chance(1, 3) { self.value_expr(d - 1) } else { self.lit_scalar() };
            members.push((k, v));
        }
        E::Obj(members)
    }

    /// pure, infallible value expression
    fn value_expr(&mut self, d: usize) -> E {
        if self.in_loop > 0 {
            return match self.c.below(6) {
                0 | 1 => self.lit_scalar(),
                2 => self.obj_lit(0),
                3 if !self.params.is_empty() => E::Var(self.params[self.c.below(self.params.len())].clone(), vec![]),
                _ => E::Ev(vec![f(["v0", "v1", "v2"][self.c.below(3)])]),
            };
        }
        match self.c.below(10) {
            0 | 1 => self.lit_scalar(),
            2 => self.obj_lit(d),
            3 => {
                let n = self.c.below(4);
                E::Arr((0..n).map(|_| self.lit_scalar()).collect())
            }
            4 | 5 => E::Ev(vec![f(["v0", "v1", "v2"][self.c.below(3)])]),
            6 => {
                let (m, q) = self.near_path();
                Self::read(m, q)
            }
            7 if !self.params.is_empty() => E::Var(self.params[self.c.below(self.params.len())].clone(), vec![]),
            8 => E::Meta(vec![f(META_TOP[self.c.below(META_TOP.len())])]),
            _ => E::Ev(vec![f(TOP[self.c.below(TOP.len())])]),
        }
    }

    fn call(name: &str, bang: bool, args: Vec<E>) -> E {
        E::Call { f: name.to_string(), bang, args: args.into_iter().map(|a| (None, a)).collect(), closure: None }
    }

    fn fallible_int(&mut self) -> E {
        let src = E::Ev(vec![f(SCALARS[self.c.below(SCALARS.len())])]);
        Self::call(["to_int", "int", "to_float"][self.c.below(3)], false, vec![src])
    }

    fn cond(&mut self) -> E {
        match self.c.below(4) {
            0 => {
                let (m, q) = self.near_path();
                if q.is_empty() {
                    E::Exists(Target::Ev(vec![f("a")]))
                } else {
                    E::Exists(Self::tgt(m, q))
                }
            }
            1 => Self::call("is_string", false, vec![E::Ev(vec![f("v0")])]),
            _ => E::Bin(BinOp::Eq, Box::new(E::Ev(vec![f("flag")])), Box::new(E::Lit(TV::Bool(true)))),
        }
    }

    fn fresh_var(&mut self) -> String {
        self.var_n += 1;
        format!("x{}", self.var_n)
    }

    fn path_array(&mut self, q: &[Seg]) -> E {
        E::Arr(q.iter().map(|s| match s {
            Seg::F(k) => E::Lit(TV::Str(k.clone())),
            Seg::I(i) => E::Lit(TV::Int(*i)),
        }).collect())
    }

    /// one or two statements that mutate the target once (when they are reached)
    fn mutation(&mut self) -> Vec<E> {
        match self.c.below(16) {
            0..=5 => {
                let (m, q) = self.mutation_target(MutKind::Write);
                let v = if q.is_empty() {
                    // roots hold objects
                    if self.c.chance(1, 5) { E::Ev(vec![f("v1")]) } else { self.obj_lit(1) }
                } else {
                    self.value_expr(1)
                };
                vec![E::Assign(Self::tgt(m, q), Box::new(v))]
            }
            6 | 7 => {
                let (m, q) = self.mutation_target(MutKind::Del);
                let d = E::Del { target: Self::tgt(m, q), compact: false };
                self.wrap_del(d)
            }
            8 | 9 => {
                let (m, q) = self.mutation_target(MutKind::DelCompact);
                let d = E::Del { target: Self::tgt(m, q), compact: true };
                self.wrap_del(d)
            }
            10 | 11 => {
                // ok, err = <fallible>
                let e = self.fallible_int();
                let (m, mut q) = self.mutation_target(MutKind::Write);
                if q.is_empty() {
                    q.push(f("scratch"));
                }
                let ok = Self::tgt(m, q);
                let err = match self.c.below(4) {
                    0 => Target::Noop,
                    1 => Target::Var(self.fresh_var(), vec![]),
                    _ => {
                        let (m2, mut q2) = self.mutation_target(MutKind::Write);
                        if q2.is_empty() {
                            q2.push(f("scratch"));
                        }
                        Self::tgt(m2, q2)
                    }
                };
                let (ok, err) = if self.c.chance(1, 4) { (err, ok) } else { (ok, err) };
                if ok == Target::Noop && err == Target::Noop {
                    return vec![E::AssignInf { ok: Target::Var(self.fresh_var(), vec![]), err, e: Box::new(e), dflt: TV::Null }];
                }
                vec![E::AssignInf { ok, err, e: Box::new(e), dflt: TV::Null }]
            }
            12 | 13 => {
                // `q = {..}` then `q |= {..}` (the merge form needs an object-typed target)
                let (m, q) = self.mutation_target(MutKind::Write);
                if q.iter().any(|s| matches!(s, Seg::I(i) if *i < 0)) {
                    // the type of a location behind a negative index is not known to be an object
                    let v = self.value_expr(1);
                    return vec![E::Assign(Self::tgt(m, q), Box::new(v))];
                }
                let t = Self::tgt(m, q);
                let first = self.obj_lit(0);
                let second = self.obj_lit(1);
                let raw = format!("{} |= {}", target_src(&t), expr_src(&second, 0));
                vec![E::Assign(t, Box::new(first)), E::Var(raw, vec![])]
            }
            _ => {
                // value of a mutation used as a value: `.scratch = (q = v)` is not VRL; use a block
                let (m, q) = self.mutation_target(MutKind::Write);
                let v = if q.is_empty() { self.obj_lit(1) } else { self.value_expr(1) };
                let inner = E::Assign(Self::tgt(m, q), Box::new(v));
                vec![E::Assign(Target::Var(self.fresh_var(), vec![]), Box::new(E::Block(vec![inner])))]
            }
        }
    }

    fn wrap_del(&mut self, d: E) -> Vec<E> {
        match self.c.below(4) {
            0 => vec![E::Assign(Target::Var(self.fresh_var(), vec![]), Box::new(d))],
            1 => vec![E::Assign(Target::Ev(vec![f("scratch")]), Box::new(d))],
            _ => vec![d],
        }
    }

    /// constructs that touch the target through functions (C16/C17)
    fn extra(&mut self) -> Vec<E> {
        let var = self.fresh_var();
        let asg = |v: String, e: E| E::Assign(Target::Var(v, vec![]), Box::new(e));
        match self.c.below(14) {
            0 | 1 => {
                let (m, q) = self.near_path();
                let root = if m { E::Meta(vec![]) } else { E::Ev(vec![]) };
                let pa = self.path_array(&q);
                if self.c.chance(1, 2) {
                    vec![asg(var, Self::call("get", true, vec![root, pa]))]
                } else {
                    vec![asg(var, E::Bin(BinOp::Err, Box::new(Self::call("get", false, vec![root, pa])), Box::new(E::Lit(TV::Null))))]
                }
            }
            2 => {
                // . = set!(., path, v)
                let (m, mut q) = self.mutation_target(MutKind::Write);
                if q.is_empty() {
                    q.push(f("scratch"));
                }
                let root = if m { E::Meta(vec![]) } else { E::Ev(vec![]) };
                let pa = self.path_array(&q);
                let v = self.value_expr(1);
                vec![E::Assign(Self::tgt(m, vec![]), Box::new(Self::call("set", true, vec![root, pa, v])))]
            }
            3 => {
                // .top = set!(.top, path, v) / remove!(.top, path)
                let (m, q) = self.mutation_target(MutKind::Write);
                if q.len() < 2 {
                    let v = self.value_expr(1);
                    return vec![E::Assign(Target::Ev(vec![f("scratch")]), Box::new(v))];
                }
                let head = q[..1].to_vec();
                let pa = self.path_array(&q[1..]);
                let cur = Self::read(m, head.clone());
                let e = if self.c.chance(1, 2) {
                    let v = self.value_expr(1);
                    Self::call("set", true, vec![cur, pa, v])
                } else {
                    Self::call("remove", true, vec![cur, pa])
                };
                vec![E::Assign(Self::tgt(m, head), Box::new(e))]
            }
            4 => {
                let (m, mut q) = self.mutation_target(MutKind::Del);
                if q.is_empty() {
                    q.push(f("scratch"));
                }
                let root = if m { E::Meta(vec![]) } else { E::Ev(vec![]) };
                let pa = self.path_array(&q);
                let mut args = vec![(None, root), (None, pa)];
                if self.c.chance(1, 3) {
                    args.push((Some("compact".to_string()), E::Lit(TV::Bool(true))));
                }
                vec![E::Assign(Self::tgt(m, vec![]), Box::new(E::Call { f: "remove".into(), bang: true, args, closure: None }))]
            }
            5 => {
                let (m, q) = self.near_path();
                let t = if q.is_empty() { Target::Ev(vec![f("a")]) } else { Self::tgt(m, q) };
                vec![asg(var, E::Exists(t))]
            }
            6 if self.cfg.unnest => {
                let (m, q) = self.near_path();
                let t = if q.is_empty() { E::Ev(vec![f("arr")]) } else { Self::read(m, q) };
                let e = E::Bin(BinOp::Err, Box::new(Self::call("unnest", false, vec![t])), Box::new(E::Arr(vec![])));
                vec![asg(var, e)]
            }
            7 if self.in_loop == 0 => {
                // for_each(.) / for_each(%) with a mutation in the body
                let root = if self.c.chance(1, 4) { E::Meta(vec![]) } else { E::Ev(vec![]) };
                let body = self.closure_body(&["k", "v"], None);
                vec![E::Call { f: "for_each".into(), bang: false, args: vec![(None, root)], closure: Some((vec!["k".into(), "v".into()], body)) }]
            }
            8 if self.in_loop == 0 && self.root_copies < 2 => {
                self.root_copies += 1;
                // .scratch = map_values(.) -> |v| { v }  (reads the root through a function)
                let meta = self.c.chance(1, 4);
                let root = if meta { E::Meta(vec![]) } else { E::Ev(vec![]) };
                let body = self.closure_body(&["v"], Some(E::Var("v".into(), vec![])));
                let call = E::Call { f: "map_values".into(), bang: false, args: vec![(None, root)], closure: Some((vec!["v".into()], body)) };
                vec![E::Assign(Target::Ev(vec![f("scratch")]), Box::new(call))]
            }
            9 => {
                // queries on containers
                let (m, q) = self.near_path();
                let r = Self::read(m, q);
                let raw = if self.c.chance(1, 2) {
                    format!("{{\"a\": {}}}.a", expr_src(&r, 0))
                } else {
                    format!("[{}, %m][{}]", expr_src(&r, 0), self.c.below(3) as i64 - 1)
                };
                vec![asg(var, E::Var(raw, vec![]))]
            }
            10 => {
                // template over a variable holding target text
                let raw = format!("\"pre {{{{ {var} }}}} post\"");
                let (m, q) = self.mutation_target(MutKind::Write);
                let t = if q.is_empty() { Target::Ev(vec![f("scratch")]) } else { Self::tgt(m, q) };
                vec![
                    asg(var.clone(), E::Bin(BinOp::Err, Box::new(Self::call("string", false, vec![E::Ev(vec![f("s")])])), Box::new(E::Lit(TV::Str("d".into()))))),
                    E::Assign(t, Box::new(E::Var(raw, vec![]))),
                ]
            }
            11 => {
                // quoted field names
                let k = ["x y", "k.k", "a-b", "0"][self.c.below(4)];
                let p = vec![f(TOP[self.c.below(TOP.len())]), f(k)];
                let v = self.value_expr(0);
                vec![E::Assign(Target::Ev(p.clone()), Box::new(v)), asg(var, E::Ev(p))]
            }
            12 => {
                // deep reads
                let (m, q) = self.near_path();
                vec![asg(var, Self::read(m, q))]
            }
            _ => {
                let (m, q) = self.near_path();
                let t = if q.is_empty() { Target::Ev(vec![f("a")]) } else { Self::tgt(m, q) };
                vec![E::Assign(Target::Ev(vec![f("scratch")]), Box::new(E::Not(Box::new(E::Exists(t)))))]
            }
        }
    }

    fn closure_body(&mut self, params: &[&str], last: Option<E>) -> Vec<E> {
        let saved = self.params.clone();
        if let Some(p) = params.last() {
            self.params.push((*p).to_string());
        }
        self.depth += 1;
        self.in_loop += 1;
        let n = 1 + self.c.below(2);
        let mut body = self.stmts(n);
        self.in_loop -= 1;
        self.depth -= 1;
        self.params = saved;
        body.push(last.unwrap_or(E::Lit(TV::Null)));
        body
    }

    fn stmts(&mut self, n: usize) -> Vec<E> {
        let mut out = Vec::new();
        for _ in 0..n {
            let mut s = self.stmt();
            out.append(&mut s);
        }
        out
    }

    fn basic(&mut self) -> Vec<E> {
        if self.cfg.extras && self.c.chance(2, 5) {
            self.extra()
        } else {
            self.mutation()
        }
    }

    fn stmt(&mut self) -> Vec<E> {
        if self.depth >= 2 || self.c.exhausted() {
            return self.basic();
        }
        match self.c.below(20) {
            0..=9 => self.basic(),
            10 | 11 => {
                let p = self.cond();
                self.depth += 1;
                let n = 1 + self.c.below(2);
                let a = self.stmts(n);
                let els = if self.c.chance(1, 2) { Some(self.stmts(1)) } else { None };
                self.depth -= 1;
                vec![E::If { arms: vec![(vec![p], a)], els }]
            }
            12 | 13 => {
                // for_each over an event collection or a literal
                let pick = if self.in_loop > 0 { 2 } else { self.c.below(3) };
                let (coll, params): (E, [&str; 2]) = match pick {
                    0 => (E::Bin(BinOp::Err, Box::new(Self::call("object", false, vec![E::Ev(vec![f("obj")])])), Box::new(E::Obj(vec![("x".into(), E::Lit(TV::Int(1)))]))), ["k", "v"]),
                    1 => (E::Bin(BinOp::Err, Box::new(Self::call("array", false, vec![E::Ev(vec![f("arr")])])), Box::new(E::Arr(vec![E::Lit(TV::Int(1))]))), ["i", "v"]),
                    _ => (E::Arr(vec![E::Lit(TV::Int(1)), E::Lit(TV::Str("two".into()))]), ["i", "v"]),
                };
                let body = self.closure_body(&params, None);
                vec![E::Call { f: "for_each".into(), bang: false, args: vec![(None, coll)], closure: Some((params.iter().map(|s| (*s).to_string()).collect(), body)) }]
            }
            14 => {
                // map_values / filter / map_keys with a mutation in the body
                let which = self.c.below(3);
                let (fname, coll, params, last): (&str, E, Vec<&str>, E) = match which {
                    0 => ("map_values", E::Obj(vec![("p".into(), E::Lit(TV::Int(1))), ("q".into(), E::Lit(TV::Int(2)))]), vec!["v"], E::Var("v".into(), vec![])),
                    1 => ("filter", E::Arr(vec![E::Lit(TV::Int(1)), E::Lit(TV::Int(2))]), vec!["i", "v"], E::Lit(TV::Bool(true))),
                    _ => ("map_keys", E::Obj(vec![("p".into(), E::Lit(TV::Int(1)))]), vec!["kk"], E::Var("kk".into(), vec![])),
                };
                // the key parameter of map_keys is not a value parameter
                let body = if which == 2 {
                    self.depth += 1;
                    self.in_loop += 1;
                    let mut b = self.stmts(1);
                    self.in_loop -= 1;
                    self.depth -= 1;
                    b.push(last);
                    b
                } else {
                    self.closure_body(&params, Some(last))
                };
                let call = E::Call { f: fname.into(), bang: false, args: vec![(None, coll)], closure: Some((params.iter().map(|s| (*s).to_string()).collect(), body)) };
                vec![E::Assign(Target::Ev(vec![f("scratch")]), Box::new(call))]
            }
            15 => {
                // block on a right-hand side
                self.depth += 1;
                let mut b = self.stmts(1);
                self.depth -= 1;
                b.push(E::Lit(TV::Int(1)));
                vec![E::Assign(Target::Var(self.fresh_var(), vec![]), Box::new(E::Block(b)))]
            }
            16 | 17 => {
                // behind a short-circuit operator
                let op = [BinOp::Or, BinOp::And][self.c.below(2)];
                let a = E::Bin(BinOp::Eq, Box::new(E::Ev(vec![f("flag")])), Box::new(E::Lit(TV::Bool(true))));
                self.depth += 1;
                let mut b = self.stmts(1);
                self.depth -= 1;
                b.push(E::Lit(TV::Bool(true)));
                vec![E::Assign(Target::Var(self.fresh_var(), vec![]), Box::new(E::Bin(op, Box::new(a), Box::new(E::Block(b)))))]
            }
            _ => {
                // on the right of `??`
                let e = self.fallible_int();
                self.depth += 1;
                let mut b = self.stmts(1);
                self.depth -= 1;
                b.push(E::Lit(TV::Int(0)));
                vec![E::Assign(Target::Var(self.fresh_var(), vec![]), Box::new(E::Bin(BinOp::Err, Box::new(e), Box::new(E::Block(b)))))]
            }
        }
    }

    fn read_only_set(&mut self) -> Vec<RoPath> {
        let n = 1 + [0, 0, 0, 1, 1, 2, 3][self.c.below(7)];
        let mut locs_e = Vec::new();
        vpath::locations(&self.event, &mut Vec::new(), &mut locs_e);
        let mut locs_m = Vec::new();
        vpath::locations(&self.meta, &mut Vec::new(), &mut locs_m);
        // only the shared vocabulary (not the helper fields v0, v1, ..)
        let locs_e: Vec<SegPath> = locs_e.into_iter().map(|(p, _)| p).filter(|p| matches!(&p[0], Seg::F(k) if TOP.contains(&k.as_str())) && p.len() <= 3).collect();
        let locs_m: Vec<SegPath> = locs_m.into_iter().map(|(p, _)| p).filter(|p| p.len() <= 3).collect();
        let mut out: Vec<RoPath> = Vec::new();
        for _ in 0..n {
            let meta = self.c.chance(1, 4);
            let locs = if meta { &locs_m } else { &locs_e };
            let mut path = if !locs.is_empty() && self.c.chance(2, 3) { locs[self.c.below(locs.len())].clone() } else { self.rand_path(meta) };
            if self.c.chance(1, 8) {
                // a negative index somewhere
                for s in path.iter_mut() {
                    if let Seg::I(i) = s {
                        *i = -1 - (*i % 3);
                        break;
                    }
                }
            }
            let recursive = self.c.chance(1, 2);
            let r = RoPath { meta, path, recursive };
            if !out.iter().any(|o| o.meta == r.meta && o.path == r.path) {
                out.push(r);
            }
        }
        out
    }
}

pub fn build(bytes: &[u8], cfg: Cfg) -> MutCase {
    let mut ec = Cur { b: bytes, i: 0 };
    let event = event_value(&mut ec);
    let meta = meta_value(&mut ec);
    let used = ec.i.min(bytes.len());
    let mut g = G { c: Cur { b: &bytes[used..], i: 0 }, cfg, ro: Vec::new(), event, meta, avoided: BTreeMap::new(), params: Vec::new(), depth: 0, var_n: 0, in_loop: 0, root_copies: 0 };
    if cfg.read_only {
        g.ro = g.read_only_set();
    }
    let n = 1 + g.c.below(if cfg.read_only { 4 } else { 7 });
    let mut prog = Vec::new();
    for _ in 0..n {
        let mut s = g.stmt();
        prog.append(&mut s);
        if g.c.exhausted() {
            break;
        }
    }
    // the program's value: the event and metadata as the program sees them
    if cfg.no_final_roots {
        prog.push(E::Lit(TV::Null));
    } else {
        prog.push(E::Arr(vec![E::Ev(vec![]), E::Meta(vec![])]));
    }
    MutCase { ro: g.ro, prog, event: g.event, meta: g.meta, avoided: g.avoided }
}

pub fn strategy(cfg: Cfg) -> impl Strategy<Value = MutCase> {
    proptest::collection::vec(any::<u8>(), 60..420).prop_map(move |bytes| build(&bytes, cfg))
}
