//! Deliberately sloppy programs for C34: results that nobody uses, in every statement position,
//! next to rich *used* positions (so that a checker that flags a used value is caught too).
//!
//! A program is an optional `proggen` program with junk injected into all of its statement lists
//! (top level, blocks, branches, closure bodies, predicates), followed by a number of
//! purpose-built statements whose right-hand sides mix closures, blocks, conditionals, arrays and
//! objects with junk in the non-value positions. Everything is built as harness AST (`prog::E`)
//! and printed with the shared printer. Driven by a byte stream so that proptest shrinks it.

use proptest::prelude::*;
use serde::{Deserialize, Serialize};

use super::path::Seg;
use super::prog::{program_src, BinOp, Target, E};
use super::proggen::{self, Preset};
use super::value::TV;

#[derive(Clone, Copy, Debug)]
pub struct Opts {
    pub base: Preset,
    /// known-finding switches (true = leave the class out by construction)
    pub no_effects_in_discarded_call_args: bool,
    pub no_effects_in_discarded_object: bool,
    pub no_effects_right_of_discarded_short_circuit: bool,
    /// no array element / predicate member after a closure call
    pub no_sibling_after_closure: bool,
    /// no discarded `f!()` call inside `??` left operands and `ok, err =` right-hand sides
    pub no_bang_under_handler: bool,
}

#[derive(Clone, Debug, Serialize, Deserialize)]
pub struct SloppyCase {
    pub src: String,
    pub event: TV,
    pub meta: TV,
}

struct Cur<'a> {
    b: &'a [u8],
    i: usize,
}

impl Cur<'_> {
    fn byte(&mut self) -> u8 {
        let v = self.b.get(self.i).copied().unwrap_or(0);
        self.i += 1;
        v
    }
    fn below(&mut self, n: usize) -> usize {
        if n <= 1 {
            return 0;
        }
        (self.byte() as usize * n) >> 8
    }
    fn chance(&mut self, num: u8, den: u8) -> bool {
        (self.byte() % den) < num
    }
    fn exhausted(&self) -> bool {
        self.i >= self.b.len()
    }
}

const FIELDS: &[&str] = &["a", "b", "c", "d", "n", "s", "arr", "obj", "flag"];
const STRS: &[&str] = &["", "a", "foo", "Bar", "x y", "12", "é"];

struct J<'a> {
    c: Cur<'a>,
    o: Opts,
    in_closure: usize,
    n_out: usize,
    /// >0: closure calls are not generated (switch `no_sibling_after_closure`)
    no_closure: usize,
    /// >0: inside an error-handled expression
    handled: usize,
    /// >0: junk must be free of effects and unable to fail (inside constructs whose effects are
    /// excluded by a known-finding switch)
    pure_only: usize,
}

fn call(f: &str, args: Vec<E>) -> E {
    E::Call { f: f.to_string(), bang: false, args: args.into_iter().map(|a| (None, a)).collect(), closure: None }
}

fn call_bang(f: &str, args: Vec<E>) -> E {
    E::Call { f: f.to_string(), bang: true, args: args.into_iter().map(|a| (None, a)).collect(), closure: None }
}

fn ev(f: &str) -> E {
    E::Ev(vec![Seg::F(f.to_string())])
}

fn var(v: &str) -> E {
    E::Var(v.to_string(), vec![])
}

fn bx(e: E) -> Box<E> {
    Box::new(e)
}

impl J<'_> {
    fn field(&mut self) -> E {
        let f = FIELDS[self.c.below(FIELDS.len())];
        match self.c.below(6) {
            0 => E::Ev(vec![Seg::F(f.into()), Seg::F(FIELDS[self.c.below(3)].into())]),
            1 => E::Ev(vec![Seg::F(f.into()), Seg::I(self.c.below(2) as i64)]),
            2 => E::Meta(vec![Seg::F(["m", "tag"][self.c.below(2)].into())]),
            _ => ev(f),
        }
    }

    fn lit(&mut self) -> E {
        E::Lit(match self.c.below(9) {
            0 => TV::Null,
            1 => TV::Bool(self.c.chance(1, 2)),
            2 | 3 => TV::Int([0, 1, 2, -1, 42, i64::MAX][self.c.below(6)]),
            4 => TV::float([0.0, 1.5, -2.25][self.c.below(3)]),
            5 => TV::Regex(["a+", "(?P<d>[0-9]+)", "^x"][self.c.below(3)].to_string()),
            6 => TV::Ts { s: [0, 1_600_000_000][self.c.below(2)], n: 0 },
            _ => TV::Str(STRS[self.c.below(STRS.len())].to_string()),
        })
    }

    /// a statement with an observable effect (used inside blocks whose value goes elsewhere)
    fn effect(&mut self) -> E {
        match self.c.below(9) {
            0 | 1 => E::Assign(Target::Ev(vec![Seg::F("jx".into())]), bx(E::Lit(TV::str("a")))),
            2 => E::Assign(Target::Ev(vec![Seg::F(FIELDS[self.c.below(4)].into())]), bx(E::Lit(TV::Int(1)))),
            3 => E::Assign(Target::Var("jv".into(), vec![]), bx(E::Lit(TV::Int(2)))),
            4 => E::Del { target: Target::Ev(vec![Seg::F(FIELDS[self.c.below(FIELDS.len())].into())]), compact: false },
            5 => E::Assign(Target::Meta(vec![Seg::F("jm".into())]), bx(E::Lit(TV::Int(1)))),
            6 => E::If { arms: vec![(vec![E::Bin(BinOp::Eq, bx(ev("flag")), bx(E::Lit(TV::Bool(true))))], vec![E::Abort(None)])], els: None },
            7 if self.in_closure == 0 => {
                E::If { arms: vec![(vec![E::Bin(BinOp::Eq, bx(ev("flag")), bx(E::Lit(TV::Bool(true))))], vec![E::Return(bx(E::Lit(TV::Int(5))))])], els: None }
            }
            _ => E::Assign(Target::Ev(vec![Seg::F("jy".into()), Seg::F("k".into())]), bx(ev("a"))),
        }
    }

    /// infallible string-typed expression; `effects` allows an effectful block as the operand
    fn s_expr(&mut self, d: usize, effects: bool) -> E {
        if effects && self.c.chance(1, 2) {
            let e = self.effect();
            return E::Block(vec![e, E::Lit(TV::str("b"))]);
        }
        match self.c.below(if d == 0 { 2 } else { 7 }) {
            0 => E::Lit(TV::Str(STRS[self.c.below(STRS.len())].to_string())),
            1 => var("js"),
            2 => call("upcase", vec![self.s_expr(d - 1, effects)]),
            3 => call("to_string", vec![var("jv")]),
            4 => E::Bin(BinOp::Add, bx(self.s_expr(d - 1, false)), bx(self.s_expr(d - 1, effects))),
            5 => {
                let j = self.junk(d - 1);
                E::Block(vec![j, self.s_expr(d - 1, effects)])
            }
            _ => call("downcase", vec![self.s_expr(d - 1, effects)]),
        }
    }

    /// an infallible call without side effects (result type varies)
    fn pure_call(&mut self, d: usize, effects: bool) -> E {
        let d1 = d.saturating_sub(1);
        match self.c.below(14) {
            0 => call("upcase", vec![self.s_expr(d1, effects)]),
            1 => call("downcase", vec![self.s_expr(d1, effects)]),
            2 => call("strlen", vec![self.s_expr(d1, effects)]),
            3 => call("length", vec![self.s_expr(d1, effects)]),
            4 => {
                let f = ["is_string", "is_null", "is_array", "is_object", "is_integer", "is_boolean"][self.c.below(6)];
                let a = if effects && self.c.chance(1, 2) {
                    let e = self.effect();
                    E::Block(vec![e, self.field()])
                } else {
                    self.value(d1)
                };
                call(f, vec![a])
            }
            5 => call("encode_json", vec![self.value(d1)]),
            6 => call("contains", vec![self.s_expr(d1, effects), self.s_expr(0, false)]),
            7 => call("starts_with", vec![self.s_expr(0, false), self.s_expr(d1, effects)]),
            8 => {
                let a = if effects {
                    let e = self.effect();
                    E::Block(vec![e, E::Arr(vec![E::Lit(TV::Int(1))])])
                } else {
                    E::Arr(vec![self.lit()])
                };
                call("push", vec![a, self.value(d1)])
            }
            9 => call("to_string", vec![var("jv")]),
            10 => E::Exists(Target::Ev(vec![Seg::F(FIELDS[self.c.below(FIELDS.len())].into())])),
            11 => call("md5", vec![self.s_expr(d1, effects)]),
            12 => call("keys", vec![E::Obj(vec![("k".into(), self.value(d1))])]),
            _ => call("replace", vec![self.s_expr(d1, effects), E::Lit(TV::Regex("a+".into())), E::Lit(TV::str("z"))]),
        }
    }

    /// a call that can fail at runtime, written with `!`
    fn bang_call(&mut self) -> E {
        let a = self.field();
        match self.c.below(9) {
            0 => call_bang("to_int", vec![a]),
            1 => call_bang("string", vec![a]),
            2 => call_bang("upcase", vec![a]),
            3 => call_bang("parse_json", vec![a]),
            4 => call_bang("int", vec![a]),
            5 => call_bang("array", vec![ev("arr")]),
            6 => call_bang("object", vec![ev("obj")]),
            7 => call_bang("parse_regex", vec![a, E::Lit(TV::Regex("(?P<d>[0-9]+)".into()))]),
            _ => call_bang("bool", vec![ev("flag")]),
        }
    }

    fn closure_call(&mut self, d: usize) -> E {
        if self.no_closure > 0 {
            return self.lit();
        }
        let d1 = d.saturating_sub(1);
        self.in_closure += 1;
        let mut body = Vec::new();
        let nj = self.c.below(3);
        for _ in 0..nj {
            body.push(self.junk(d1));
        }
        let coll_arr = if self.c.chance(1, 2) {
            E::Arr(vec![E::Lit(TV::Int(1)), E::Lit(TV::Int(2)), E::Lit(TV::Int(3))])
        } else {
            E::Bin(BinOp::Err, bx(call("array", vec![ev("arr")])), bx(E::Arr(vec![E::Lit(TV::Int(7))])))
        };
        let r = match self.c.below(if self.pure_only > 0 { 4 } else { 5 }) {
            0 => {
                body.push(var("v"));
                E::Call { f: "map_values".into(), bang: false, args: vec![(None, coll_arr)], closure: Some((vec!["v".into()], body)) }
            }
            1 => {
                body.push(E::Bin(BinOp::Ne, bx(var("v")), bx(E::Lit(TV::Int(2)))));
                E::Call { f: "filter".into(), bang: false, args: vec![(None, coll_arr)], closure: Some((vec!["_i".into(), "v".into()], body)) }
            }
            2 => {
                body.push(call("upcase", vec![var("k")]));
                let coll = E::Obj(vec![("a".into(), E::Lit(TV::Int(1))), ("b".into(), self.lit())]);
                E::Call { f: "map_keys".into(), bang: false, args: vec![(None, coll)], closure: Some((vec!["k".into()], body)) }
            }
            3 => {
                let v = self.value(d1);
                body.push(E::Arr(vec![var("v"), v]));
                E::Call { f: "map_values".into(), bang: false, args: vec![(None, coll_arr)], closure: Some((vec!["v".into()], body)) }
            }
            _ => {
                body.push(E::Assign(Target::Ev(vec![Seg::F("seen".into())]), bx(var("v"))));
                E::Call { f: "for_each".into(), bang: false, args: vec![(None, coll_arr)], closure: Some((vec!["_i".into(), "v".into()], body)) }
            }
        };
        self.in_closure -= 1;
        r
    }

    /// an infallible expression in a position where its value IS used
    fn value(&mut self, d: usize) -> E {
        if d == 0 || self.c.exhausted() {
            return match self.c.below(4) {
                0 => self.field(),
                1 => var(["jv", "js"][self.c.below(2)]),
                _ => self.lit(),
            };
        }
        let d1 = d - 1;
        match self.c.below(16) {
            0 => self.lit(),
            1 => self.field(),
            2 => var(["jv", "js"][self.c.below(2)]),
            3 | 4 => {
                let n = 1 + self.c.below(3);
                let guard = self.o.no_sibling_after_closure;
                E::Arr(
                    (0..n)
                        .map(|i| {
                            let g = guard && i + 1 < n;
                            self.no_closure += usize::from(g);
                            let v = self.value(d1);
                            self.no_closure -= usize::from(g);
                            v
                        })
                        .collect(),
                )
            }
            5 => {
                let n = 1 + self.c.below(3);
                E::Obj((0..n).map(|i| (["k", "j", "a"][i].to_string(), self.value(d1))).collect())
            }
            6 | 7 => self.closure_call(d1),
            8 => {
                // block: junk in the non-value positions
                let n = 1 + self.c.below(2);
                let mut b: Vec<E> = (0..n).map(|_| self.junk(d1)).collect();
                b.push(self.value(d1));
                E::Block(b)
            }
            9 => {
                let cond = self.cond(d1);
                let mut a = vec![];
                if self.c.chance(1, 2) {
                    a.push(self.junk(d1));
                }
                a.push(self.value(d1));
                let mut b = vec![];
                if self.c.chance(1, 2) {
                    b.push(self.junk(d1));
                }
                b.push(self.value(d1));
                E::If { arms: vec![(cond, a)], els: Some(b) }
            }
            10 => self.pure_call(d1, false),
            11 => self.s_expr(d1, false),
            12 => E::Bin([BinOp::Eq, BinOp::Ne][self.c.below(2)], bx(self.value(d1)), bx(self.value(d1))),
            13 => {
                // handled fallible call; the default is a value position as well
                let f = ["to_int", "string", "upcase", "parse_json"][self.c.below(4)];
                E::Bin(BinOp::Err, bx(call(f, vec![self.field()])), bx(self.value(d1)))
            }
            14 => {
                let op = [BinOp::And, BinOp::Or][self.c.below(2)];
                let rhs = {
                    let j = self.junk(d1);
                    E::Block(vec![j, self.boolean(d1)])
                };
                E::Bin(op, bx(self.boolean(d1)), bx(rhs))
            }
            _ => call("push", vec![E::Arr(vec![self.value(d1)]), self.value(d1)]),
        }
    }

    fn boolean(&mut self, d: usize) -> E {
        match self.c.below(5) {
            0 => E::Lit(TV::Bool(self.c.chance(1, 2))),
            1 => E::Bin(BinOp::Eq, bx(ev("flag")), bx(E::Lit(TV::Bool(true)))),
            2 => call("is_string", vec![self.field()]),
            3 if d > 0 => E::Not(bx(self.boolean(d - 1))),
            _ => E::Exists(Target::Ev(vec![Seg::F(FIELDS[self.c.below(FIELDS.len())].into())])),
        }
    }

    /// predicate: one boolean, or several expressions of which only the last is the condition
    fn cond(&mut self, d: usize) -> Vec<E> {
        let b = self.boolean(d);
        match self.c.below(4) {
            0 => {
                let g = self.o.no_sibling_after_closure;
                self.no_closure += usize::from(g);
                let j = self.junk(d.saturating_sub(1));
                self.no_closure -= usize::from(g);
                vec![j, b]
            }
            1 => {
                let e = E::Assign(Target::Var("jp".into(), vec![]), bx(self.lit()));
                vec![e, b]
            }
            _ => vec![b],
        }
    }

    /// an expression in statement position whose value nobody uses
    fn junk(&mut self, d: usize) -> E {
        let d1 = d.saturating_sub(1);
        if d == 0 || self.c.exhausted() {
            return match self.c.below(3) {
                0 => self.field(),
                1 => self.pure_call(0, false),
                _ => self.lit(),
            };
        }
        if self.pure_only > 0 {
            return match self.c.below(6) {
                0 | 1 => self.lit(),
                2 => self.field(),
                3 => var(["jv", "js"][self.c.below(2)]),
                4 => self.pure_call(d1, false),
                _ => E::Block(vec![self.junk(d1), self.junk(d1)]),
            };
        }
        let fx_call = !self.o.no_effects_in_discarded_call_args;
        let fx_obj = !self.o.no_effects_in_discarded_object;
        let fx_sc = !self.o.no_effects_right_of_discarded_short_circuit;
        match self.c.below(24) {
            0 | 1 | 2 => self.lit(),
            3 | 4 => self.pure_call(d1, false),
            5 => {
                self.pure_only += usize::from(!fx_call);
                let c = self.pure_call(d1, fx_call);
                self.pure_only -= usize::from(!fx_call);
                c
            }
            6 | 7 => {
                if self.handled > 0 && self.o.no_bang_under_handler {
                    self.pure_call(d1, false)
                } else {
                    self.bang_call()
                }
            }
            8 => self.field(),
            9 => var(["jv", "js"][self.c.below(2)]),
            10 => {
                // array: every element is itself in a discarded position
                let n = 1 + self.c.below(3);
                let guard = self.o.no_sibling_after_closure;
                E::Arr(
                    (0..n)
                        .map(|i| {
                            let g = guard && i + 1 < n;
                            self.no_closure += usize::from(g);
                            let v = match self.c.below(4) {
                                0 => {
                                    let e = self.effect();
                                    E::Block(vec![e, self.lit()])
                                }
                                1 => self.junk(d1),
                                2 => self.closure_call(d1),
                                _ => self.lit(),
                            };
                            self.no_closure -= usize::from(g);
                            v
                        })
                        .collect(),
                )
            }
            11 | 12 => {
                // object: members are value positions of a discarded object
                let n = 1 + self.c.below(3);
                E::Obj(
                    (0..n)
                        .map(|i| {
                            let v = if fx_obj && self.c.chance(1, 3) {
                                let e = self.effect();
                                E::Block(vec![e, self.lit()])
                            } else if self.c.chance(1, 3) {
                                self.pure_only += usize::from(!fx_obj);
                                let c = self.pure_call(d1, false);
                                self.pure_only -= usize::from(!fx_obj);
                                c
                            } else {
                                self.lit_or_field()
                            };
                            (["k", "j", "a"][i].to_string(), v)
                        })
                        .collect(),
                )
            }
            13 => {
                // operator with a discarded result
                match self.c.below(4) {
                    0 => E::Bin(BinOp::Add, bx(self.s_expr(d1, false)), bx(self.s_expr(d1, false))),
                    1 => E::Bin(BinOp::Eq, bx(self.junk(d1)), bx(self.value(d1))),
                    2 => E::Not(bx(self.boolean(d1))),
                    _ => E::Bin(BinOp::Add, bx(E::Lit(TV::Int(1))), bx(call("strlen", vec![self.s_expr(d1, false)]))),
                }
            }
            14 => {
                // discarded short-circuit operator
                let op = [BinOp::And, BinOp::Or][self.c.below(2)];
                let rhs = if fx_sc && self.c.chance(2, 3) {
                    let e = self.effect();
                    E::Block(vec![e, E::Lit(TV::Bool(true))])
                } else {
                    self.pure_only += usize::from(!fx_sc);
                    let j = self.junk(d1);
                    self.pure_only -= usize::from(!fx_sc);
                    E::Block(vec![j, self.boolean(d1)])
                };
                E::Bin(op, bx(self.boolean(d1)), bx(rhs))
            }
            15 => {
                let n = 1 + self.c.below(3);
                E::Block((0..n).map(|_| self.junk(d1)).collect())
            }
            16 => {
                let cond = self.cond(d1);
                let a = vec![self.junk(d1)];
                let els = if self.c.chance(1, 2) { Some(vec![self.junk(d1), self.junk(d1)]) } else { None };
                E::If { arms: vec![(cond, a)], els }
            }
            17 => self.closure_call(d1),
            18 => match self.c.below(3) {
                0 => E::Del { target: Target::Ev(vec![Seg::F(FIELDS[self.c.below(FIELDS.len())].into())]), compact: false },
                1 => call_bang("assert", vec![E::Bin(BinOp::Ne, bx(ev("flag")), bx(E::Lit(TV::Bool(true))))]),
                _ => E::Del { target: Target::Var("jo".into(), vec![Seg::F("k".into())]), compact: false },
            },
            19 => {
                // discarded, handled fallible call
                let f = ["to_int", "string", "upcase", "parse_json"][self.c.below(4)];
                E::Bin(BinOp::Err, bx(call(f, vec![self.field()])), bx(self.lit()))
            }
            20 => {
                // fallible block handled by `??`: calls inside may fail without `!`
                let f = ["to_int", "string", "parse_json"][self.c.below(3)];
                let a = call(f, vec![self.field()]);
                self.handled += 1;
                let j = self.junk(d1);
                self.handled -= 1;
                let mut items = vec![j, a];
                if self.c.chance(1, 2) {
                    items.swap(0, 1);
                }
                items.push(self.lit());
                E::Bin(BinOp::Err, bx(E::Block(items)), bx(self.lit()))
            }
            21 => {
                // discarded call whose argument holds junk of its own
                self.pure_only += usize::from(!fx_call);
                let j = self.junk(d1);
                let s = self.s_expr(d1, false);
                self.pure_only -= usize::from(!fx_call);
                call("upcase", vec![E::Block(vec![j, s])])
            }
            22 => self.effect(),
            _ => self.value(d1),
        }
    }

    fn lit_or_field(&mut self) -> E {
        if self.c.chance(1, 3) {
            self.field()
        } else {
            self.lit()
        }
    }

    // ----------------------------------------------------------------------------------
    // injection into an existing program

    fn inject_list(&mut self, list: Vec<E>) -> Vec<E> {
        let mut out = Vec::with_capacity(list.len() + 2);
        for s in list {
            if self.c.chance(1, 4) {
                out.push(self.junk(2));
            }
            out.push(self.inject(s));
        }
        out
    }

    fn inject(&mut self, e: E) -> E {
        match e {
            E::Block(l) => E::Block(self.inject_list(l)),
            E::If { arms, els } => {
                let arms = arms
                    .into_iter()
                    .map(|(p, b)| {
                        let mut p: Vec<E> = p.into_iter().map(|x| self.inject(x)).collect();
                        if self.c.chance(1, 5) {
                            let g = self.o.no_sibling_after_closure;
                            self.no_closure += usize::from(g);
                            let j = self.junk(1);
                            self.no_closure -= usize::from(g);
                            p.insert(0, j);
                        }
                        (p, self.inject_list(b))
                    })
                    .collect();
                let els = els.map(|b| self.inject_list(b));
                E::If { arms, els }
            }
            E::Assign(t, x) => E::Assign(t, bx(self.inject(*x))),
            E::AssignInf { ok, err, e, dflt } => {
                self.handled += 1;
                let e = bx(self.inject(*e));
                self.handled -= 1;
                E::AssignInf { ok, err, e, dflt }
            }
            E::Bin(BinOp::Err, a, b) => {
                self.handled += 1;
                let a = bx(self.inject(*a));
                self.handled -= 1;
                E::Bin(BinOp::Err, a, bx(self.inject(*b)))
            }
            E::Bin(op, a, b) => E::Bin(op, bx(self.inject(*a)), bx(self.inject(*b))),
            E::Not(a) => E::Not(bx(self.inject(*a))),
            E::Arr(v) => E::Arr(v.into_iter().map(|x| self.inject(x)).collect()),
            E::Obj(m) => E::Obj(m.into_iter().map(|(k, x)| (k, self.inject(x))).collect()),
            E::Return(x) => E::Return(bx(self.inject(*x))),
            E::Call { f, bang, args, closure } => {
                let args = args.into_iter().map(|(k, x)| (k, self.inject(x))).collect();
                let closure = closure.map(|(p, b)| {
                    self.in_closure += 1;
                    let b = self.inject_list(b);
                    self.in_closure -= 1;
                    (p, b)
                });
                E::Call { f, bang, args, closure }
            }
            other => other,
        }
    }

    /// purpose-built statement with junk around used values
    fn used_stmt(&mut self) -> E {
        self.n_out += 1;
        let tgt = Target::Ev(vec![Seg::F(format!("u{}", self.n_out))]);
        match self.c.below(10) {
            0 | 1 | 2 | 3 | 4 => E::Assign(tgt, bx(self.value(3))),
            5 => {
                let v = self.value(2);
                E::Assign(Target::Var(format!("ju{}", self.n_out), vec![]), bx(v))
            }
            6 => {
                self.handled += 1;
                let inner = self.value(2);
                let j = self.junk(2);
                self.handled -= 1;
                E::AssignInf { ok: tgt, err: Target::Ev(vec![Seg::F("je".into())]), e: bx(call("to_int", vec![E::Block(vec![j, inner])])), dflt: TV::Int(0) }
            }
            7 => {
                let c = self.cond(1);
                let v = self.value(2);
                E::If { arms: vec![(c, vec![self.junk(2), E::Return(bx(v))])], els: None }
            }
            8 => E::Assign(Target::Meta(vec![Seg::F(format!("u{}", self.n_out))]), bx(self.value(2))),
            _ => self.junk(3),
        }
    }
}

pub fn build(base_bytes: &[u8], junk_bytes: &[u8], o: Opts) -> SloppyCase {
    let base = proggen::build(base_bytes, o.base);
    let mut j = J { c: Cur { b: junk_bytes, i: 0 }, o, in_closure: 0, n_out: 0, no_closure: 0, handled: 0, pure_only: 0 };
    let with_base = j.c.chance(3, 5);
    let mut prog: Vec<E> = vec![
        E::Assign(Target::Var("jv".into(), vec![]), bx(E::Lit(TV::Int(1)))),
        E::Assign(Target::Var("js".into(), vec![]), bx(E::Lit(TV::str("s")))),
        E::Assign(Target::Var("jo".into(), vec![]), bx(E::Obj(vec![("k".into(), E::Lit(TV::Int(1)))]))),
    ];
    if with_base {
        let injected = j.inject_list(base.prog);
        prog.extend(injected);
    }
    let n = 1 + j.c.below(if with_base { 3 } else { 6 });
    for _ in 0..n {
        if j.c.chance(1, 2) {
            prog.push(j.junk(3));
        }
        prog.push(j.used_stmt());
    }
    // the program's value: the event, or a used value
    if j.c.chance(1, 2) {
        prog.push(E::Ev(vec![]));
    } else {
        prog.push(j.value(2));
    }
    SloppyCase { src: program_src(&prog), event: base.event, meta: base.meta }
}

pub fn strategy(o: Opts) -> impl Strategy<Value = SloppyCase> {
    (proptest::collection::vec(any::<u8>(), 40..300), proptest::collection::vec(any::<u8>(), 30..260)).prop_map(move |(a, b)| build(&a, &b, o))
}
